(* C03 — Dataset containers keep every element, its order and its input-label pairing.
   Statements only; proofs in C03Proofs.v, executable model in C03Model.v.

   Proved here for all datasets / arguments: batch-size arithmetic, every batch-structure operation
   (create, repartition, splitBatch, splice, append, reorderElements, indexedSubset, splitAtElement,
   transform) keeps the element sequence as documented, and the input/label pairing theorems.
   The element iterator (increment, decrement, advance by any signed offset: the loops of
   DataElementIterator::advance) dereferences exactly the element whose index it reports.
   repartitionByClass gathers by THE stable sort by class label: the gather index is the unique
   permutation of the positions that is sorted by (label, original position); the new label sequence is
   ascending, no batch mixes classes, batch sizes are in [1,max], both containers are re-batched
   identically (C03_repartition_by_class, C03_repartition_by_class_order,
   C03_class_order_is_the_stable_sort); the loops of the C++ function (prefix sums of the class counts,
   one scatter pass) compute that index (C03_class_order_loop).
   binarySubProblem on class-sorted batches (non-empty single-class batches, ascending labels: what
   repartitionByClass establishes) returns exactly the batches / elements of the two classes, in order,
   relabelled (label == oneClass), for either order of the two arguments; a missing class yields the
   error value (C03_binary_sub_problem, C03_binary_sub_problem_absent_class).
   DataView: the constructor's index triples address element p at position p and report index p;
   subset(view, idx) keeps soundness and reports the indexed elements' dataset indices; a subset of a
   subset is the subset by the composed index vector; toDataset(view, bs) holds the view's elements in
   view order in batches of at most bs (initializeBatches) (C03_view_of, C03_view_subset,
   C03_view_subset_compose, C03_to_dataset, C03_view_to_dataset_is_composition).
   SHARED BATCHES (C03Heap.v: heap of batch objects + containers = shape and list of batch pointers; executed next to the
   real LabeledData on every run, every container observed after every operation): for all histories of create, copy,
   clear, indexedSubset (1 and 3 arguments), splice, append, push_back, element / batch-element writes, makeIndependent,
   repartition, splitBatch, reorderElements, the regrouping of the CV constructors:
   (a) every structural operation that does not throw acts on what the readers of ALL containers see exactly as the
       value-semantics operation of C03Model (C03_shared_structural_step / _histories); pointers always point into the heap;
       a structural operation fails although its list operation is defined only through SHARK_RUNTIME_CHECK(isIndependent())
       of splice / repartition / splitBatch on a sharing container (C03_only_the_independence_check_refuses);
   (b) a write lands in one batch object and changes exactly the containers holding a pointer to it, at every occurrence
       (C03_write_reaches_exactly_the_holders); isIndependent() <-> no batch twice and none held elsewhere; makeIndependent()
       changes nothing readable and establishes independence; writes through an independent container have value
       semantics, writes through others never reach it; independence lasts over every history that neither exports nor
       refills the container (C03_independence_lasts);
   (c) the element shape after every operation is the documented function of the shapes before (C03_shape_carried):
       copy, both indexedSubset overloads and splice hand it to the results, everything else keeps it;
   fold objects: createCVIndexed on a shared set allocates new batches which only the set and the fold object hold;
   training(p) / validation(p) are pointer subsets of the fold object's set (C03_fold_object_shares_the_set,
   C03_fold_parts_are_pointers); a DataView is a pointer copy written through its index triples (model op, compared).
   WEIGHTED CONTAINERS (C03Weighted.v; WeightedLabeledData with ids as elements and distinct weights is run next to the
   model on every check): weight i stays attached to element i under every structural operation (the pairing theorems
   with the weight container in the role of the label container, C03_weight_stays_with_its_element); construction with
   one weight for all elements; sumOfWeights = sum over the weight sequence, kept / split / added by the operations as the
   element sequence says; classWeight = per-class sums; bootstrap (the loop `element(index).weight += 1` as written, for
   EVERY outcome of the draws): weight i = number of draws of i, sum = number of draws, data and batch structure untouched.
   Only monitored: that bootstrap draws from all n elements (statistic over the runs with size < n, key
   bootstrap:index-range), the distribution of the draws.  Not covered: BaseWeightedDataset::shuffle and
   weightedInputs() for vector-valued inputs (do not compile, see the report), the weighted range constructors (do not compile).
   NOT proved (tied to the code by the correspondence run only, see DESIGN.md#C03): behaviour of binarySubProblem on batches
   that are NOT class-sorted (outside its documented precondition; the model still follows the code there and is compared);
   that Data::operator== is equality of the pointer lists (compared on every line of the sharing stream);
   zero-size batches (repartition accepts a size 0 but element access then breaks: outside the generated domain).
   DOCUMENTED DEVIATION: toDataset(view, batchSize) returns a dataset with the default shape (); the model follows the code
   (shape "()" after the V / W operations); the shape theorems do not cover toDataset.                       *)
From Coq Require Import List Arith Bool Permutation Sorted.
From SharkV Require Import ListAux C03Model C03Proofs C03Iter C03Class C12Model C12Proofs
  C03ClassProofs C03BinaryProofs C03ViewProofs C03LoopProofs C03Heap C03HeapProofs C03ShareProofs C03GuardProofs C03Weighted C03WeightedProofs.
Import ListNotations.

Theorem C03_optimal_batch_sizes :
  forall n m l, opt_sizes n m = Some l ->
    sum l = n /\ (forall s, In s l -> 1 <= s <= m) /\
    (forall s t, In s l -> In t l -> s <= t + 1) /\ (n = 0 -> l = []).
Proof. exact opt_sizes_spec. Qed.
Print Assumptions C03_optimal_batch_sizes.

Theorem C03_batch_sizes_sum_to_element_count :
  forall A (d : @data A), sum (sizes d) = length (elems d).
Proof. intros A. exact (@sizes_sum_to_count A). Qed.
Print Assumptions C03_batch_sizes_sum_to_element_count.

Theorem C03_create :
  forall A (l : list A) m d, create l m = Some d ->
    elems d = l /\ sum (sizes d) = length l /\
    (forall s, In s (sizes d) -> 1 <= s <= (if m =? 0 then length l else m)).
Proof. intros A. exact (@create_spec A). Qed.
Print Assumptions C03_create.

Theorem C03_repartition :
  forall A szs (d d' : @data A), repartition szs d = Some d' -> elems d' = elems d /\ sizes d' = szs.
Proof. intros A. exact (@repartition_spec A). Qed.
Print Assumptions C03_repartition.

Theorem C03_split_batch :
  forall A b k (d d' : @data A), split_batch b k d = Some d' ->
    elems d' = elems d /\
    (((k = 0 \/ k = length (nth b d [])) /\ d' = d) \/
     sizes d' = firstn b (sizes d) ++ [k; length (nth b d []) - k] ++ skipn (S b) (sizes d)).
Proof. intros A. exact (@split_batch_spec A). Qed.
Print Assumptions C03_split_batch.

Theorem C03_splice :
  forall A b (d l r : @data A), splice b d = Some (l, r) ->
    l ++ r = d /\ elems l ++ elems r = elems d /\ length l = b.
Proof. intros A. exact (@splice_spec A). Qed.
Print Assumptions C03_splice.

Theorem C03_append :
  forall A (d1 d2 : @data A),
    elems (append d1 d2) = elems d1 ++ elems d2 /\ sizes (append d1 d2) = sizes d1 ++ sizes d2.
Proof. intros A. exact (@append_spec A). Qed.
Print Assumptions C03_append.

Theorem C03_reorder_is_gather :
  forall A dflt idx (d d' : @data A), reorder dflt idx d = Some d' ->
    elems d' = map (fun i => nth i (elems d) dflt) idx /\ sizes d' = sizes d.
Proof. intros A. exact (@reorder_spec A). Qed.
Print Assumptions C03_reorder_is_gather.

(* shuffle = reorderElements with a permutation: the multiset of elements is unchanged *)
Theorem C03_shuffle_keeps_multiset :
  forall A dflt idx (d d' : @data A), reorder dflt idx d = Some d' ->
    Permutation idx (seq 0 (nelems d)) -> Permutation (elems d') (elems d).
Proof. intros A. exact (@reorder_permutation A). Qed.
Print Assumptions C03_shuffle_keeps_multiset.

Theorem C03_indexed_subset :
  forall A idx (d d' : @data A), indexed_subset idx d = Some d' ->
    d' = map (fun i => nth i d []) idx /\ elems d' = flat_map (fun i => nth i d []) idx.
Proof. intros A. exact (@indexed_subset_spec A). Qed.
Print Assumptions C03_indexed_subset.

Theorem C03_split_at_element :
  forall A k (d l r : @data A), split_at_element k d = Some (l, r) ->
    elems l = firstn k (elems d) /\ elems r = skipn k (elems d).
Proof. intros A. exact (@split_at_element_spec A). Qed.
Print Assumptions C03_split_at_element.

Theorem C03_transform_keeps_structure :
  forall A B (f : A -> B) (d : @data A),
    elems (transform f d) = map f (elems d) /\ sizes (transform f d) = sizes d.
Proof. intros A B. exact (@transform_keeps_structure A B). Qed.
Print Assumptions C03_transform_keeps_structure.

(* inputs are never separated from their labels: a labelled dataset that is the pair of
   projections of one dataset of (input,label) pairs stays so under every operation applied to the
   two containers separately, and position i of the inputs always sits next to position i of the
   labels *)
Theorem C03_pairing_elements :
  forall I L (z : @data (I * L)),
    combine (elems (inputs (paired z))) (elems (labels (paired z))) = elems z.
Proof. intros I L. exact (@paired_elements I L). Qed.
Print Assumptions C03_pairing_elements.

Theorem C03_pairing_repartition :
  forall I L szs (z : @data (I * L)),
    lift2 (fun X => repartition szs) (paired z) = omap paired (repartition szs z).
Proof. intros I L. exact (@pairing_repartition I L). Qed.
Print Assumptions C03_pairing_repartition.

Theorem C03_pairing_split_batch :
  forall I L b k (z : @data (I * L)),
    lift2 (fun X => split_batch b k) (paired z) = omap paired (split_batch b k z).
Proof. intros I L. exact (@pairing_split_batch I L). Qed.
Print Assumptions C03_pairing_split_batch.

Theorem C03_pairing_reorder :
  forall I L di dl idx (z : @data (I * L)),
    match reorder di idx (inputs (paired z)), reorder dl idx (labels (paired z)) with
    | Some a, Some b => Some (mkL a b) | _, _ => None end
    = omap paired (reorder (di, dl) idx z).
Proof. intros I L. exact (@pairing_reorder I L). Qed.
Print Assumptions C03_pairing_reorder.

Theorem C03_pairing_indexed_subset :
  forall I L idx (z : @data (I * L)),
    lift2 (fun X => indexed_subset idx) (paired z) = omap paired (indexed_subset idx z).
Proof. intros I L. exact (@pairing_indexed_subset I L). Qed.
Print Assumptions C03_pairing_indexed_subset.

Theorem C03_pairing_splice_and_split :
  forall I L k (z : @data (I * L)),
    (match splice k (inputs (paired z)), splice k (labels (paired z)) with
     | Some (a1, a2), Some (b1, b2) => Some (mkL a1 b1, mkL a2 b2) | _, _ => None end
     = omap (fun p => (paired (fst p), paired (snd p))) (splice k z)) /\
    (match split_at_element k (inputs (paired z)), split_at_element k (labels (paired z)) with
     | Some (a1, a2), Some (b1, b2) => Some (mkL a1 b1, mkL a2 b2) | _, _ => None end
     = omap (fun p => (paired (fst p), paired (snd p))) (split_at_element k z)).
Proof. intros I L k z. split; [exact (@pairing_splice I L k z)|exact (@pairing_split_at_element I L k z)]. Qed.
Print Assumptions C03_pairing_splice_and_split.

(* indexedSubset(indices, subset, complement): subset and complement together are exactly the
   batches of the dataset (as index sets: a permutation of 0..n-1), for distinct indices in ANY order *)
Theorem C03_subset_and_complement :
  forall idx n, NoDup idx -> (forall i, In i idx -> i < n) ->
    Permutation (idx ++ complement idx n) (seq 0 n).
Proof. exact complement_perm. Qed.
Print Assumptions C03_subset_and_complement.

(* element access by iterator (either direction, any jump) agrees with access by index; [it_ok d it p]
   says: the iterator points into batch b at element e, reports index p, and p is the position of
   that element in the batch sequence *)
Theorem C03_iterator_dereferences_indexed_element :
  forall A (d : @data A) it p, it_ok d it p -> it_deref d it = element p d.
Proof. intros A d it p H. rewrite element_spec. exact (deref_ok d it p H). Qed.
Print Assumptions C03_iterator_dereferences_indexed_element.

Theorem C03_iterator_steps :
  forall A (d : @data A), (forall b, b < length d -> 0 < length (nth b d [])) ->
  forall it p, it_ok d it p ->
    (S p < nelems d -> it_ok d (it_incr d it) (S p) /\ it_decr d (it_incr d it) = it) /\
    (forall q, p = S q -> it_ok d (it_decr d it) q) /\
    (forall n, p + n < nelems d -> it_ok d (it_advance d it false n) (p + n)) /\
    (forall n, n <= p -> it_ok d (it_advance d it true n) (p - n)).
Proof.
  intros A d NE it p H. split; [|split; [|split]].
  - intros Hn. split; [apply incr_ok; auto|eapply incr_decr_identity; eauto].
  - intros q ->. apply decr_ok; auto.
  - intros n Hn. apply advance_forward_ok; auto.
  - intros n Hn. apply advance_backward_ok; auto.
Qed.
Print Assumptions C03_iterator_steps.

Theorem C03_repartition_by_class :
  forall I (dI : I) m (d d' : labeled I nat),
    repartition_by_class dI m d = Some d' -> nelems (inputs d) = nelems (labels d) ->
    let idx := class_order (elems (labels d)) in
    elems (inputs d') = map (fun i => nth i (elems (inputs d)) dI) idx /\
    elems (labels d') = map (fun i => nth i (elems (labels d)) 0) idx /\
    Permutation (elems (inputs d')) (elems (inputs d)) /\
    Permutation (elems (labels d')) (elems (labels d)) /\
    sizes (inputs d') = sizes (labels d').
Proof. intros I. exact (@repartition_by_class_spec I). Qed.
Print Assumptions C03_repartition_by_class.

(* repartitionByClass orders class by class, ascending label, stable inside a class.
   [lex_order g i j] := g i < g j \/ (g i = g j /\ i < j);  [label_at ls i] := nth i ls 0;
   [class_batched lb] := every batch of lb is non-empty and holds one label only, and the label
   sequence elems lb is ascending (StronglySorted le).  Together with C03_repartition_by_class
   (new elements = old elements read through class_order, which is a permutation of all positions). *)
Theorem C03_repartition_by_class_order :
  forall I (dI : I) m (d d' : labeled I nat),
    repartition_by_class dI m d = Some d' ->
    let ls := elems (labels d) in
    StronglySorted (lex_order (label_at ls)) (class_order ls) /\
    class_batched (labels d') /\
    (forall s, In s (sizes (labels d')) -> 1 <= s <= m) /\
    sizes (inputs d') = sizes (labels d').
Proof. intros I. exact (@repartition_by_class_order I). Qed.
Print Assumptions C03_repartition_by_class_order.

(* ... and that pins the order down completely: it is the stable sort *)
Theorem C03_class_order_is_the_stable_sort :
  forall ls idx, Permutation idx (seq 0 (length ls)) ->
    StronglySorted (lex_order (label_at ls)) idx -> idx = class_order ls.
Proof. exact class_order_unique. Qed.
Print Assumptions C03_class_order_is_the_stable_sort.

(* the loops of the C++ function: classIndex = prefix sums of the class counts; for every element in
   order: elemIndex[classIndex[label]] = running position; ++classIndex[label].  The correspondence run
   executes this loop model (repartition_by_class_loop) against the real code. *)
Theorem C03_class_order_loop :
  forall ls, class_order_loop ls = class_order ls.
Proof. exact class_order_loop_correct. Qed.
Print Assumptions C03_class_order_loop.

Theorem C03_repartition_by_class_loop :
  forall I (dI : I) m d, repartition_by_class_loop dI m d = repartition_by_class dI m d.
Proof. intros I. exact (@repartition_by_class_loop_correct I). Qed.
Print Assumptions C03_repartition_by_class_loop.

(* binarySubProblem under its documented precondition.  [keep_label zero one l] := l = zero or l = one;
   [keep_batch zero one b] := keep_label of the label of the first element of b;
   [binary_relabel one l] := if l = one then 1 else 0 *)
Theorem C03_binary_sub_problem :
  forall I (z : @data (I * nat)) zero one,
    class_batched (labels (paired z)) -> zero <> one ->
    In zero (elems (labels (paired z))) -> In one (elems (labels (paired z))) ->
    exists z',
      binary_sub_problem zero one (paired z) =
        Some (mkL (transform fst z') (transform (fun p => binary_relabel one (snd p)) z')) /\
      z' = filter (keep_batch zero one) z /\
      elems z' = filter (fun p => keep_label zero one (snd p)) (elems z).
Proof. intros I. exact (@binary_sub_problem_spec I). Qed.
Print Assumptions C03_binary_sub_problem.

Theorem C03_binary_sub_problem_absent_class :
  forall I (d : labeled I nat) zero one,
    ~ In zero (elems (labels d)) \/ ~ In one (elems (labels d)) -> binary_sub_problem zero one d = None.
Proof. intros I. exact (@binary_sub_problem_absent I). Qed.
Print Assumptions C03_binary_sub_problem_absent_class.

(* every labelled dataset whose two containers are batched identically is a dataset of pairs, so the
   result of repartitionByClass satisfies the hypotheses of C03_binary_sub_problem *)
Theorem C03_identically_batched_is_paired :
  forall I L (d : labeled I L), sizes (inputs d) = sizes (labels d) -> exists z, d = paired z.
Proof. intros I L. exact (@paired_exists I L). Qed.
Print Assumptions C03_identically_batched_is_paired.

(* DataView.  [view_wf d v]: every entry e of v addresses (batch, position in batch) the element whose
   dataset index it reports: view_get d e = nth_error (elems d) (index e), index e < nelems d *)
Theorem C03_view_of :
  forall A (d : @data A),
    map (view_get d) (view_of d) = map Some (elems d) /\
    map vi_dataset_index (view_of d) = seq 0 (nelems d) /\
    view_wf d (view_of d).
Proof. intros A d. destruct (view_of_spec d). repeat split; auto. apply view_of_wf. Qed.
Print Assumptions C03_view_of.

Theorem C03_view_subset :
  forall A (d : @data A) v idx v', view_wf d v -> view_subset v idx = Some v' ->
    view_wf d v' /\ length v' = length idx /\
    map vi_dataset_index v' = map (fun i => vi_dataset_index (nth i v (0, 0, 0))) idx.
Proof. intros A. exact (@view_subset_spec A). Qed.
Print Assumptions C03_view_subset.

Theorem C03_view_subset_compose :
  forall v i1 i2 v1 v2, view_subset v i1 = Some v1 -> view_subset v1 i2 = Some v2 ->
    view_subset v (map (fun j => nth j i1 0) i2) = Some v2.
Proof. exact view_subset_compose. Qed.
Print Assumptions C03_view_subset_compose.

Theorem C03_to_dataset :
  forall A (dflt : A) (d : @data A) v bs, view_wf d v ->
    exists d', to_dataset d v bs = Some d' /\
      elems d' = map (fun e => nth (vi_dataset_index e) (elems d) dflt) v /\
      sum (sizes d') = length v /\
      (v <> [] -> sizes d' = init_sizes (length v) bs) /\
      (forall s, In s (sizes d') -> 1 <= s /\ (0 < bs -> s <= bs)).
Proof. intros A. exact (@to_dataset_spec A). Qed.
Print Assumptions C03_to_dataset.

Theorem C03_view_to_dataset_is_composition :
  forall A (dflt : A) idx bs (d : @data A),
    view_to_dataset dflt idx bs d =
    match view_subset (view_of d) idx with Some v => to_dataset d v bs | None => None end.
Proof. intros A. exact (@view_to_dataset_is_composition A). Qed.
Print Assumptions C03_view_to_dataset_is_composition.

(* non-vacuity *)
Example C03_example :
  exists d l r, create [1;2;3;4;5;6;7] 3 = Some d /\ sizes d = [3;2;2] /\
                split_at_element 4 d = Some (l, r) /\ elems l = [1;2;3;4] /\ sizes r = [1;2].
Proof. eexists. eexists. eexists. vm_compute. repeat split; reflexivity. Qed.

(* the hypotheses of the class-order / binarySubProblem / view theorems are satisfiable *)
Example C03_class_example :
  exists z, repartition_by_class 0 2 (paired [[(10,2);(11,0);(12,1)];[(13,0);(14,2)]]) = Some (paired z) /\
            z = [[(11,0);(13,0)];[(12,1)];[(10,2);(14,2)]] /\
            class_batched (labels (paired z)) /\ 0 <> 2 /\
            In 2 (elems (labels (paired z))) /\ In 0 (elems (labels (paired z))) /\
            binary_sub_problem 2 0 (paired z) = Some (paired [[(11,1);(13,1)];[(10,0);(14,0)]]).
Proof.
  exists [[(11,0);(13,0)];[(12,1)];[(10,2);(14,2)]].
  assert (H : repartition_by_class 0 2 (paired [[(10,2);(11,0);(12,1)];[(13,0);(14,2)]])
              = Some (paired [[(11,0);(13,0)];[(12,1)];[(10,2);(14,2)]])) by (vm_compute; reflexivity).
  split; [exact H|]. split; [reflexivity|].
  split; [exact (proj1 (proj2 (C03_repartition_by_class_order _ _ _ _ _ H)))|].
  split; [discriminate|]. vm_compute. intuition.
Qed.

Example C03_view_example :
  exists v1 v2 d', view_subset (view_of [[10;11;12];[13;14]]) [4;0;0;2] = Some v1 /\ view_subset v1 [3;1;0] = Some v2 /\
    view_wf [[10;11;12];[13;14]] v2 /\ to_dataset [[10;11;12];[13;14]] v2 2 = Some d' /\ d' = [[12;10];[14]].
Proof.
  set (d := [[10;11;12];[13;14]]).
  pose (v1 := map (fun i => nth i (view_of d) (0, 0, 0)) [4;0;0;2]).
  assert (E1 : view_subset (view_of d) [4;0;0;2] = Some v1) by (vm_compute; reflexivity).
  pose (v2 := map (fun i => nth i v1 (0, 0, 0)) [3;1;0]).
  assert (E2 : view_subset v1 [3;1;0] = Some v2) by (vm_compute; reflexivity).
  exists v1, v2, [[12;10];[14]]. split; [exact E1|]. split; [exact E2|]. split.
  - exact (proj1 (C03_view_subset _ d v1 _ v2 (proj1 (C03_view_subset _ d _ _ v1 (view_of_wf d) E1)) E2)).
  - split; vm_compute; reflexivity.
Qed.

(* ================= shared batches: the heap model of C03Heap.v (run next to the real containers on every check) =================
   state = heap of batch objects + handles (shape, list of batch ids); [contents st r] = what a reader of container r sees;
   [abs st] = the list (shape, batches) of all containers = the value-semantics state of C03Model;
   [wf st] = every pointer points into the heap; [holds st y c] = container y has a pointer to batch object c;
   [indep_prop st r] = no batch object twice in r and none of them held by another container. *)

Theorem C03_heap_wellformed_always :
  forall A Sh (dflt : A) (shape0 : Sh) n ops, wf (run dflt shape0 ops (init shape0 n)).
Proof. intros A Sh. exact (@wf_reachable A Sh). Qed.
Print Assumptions C03_heap_wellformed_always.

Theorem C03_heap_wellformed_step :
  forall A Sh (dflt : A) (shape0 : Sh) o st st', wf st -> step dflt shape0 o st = Some st' -> wf st'.
Proof. intros A Sh. exact (@wf_step A Sh). Qed.
Print Assumptions C03_heap_wellformed_step.

(* (a) every structural operation (everything but an element write) that does not throw acts on what the readers of ALL
   containers see, shapes included, exactly as the value-semantics operation of C03Model: sharing is invisible *)
Theorem C03_shared_structural_step :
  forall A Sh (dflt : A) (shape0 : Sh) o st st',
    wf st -> step dflt shape0 o st = Some st' -> is_write o = false ->
    astep dflt shape0 o (abs st) = Some (abs st').
Proof. intros A Sh. exact (@step_refines A Sh). Qed.
Print Assumptions C03_shared_structural_step.

(* ... over all histories; operations refused by the independence check leave everything unchanged ([run] skips them,
   [ok_ops] lists the others) *)
Theorem C03_shared_structural_histories :
  forall A Sh (dflt : A) (shape0 : Sh) ops st,
    wf st -> forallb (fun o => negb (is_write o)) ops = true ->
    arun dflt shape0 (ok_ops dflt shape0 ops st) (abs st) = Some (abs (run dflt shape0 ops st)).
Proof. intros A Sh. exact (@run_refines A Sh). Qed.
Print Assumptions C03_shared_structural_histories.

(* ... and the ONLY way a structural operation fails although the value-semantics operation is defined is the
   independence check of splice / repartition / splitBatch ([guarded]) on a container that shares a batch *)
Theorem C03_only_the_independence_check_refuses :
  forall A Sh (dflt : A) (shape0 : Sh) o (st : state A Sh),
    is_write o = false -> astep dflt shape0 o (abs st) <> None -> step dflt shape0 o st = None ->
    exists r, guarded o = Some r /\ valid st r = true /\ independent shape0 st r = false.
Proof. intros A Sh. exact (@step_fails_only_by_the_independence_check A Sh). Qed.
Print Assumptions C03_only_the_independence_check_refuses.

(* (b) a write through container r lands in ONE batch object c; afterwards every container reads every occurrence of c
   with the new contents and everything else as before: exactly the holders of c change *)
Theorem C03_write_reaches_exactly_the_holders :
  forall A Sh (shape0 : Sh) (st st' : state A Sh) r b j (v : A),
    wf st -> write_batch shape0 st r b j v = Some st' ->
    let c := nth b (h_ids (hnd shape0 st r)) 0 in
    let old := cell (st_heap st) c in
    st_handles st' = st_handles st /\
    holds shape0 st r c /\ j < length old /\
    (forall y, contents shape0 st' y =
               map (fun id => if id =? c then upd j v old else cell (st_heap st) id) (h_ids (hnd shape0 st y))) /\
    (forall y, ~ holds shape0 st y c -> contents shape0 st' y = contents shape0 st y) /\
    (forall y, holds shape0 st y c -> upd j v old <> old -> contents shape0 st' y <> contents shape0 st y) /\
    nth_error (nth b (contents shape0 st' r) []) j = Some v.
Proof. intros A Sh. exact (@write_batch_effect A Sh). Qed.
Print Assumptions C03_write_reaches_exactly_the_holders.

(* element(k) = v is the write into the batch that holds element k *)
Theorem C03_element_write_is_a_batch_write :
  forall A Sh (dflt : A) (shape0 : Sh) (st st' : state A Sh) r k v,
    wf st -> step dflt shape0 (OWrite r k v) st = Some st' ->
    exists b j, locate (sizes (contents shape0 st r)) k = Some (b, j) /\ write_batch shape0 st r b j v = Some st' /\
                k = sum (firstn b (sizes (contents shape0 st r))) + j.
Proof. intros A Sh. exact (@write_elem_effect A Sh). Qed.
Print Assumptions C03_element_write_is_a_batch_write.

(* isIndependent() (all use counts are 1) is the statement about pointers *)
Theorem C03_is_independent_spec :
  forall A Sh (shape0 : Sh) (st : state A Sh) r,
    valid st r = true -> (independent shape0 st r = true <-> indep_prop shape0 st r).
Proof. intros A Sh. exact (@independent_spec A Sh). Qed.
Print Assumptions C03_is_independent_spec.

(* makeIndependent(): no reader sees a difference (contents, shapes of all containers), the container is independent *)
Theorem C03_make_independent :
  forall A Sh (dflt : A) (shape0 : Sh) (st st' : state A Sh) r,
    wf st -> step dflt shape0 (OMakeIndep r) st = Some st' ->
    abs st' = abs st /\ indep_prop shape0 st' r /\ independent shape0 st' r = true.
Proof. intros A Sh. exact (@make_independent_spec A Sh). Qed.
Print Assumptions C03_make_independent.

(* writes through an independent container have value semantics and change nobody else; writes through others never reach it *)
Theorem C03_independent_write_is_local :
  forall A Sh (shape0 : Sh) (st st' : state A Sh) x b j (v : A),
    wf st -> indep_prop shape0 st x -> write_batch shape0 st x b j v = Some st' ->
    contents shape0 st' x = upd b (upd j v (nth b (contents shape0 st x) [])) (contents shape0 st x) /\
    forall y, y <> x -> contents shape0 st' y = contents shape0 st y.
Proof. intros A Sh. exact (@independent_write_is_local A Sh). Qed.
Print Assumptions C03_independent_write_is_local.

Theorem C03_write_elsewhere_does_not_reach_independent :
  forall A Sh (shape0 : Sh) (st st' : state A Sh) x y b j (v : A),
    wf st -> indep_prop shape0 st x -> y <> x -> write_batch shape0 st y b j v = Some st' ->
    contents shape0 st' x = contents shape0 st x.
Proof. intros A Sh. exact (@write_elsewhere_keeps_independent A Sh). Qed.
Print Assumptions C03_write_elsewhere_does_not_reach_independent.

(* independence lasts: over every history in which x is neither handed to another container ([exports]: copy / subset /
   append of x) nor refilled with another container's pointers ([imports]) — in particular over all writes, repartitions,
   reorders, splices, splits, push_backs and makeIndependent calls on ANY container *)
Theorem C03_independence_lasts :
  forall A Sh (dflt : A) (shape0 : Sh) ops (st : state A Sh) x,
    wf st -> valid st x = true -> indep_prop shape0 st x ->
    forallb (fun o => negb (exports o x) && negb (imports o x)) ops = true ->
    indep_prop shape0 (run dflt shape0 ops st) x.
Proof. intros A Sh. exact (@independent_along_history A Sh). Qed.
Print Assumptions C03_independence_lasts.

(* (c) the element shape after any operation (writes included) is a function of the operation and the shapes before:
   copy / indexedSubset (1 and 3 arguments) / splice hand the shape of the source to the results, everything else
   (append, push_back, repartition, splitBatch, reorderElements, the CV regrouping, makeIndependent, writes) keeps it *)
Theorem C03_shape_carried :
  forall A Sh (dflt : A) (shape0 : Sh) o (st st' : state A Sh),
    step dflt shape0 o st = Some st' ->
    forall y, h_shape (hnd shape0 st' y) = shape_after shape0 o (fun z => h_shape (hnd shape0 st z)) y.
Proof. intros A Sh. exact (@shape_step A Sh). Qed.
Print Assumptions C03_shape_carried.

(* createCVIndexed on a set that other containers share: the set gets NEW batches holding what cv_indexed prescribes, the
   fold object holds the same pointers and shape, nobody else holds them, every other container is untouched *)
Theorem C03_fold_object_shares_the_set :
  forall A Sh (dflt : A) (shape0 : Sh) (st st' : state A Sh) r fd idx k m folds,
    wf st -> r <> fd -> cv_indexed_shared dflt shape0 r fd idx k m st = Some (st', folds) ->
    exists c, cv_indexed dflt idx k m (contents shape0 st r) = Some c /\
      contents shape0 st' r = cv_set c /\ folds = cv_folds c /\
      hnd shape0 st' fd = hnd shape0 st' r /\ h_shape (hnd shape0 st' r) = h_shape (hnd shape0 st r) /\
      indep_prop shape0 (set_h st' fd (hempty shape0)) r /\
      forall y, y <> r -> y <> fd -> hnd shape0 st' y = hnd shape0 st y /\ contents shape0 st' y = contents shape0 st y.
Proof. intros A Sh. exact (@cv_indexed_shared_spec A Sh). Qed.
Print Assumptions C03_fold_object_shares_the_set.

(* CVFolds::training(p) / validation(p): pointers to the fold object's batches (so a write through a training part is a write
   into the fold object's set and into every other part that contains the batch, by C03_write_reaches_exactly_the_holders) *)
Theorem C03_fold_parts_are_pointers :
  forall A Sh (dflt : A) (shape0 : Sh) (st st' : state A Sh) fd q folds p (training_part : bool),
    wf st ->
    step dflt shape0 (if training_part then fold_training_shared shape0 fd q folds p st
                      else fold_validation_shared fd q folds p) st = Some st' ->
    let c := mkCV (contents shape0 st fd) folds in
    Some (contents shape0 st' q) = (if training_part then training c p else validation c p) /\
    h_shape (hnd shape0 st' q) = h_shape (hnd shape0 st fd) /\
    (forall id, holds shape0 st' q id -> holds shape0 st fd id) /\
    st_heap st' = st_heap st.
Proof. intros A Sh. exact (@fold_parts_shared A Sh). Qed.
Print Assumptions C03_fold_parts_are_pointers.

(* non-vacuity: copy, write through the copy (visible in the original), makeIndependent, write again (not visible) *)
Example C03_heap_example :
  let st := run 0 0 [OCreate 0 2 [10;11;12;13;14] 2; OCopy 0 1; OWrite 1 3 99; OMakeIndep 1; OWrite 1 0 77; OSplice 0 2 1]
                (init 0 3) in
  contents 0 st 0 = [[10;11]] /\ contents 0 st 1 = [[77;11];[12;99];[14]] /\ contents 0 st 2 = [[12;99];[14]] /\
  h_shape (hnd 0 st 2) = 2 /\ independent 0 st 1 = true /\ wf st.
Proof. cbv zeta. repeat split; try (vm_compute; reflexivity). apply C03_heap_wellformed_always. Qed.

(* the independence check refuses: splice of a container whose batches a copy still holds *)
Example C03_heap_refusal_example :
  let st := run 0 0 [OCreate 0 2 [10;11;12] 2; OCopy 0 1] (init 0 3) in
  step 0 0 (OSplice 0 2 1) st = None /\ independent 0 st 0 = false /\
  exists st', step 0 0 (OWrite 1 2 55) st = Some st' /\ contents 0 st' 0 = [[10;11];[55]].
Proof. cbv zeta. split; [vm_compute; reflexivity|]. split; [vm_compute; reflexivity|]. eexists. split; vm_compute; reflexivity. Qed.

(* ================= WeightedUnlabeledData / WeightedLabeledData (C03Weighted.v) =================
   A weighted container is a data container and a weight container driven in lock-step by detail::BaseWeightedDataset with
   the same arguments: [labeled D W] with inputs = data(), labels = weights().  Weight i stays attached to element i under
   every structural operation: the pairing theorems above (the C03_pairing theorems) with L := the weight type; collected here. *)
Theorem C03_weight_stays_with_its_element :
  forall D W (z : @data (D * W)),
    combine (elems (inputs (paired z))) (elems (labels (paired z))) = elems z /\
    (forall szs, lift2 (fun X => repartition szs) (paired z) = omap paired (repartition szs z)) /\
    (forall b k, lift2 (fun X => split_batch b k) (paired z) = omap paired (split_batch b k z)) /\
    (forall idx, lift2 (fun X => indexed_subset idx) (paired z) = omap paired (indexed_subset idx z)) /\
    (forall k, match splice k (inputs (paired z)), splice k (labels (paired z)) with
               | Some (a1, a2), Some (b1, b2) => Some (mkL a1 b1, mkL a2 b2) | _, _ => None end
               = omap (fun p => (paired (fst p), paired (snd p))) (splice k z)) /\
    (forall z2, mkL (append (inputs (paired z)) (inputs (paired z2))) (append (labels (paired z)) (labels (paired z2)))
                = paired (append z z2)) /\
    (forall dd dw idx, match reorder dd idx (inputs (paired z)), reorder dw idx (labels (paired z)) with
                       | Some a, Some b => Some (mkL a b) | _, _ => None end
                       = omap paired (reorder (dd, dw) idx z)).
Proof.
  intros D W z. split; [apply paired_elements|]. split; [intros; apply pairing_repartition|].
  split; [intros; apply pairing_split_batch|]. split; [intros; apply pairing_indexed_subset|].
  split; [intros; apply pairing_splice|]. split; [intros; apply pairing_append|]. intros; apply pairing_reorder.
Qed.
Print Assumptions C03_weight_stays_with_its_element.

(* BaseWeightedDataset(data, weight): same batch structure as the data, every weight is the given one *)
Theorem C03_uniform_weights :
  forall D W (d : @data D) (w : W),
    sizes (uniform_weights d w) = sizes d /\ elems (uniform_weights d w) = repeat w (nelems d).
Proof. intros D W. exact (@uniform_weights_spec D W). Qed.
Print Assumptions C03_uniform_weights.

Theorem C03_sum_of_weights :
  forall D (x : labeled D nat), sum_of_weights x = sum (elems (labels x)).
Proof. intros D. exact (@sum_of_weights_spec D). Qed.
Print Assumptions C03_sum_of_weights.

(* ... kept by repartition / splitBatch / shuffling, split by splice, added by append, selected by indexedSubset *)
Theorem C03_sum_of_weights_structural :
  forall D (x : labeled D nat),
  (forall szs w', repartition szs (labels x) = Some w' -> sum_of_weights (mkL (inputs x) w') = sum_of_weights x) /\
  (forall b k w', split_batch b k (labels x) = Some w' -> sum_of_weights (mkL (inputs x) w') = sum_of_weights x) /\
  (forall b l r, splice b (labels x) = Some (l, r) ->
     sum_of_weights (mkL (inputs x) l) + sum_of_weights (mkL (inputs x) r) = sum_of_weights x) /\
  (forall y : labeled D nat, sum_of_weights (mkL (append (inputs x) (inputs y)) (append (labels x) (labels y)))
                             = sum_of_weights x + sum_of_weights y) /\
  (forall idx w', reorder 0 idx (labels x) = Some w' -> Permutation idx (seq 0 (nelems (labels x))) ->
     sum_of_weights (mkL (inputs x) w') = sum_of_weights x) /\
  (forall idx w', indexed_subset idx (labels x) = Some w' ->
     sum_of_weights (mkL (inputs x) w') = sum (map (fun i => sum (nth i (labels x) [])) idx)).
Proof. intros D. exact (@sum_of_weights_structural D). Qed.
Print Assumptions C03_sum_of_weights_structural.

(* classWeight: one entry per class 0..max label, entry c = sum of the weights of the elements labelled c, total = all weights *)
Theorem C03_class_weight :
  forall ls ws, length ls = length ws -> ls <> [] ->
    length (class_weight ls ws) = S (fold_right Nat.max 0 ls) /\
    (forall c, nth c (class_weight ls ws) 0 = sum (map snd (filter (fun lw => fst lw =? c) (combine ls ws)))) /\
    sum (class_weight ls ws) = sum ws.
Proof. exact class_weight_spec. Qed.
Print Assumptions C03_class_weight.

(* bootstrap(dataset, size) for EVERY outcome of the draws (any list of positions below n): the data is the argument, the
   weights have its batch structure, weight i = number of draws of i, the weights sum to the number of draws;
   the order of the draws is irrelevant (the check hands the model a draw sequence with the observed counts) *)
Theorem C03_bootstrap_counts :
  forall D (d : @data D) draws, (forall i, In i draws -> i < nelems d) ->
    inputs (w_bootstrap d draws) = d /\
    sizes (labels (w_bootstrap d draws)) = sizes d /\
    elems (labels (w_bootstrap d draws)) = map (count_eq draws) (seq 0 (nelems d)) /\
    sum_of_weights (w_bootstrap d draws) = length draws.
Proof. intros D. exact (@w_bootstrap_spec D). Qed.
Print Assumptions C03_bootstrap_counts.

Theorem C03_bootstrap_order_irrelevant :
  forall D (d : @data D) draws draws', (forall i, In i draws -> i < nelems d) -> Permutation draws draws' ->
    labels (w_bootstrap d draws) = labels (w_bootstrap d draws').
Proof. intros D. exact (@bootstrap_order_irrelevant D). Qed.
Print Assumptions C03_bootstrap_order_irrelevant.

Example C03_weighted_example :
  labels (w_bootstrap [[10;11;12];[13;14]] [4;0;4;2;4]) = [[1;0;1];[0;3]] /\
  sum_of_weights (w_bootstrap [[10;11;12];[13;14]] [4;0;4;2;4]) = 5 /\
  class_weight [0;2;0;1] [3;5;7;9] = [10;9;5] /\ uniform_weights [[10;11;12];[13;14]] 7 = [[7;7;7];[7;7]].
Proof. vm_compute. repeat split; reflexivity. Qed.
