(* C03 — Dataset containers keep every element, its order and its input-label pairing.
   Statements only; proofs in C03Proofs.v, executable model in C03Model.v.

   Proved here for all datasets / arguments: batch-size arithmetic, every batch-structure operation
   (create, repartition, splitBatch, splice, append, reorderElements, indexedSubset, splitAtElement,
   transform) keeps the element sequence as documented, and the input/label pairing theorems.
   The element iterator (increment, decrement, advance by any signed offset: the loops of
   DataElementIterator::advance) dereferences exactly the element whose index it reports.
   repartitionByClass gathers by THE stable sort by class label: the gather index is the unique
   permutation of the positions that is sorted by (label, original position); the new label sequence is
   ascending, no batch mixes classes, batch sizes are in [1,max], both containers are re-batched
   identically (C03_repartition_by_class, C03_repartition_by_class_order,
   C03_class_order_is_the_stable_sort); the loops of the C++ function (prefix sums of the class counts,
   one scatter pass) compute that index (C03_class_order_loop).
   binarySubProblem on class-sorted batches (non-empty single-class batches, ascending labels: what
   repartitionByClass establishes) returns exactly the batches / elements of the two classes, in order,
   relabelled (label == oneClass), for either order of the two arguments; a missing class yields the
   error value (C03_binary_sub_problem, C03_binary_sub_problem_absent_class).
   DataView: the constructor's index triples address element p at position p and report index p;
   subset(view, idx) keeps soundness and reports the indexed elements' dataset indices; a subset of a
   subset is the subset by the composed index vector; toDataset(view, bs) holds the view's elements in
   view order in batches of at most bs (initializeBatches) (C03_view_of, C03_view_subset,
   C03_view_subset_compose, C03_to_dataset, C03_view_to_dataset_is_composition).
   NOT proved (tied to the code by the correspondence run only, see DESIGN.md#C03): the element shape
   (not part of the Coq model), the batch sharing / makeIndependent discipline, behaviour of
   binarySubProblem on batches that are NOT class-sorted (outside its documented precondition; the model
   still follows the code there and is compared).                                                      *)
From Coq Require Import List Arith Permutation Sorted.
From SharkV Require Import ListAux C03Model C03Proofs C03Iter C03Class C12Model C12Proofs
  C03ClassProofs C03BinaryProofs C03ViewProofs C03LoopProofs.
Import ListNotations.

Theorem C03_optimal_batch_sizes :
  forall n m l, opt_sizes n m = Some l ->
    sum l = n /\ (forall s, In s l -> 1 <= s <= m) /\
    (forall s t, In s l -> In t l -> s <= t + 1) /\ (n = 0 -> l = []).
Proof. exact opt_sizes_spec. Qed.
Print Assumptions C03_optimal_batch_sizes.

Theorem C03_batch_sizes_sum_to_element_count :
  forall A (d : @data A), sum (sizes d) = length (elems d).
Proof. intros A. exact (@sizes_sum_to_count A). Qed.
Print Assumptions C03_batch_sizes_sum_to_element_count.

Theorem C03_create :
  forall A (l : list A) m d, create l m = Some d ->
    elems d = l /\ sum (sizes d) = length l /\
    (forall s, In s (sizes d) -> 1 <= s <= (if m =? 0 then length l else m)).
Proof. intros A. exact (@create_spec A). Qed.
Print Assumptions C03_create.

Theorem C03_repartition :
  forall A szs (d d' : @data A), repartition szs d = Some d' -> elems d' = elems d /\ sizes d' = szs.
Proof. intros A. exact (@repartition_spec A). Qed.
Print Assumptions C03_repartition.

Theorem C03_split_batch :
  forall A b k (d d' : @data A), split_batch b k d = Some d' ->
    elems d' = elems d /\
    (((k = 0 \/ k = length (nth b d [])) /\ d' = d) \/
     sizes d' = firstn b (sizes d) ++ [k; length (nth b d []) - k] ++ skipn (S b) (sizes d)).
Proof. intros A. exact (@split_batch_spec A). Qed.
Print Assumptions C03_split_batch.

Theorem C03_splice :
  forall A b (d l r : @data A), splice b d = Some (l, r) ->
    l ++ r = d /\ elems l ++ elems r = elems d /\ length l = b.
Proof. intros A. exact (@splice_spec A). Qed.
Print Assumptions C03_splice.

Theorem C03_append :
  forall A (d1 d2 : @data A),
    elems (append d1 d2) = elems d1 ++ elems d2 /\ sizes (append d1 d2) = sizes d1 ++ sizes d2.
Proof. intros A. exact (@append_spec A). Qed.
Print Assumptions C03_append.

Theorem C03_reorder_is_gather :
  forall A dflt idx (d d' : @data A), reorder dflt idx d = Some d' ->
    elems d' = map (fun i => nth i (elems d) dflt) idx /\ sizes d' = sizes d.
Proof. intros A. exact (@reorder_spec A). Qed.
Print Assumptions C03_reorder_is_gather.

(* shuffle = reorderElements with a permutation: the multiset of elements is unchanged *)
Theorem C03_shuffle_keeps_multiset :
  forall A dflt idx (d d' : @data A), reorder dflt idx d = Some d' ->
    Permutation idx (seq 0 (nelems d)) -> Permutation (elems d') (elems d).
Proof. intros A. exact (@reorder_permutation A). Qed.
Print Assumptions C03_shuffle_keeps_multiset.

Theorem C03_indexed_subset :
  forall A idx (d d' : @data A), indexed_subset idx d = Some d' ->
    d' = map (fun i => nth i d []) idx /\ elems d' = flat_map (fun i => nth i d []) idx.
Proof. intros A. exact (@indexed_subset_spec A). Qed.
Print Assumptions C03_indexed_subset.

Theorem C03_split_at_element :
  forall A k (d l r : @data A), split_at_element k d = Some (l, r) ->
    elems l = firstn k (elems d) /\ elems r = skipn k (elems d).
Proof. intros A. exact (@split_at_element_spec A). Qed.
Print Assumptions C03_split_at_element.

Theorem C03_transform_keeps_structure :
  forall A B (f : A -> B) (d : @data A),
    elems (transform f d) = map f (elems d) /\ sizes (transform f d) = sizes d.
Proof. intros A B. exact (@transform_keeps_structure A B). Qed.
Print Assumptions C03_transform_keeps_structure.

(* inputs are never separated from their labels: a labelled dataset that is the pair of
   projections of one dataset of (input,label) pairs stays so under every operation applied to the
   two containers separately, and position i of the inputs always sits next to position i of the
   labels *)
Theorem C03_pairing_elements :
  forall I L (z : @data (I * L)),
    combine (elems (inputs (paired z))) (elems (labels (paired z))) = elems z.
Proof. intros I L. exact (@paired_elements I L). Qed.
Print Assumptions C03_pairing_elements.

Theorem C03_pairing_repartition :
  forall I L szs (z : @data (I * L)),
    lift2 (fun X => repartition szs) (paired z) = omap paired (repartition szs z).
Proof. intros I L. exact (@pairing_repartition I L). Qed.
Print Assumptions C03_pairing_repartition.

Theorem C03_pairing_split_batch :
  forall I L b k (z : @data (I * L)),
    lift2 (fun X => split_batch b k) (paired z) = omap paired (split_batch b k z).
Proof. intros I L. exact (@pairing_split_batch I L). Qed.
Print Assumptions C03_pairing_split_batch.

Theorem C03_pairing_reorder :
  forall I L di dl idx (z : @data (I * L)),
    match reorder di idx (inputs (paired z)), reorder dl idx (labels (paired z)) with
    | Some a, Some b => Some (mkL a b) | _, _ => None end
    = omap paired (reorder (di, dl) idx z).
Proof. intros I L. exact (@pairing_reorder I L). Qed.
Print Assumptions C03_pairing_reorder.

Theorem C03_pairing_indexed_subset :
  forall I L idx (z : @data (I * L)),
    lift2 (fun X => indexed_subset idx) (paired z) = omap paired (indexed_subset idx z).
Proof. intros I L. exact (@pairing_indexed_subset I L). Qed.
Print Assumptions C03_pairing_indexed_subset.

Theorem C03_pairing_splice_and_split :
  forall I L k (z : @data (I * L)),
    (match splice k (inputs (paired z)), splice k (labels (paired z)) with
     | Some (a1, a2), Some (b1, b2) => Some (mkL a1 b1, mkL a2 b2) | _, _ => None end
     = omap (fun p => (paired (fst p), paired (snd p))) (splice k z)) /\
    (match split_at_element k (inputs (paired z)), split_at_element k (labels (paired z)) with
     | Some (a1, a2), Some (b1, b2) => Some (mkL a1 b1, mkL a2 b2) | _, _ => None end
     = omap (fun p => (paired (fst p), paired (snd p))) (split_at_element k z)).
Proof. intros I L k z. split; [exact (@pairing_splice I L k z)|exact (@pairing_split_at_element I L k z)]. Qed.
Print Assumptions C03_pairing_splice_and_split.

(* indexedSubset(indices, subset, complement): subset and complement together are exactly the
   batches of the dataset (as index sets: a permutation of 0..n-1), for distinct indices in ANY order *)
Theorem C03_subset_and_complement :
  forall idx n, NoDup idx -> (forall i, In i idx -> i < n) ->
    Permutation (idx ++ complement idx n) (seq 0 n).
Proof. exact complement_perm. Qed.
Print Assumptions C03_subset_and_complement.

(* element access by iterator (either direction, any jump) agrees with access by index; [it_ok d it p]
   says: the iterator points into batch b at element e, reports index p, and p is the position of
   that element in the batch sequence *)
Theorem C03_iterator_dereferences_indexed_element :
  forall A (d : @data A) it p, it_ok d it p -> it_deref d it = element p d.
Proof. intros A d it p H. rewrite element_spec. exact (deref_ok d it p H). Qed.
Print Assumptions C03_iterator_dereferences_indexed_element.

Theorem C03_iterator_steps :
  forall A (d : @data A), (forall b, b < length d -> 0 < length (nth b d [])) ->
  forall it p, it_ok d it p ->
    (S p < nelems d -> it_ok d (it_incr d it) (S p) /\ it_decr d (it_incr d it) = it) /\
    (forall q, p = S q -> it_ok d (it_decr d it) q) /\
    (forall n, p + n < nelems d -> it_ok d (it_advance d it false n) (p + n)) /\
    (forall n, n <= p -> it_ok d (it_advance d it true n) (p - n)).
Proof.
  intros A d NE it p H. split; [|split; [|split]].
  - intros Hn. split; [apply incr_ok; auto|eapply incr_decr_identity; eauto].
  - intros q ->. apply decr_ok; auto.
  - intros n Hn. apply advance_forward_ok; auto.
  - intros n Hn. apply advance_backward_ok; auto.
Qed.
Print Assumptions C03_iterator_steps.

Theorem C03_repartition_by_class :
  forall I (dI : I) m (d d' : labeled I nat),
    repartition_by_class dI m d = Some d' -> nelems (inputs d) = nelems (labels d) ->
    let idx := class_order (elems (labels d)) in
    elems (inputs d') = map (fun i => nth i (elems (inputs d)) dI) idx /\
    elems (labels d') = map (fun i => nth i (elems (labels d)) 0) idx /\
    Permutation (elems (inputs d')) (elems (inputs d)) /\
    Permutation (elems (labels d')) (elems (labels d)) /\
    sizes (inputs d') = sizes (labels d').
Proof. intros I. exact (@repartition_by_class_spec I). Qed.
Print Assumptions C03_repartition_by_class.

(* repartitionByClass orders class by class, ascending label, stable inside a class.
   [lex_order g i j] := g i < g j \/ (g i = g j /\ i < j);  [label_at ls i] := nth i ls 0;
   [class_batched lb] := every batch of lb is non-empty and holds one label only, and the label
   sequence elems lb is ascending (StronglySorted le).  Together with C03_repartition_by_class
   (new elements = old elements read through class_order, which is a permutation of all positions). *)
Theorem C03_repartition_by_class_order :
  forall I (dI : I) m (d d' : labeled I nat),
    repartition_by_class dI m d = Some d' ->
    let ls := elems (labels d) in
    StronglySorted (lex_order (label_at ls)) (class_order ls) /\
    class_batched (labels d') /\
    (forall s, In s (sizes (labels d')) -> 1 <= s <= m) /\
    sizes (inputs d') = sizes (labels d').
Proof. intros I. exact (@repartition_by_class_order I). Qed.
Print Assumptions C03_repartition_by_class_order.

(* ... and that pins the order down completely: it is the stable sort *)
Theorem C03_class_order_is_the_stable_sort :
  forall ls idx, Permutation idx (seq 0 (length ls)) ->
    StronglySorted (lex_order (label_at ls)) idx -> idx = class_order ls.
Proof. exact class_order_unique. Qed.
Print Assumptions C03_class_order_is_the_stable_sort.

(* the loops of the C++ function: classIndex = prefix sums of the class counts; for every element in
   order: elemIndex[classIndex[label]] = running position; ++classIndex[label].  The correspondence run
   executes this loop model (repartition_by_class_loop) against the real code. *)
Theorem C03_class_order_loop :
  forall ls, class_order_loop ls = class_order ls.
Proof. exact class_order_loop_correct. Qed.
Print Assumptions C03_class_order_loop.

Theorem C03_repartition_by_class_loop :
  forall I (dI : I) m d, repartition_by_class_loop dI m d = repartition_by_class dI m d.
Proof. intros I. exact (@repartition_by_class_loop_correct I). Qed.
Print Assumptions C03_repartition_by_class_loop.

(* binarySubProblem under its documented precondition.  [keep_label zero one l] := l = zero or l = one;
   [keep_batch zero one b] := keep_label of the label of the first element of b;
   [binary_relabel one l] := if l = one then 1 else 0 *)
Theorem C03_binary_sub_problem :
  forall I (z : @data (I * nat)) zero one,
    class_batched (labels (paired z)) -> zero <> one ->
    In zero (elems (labels (paired z))) -> In one (elems (labels (paired z))) ->
    exists z',
      binary_sub_problem zero one (paired z) =
        Some (mkL (transform fst z') (transform (fun p => binary_relabel one (snd p)) z')) /\
      z' = filter (keep_batch zero one) z /\
      elems z' = filter (fun p => keep_label zero one (snd p)) (elems z).
Proof. intros I. exact (@binary_sub_problem_spec I). Qed.
Print Assumptions C03_binary_sub_problem.

Theorem C03_binary_sub_problem_absent_class :
  forall I (d : labeled I nat) zero one,
    ~ In zero (elems (labels d)) \/ ~ In one (elems (labels d)) -> binary_sub_problem zero one d = None.
Proof. intros I. exact (@binary_sub_problem_absent I). Qed.
Print Assumptions C03_binary_sub_problem_absent_class.

(* every labelled dataset whose two containers are batched identically is a dataset of pairs, so the
   result of repartitionByClass satisfies the hypotheses of C03_binary_sub_problem *)
Theorem C03_identically_batched_is_paired :
  forall I L (d : labeled I L), sizes (inputs d) = sizes (labels d) -> exists z, d = paired z.
Proof. intros I L. exact (@paired_exists I L). Qed.
Print Assumptions C03_identically_batched_is_paired.

(* DataView.  [view_wf d v]: every entry e of v addresses (batch, position in batch) the element whose
   dataset index it reports: view_get d e = nth_error (elems d) (index e), index e < nelems d *)
Theorem C03_view_of :
  forall A (d : @data A),
    map (view_get d) (view_of d) = map Some (elems d) /\
    map vi_dataset_index (view_of d) = seq 0 (nelems d) /\
    view_wf d (view_of d).
Proof. intros A d. destruct (view_of_spec d). repeat split; auto. apply view_of_wf. Qed.
Print Assumptions C03_view_of.

Theorem C03_view_subset :
  forall A (d : @data A) v idx v', view_wf d v -> view_subset v idx = Some v' ->
    view_wf d v' /\ length v' = length idx /\
    map vi_dataset_index v' = map (fun i => vi_dataset_index (nth i v (0, 0, 0))) idx.
Proof. intros A. exact (@view_subset_spec A). Qed.
Print Assumptions C03_view_subset.

Theorem C03_view_subset_compose :
  forall v i1 i2 v1 v2, view_subset v i1 = Some v1 -> view_subset v1 i2 = Some v2 ->
    view_subset v (map (fun j => nth j i1 0) i2) = Some v2.
Proof. exact view_subset_compose. Qed.
Print Assumptions C03_view_subset_compose.

Theorem C03_to_dataset :
  forall A (dflt : A) (d : @data A) v bs, view_wf d v ->
    exists d', to_dataset d v bs = Some d' /\
      elems d' = map (fun e => nth (vi_dataset_index e) (elems d) dflt) v /\
      sum (sizes d') = length v /\
      (v <> [] -> sizes d' = init_sizes (length v) bs) /\
      (forall s, In s (sizes d') -> 1 <= s /\ (0 < bs -> s <= bs)).
Proof. intros A. exact (@to_dataset_spec A). Qed.
Print Assumptions C03_to_dataset.

Theorem C03_view_to_dataset_is_composition :
  forall A (dflt : A) idx bs (d : @data A),
    view_to_dataset dflt idx bs d =
    match view_subset (view_of d) idx with Some v => to_dataset d v bs | None => None end.
Proof. intros A. exact (@view_to_dataset_is_composition A). Qed.
Print Assumptions C03_view_to_dataset_is_composition.

(* non-vacuity *)
Example C03_example :
  exists d l r, create [1;2;3;4;5;6;7] 3 = Some d /\ sizes d = [3;2;2] /\
                split_at_element 4 d = Some (l, r) /\ elems l = [1;2;3;4] /\ sizes r = [1;2].
Proof. eexists. eexists. eexists. vm_compute. repeat split; reflexivity. Qed.

(* the hypotheses of the class-order / binarySubProblem / view theorems are satisfiable *)
Example C03_class_example :
  exists z, repartition_by_class 0 2 (paired [[(10,2);(11,0);(12,1)];[(13,0);(14,2)]]) = Some (paired z) /\
            z = [[(11,0);(13,0)];[(12,1)];[(10,2);(14,2)]] /\
            class_batched (labels (paired z)) /\ 0 <> 2 /\
            In 2 (elems (labels (paired z))) /\ In 0 (elems (labels (paired z))) /\
            binary_sub_problem 2 0 (paired z) = Some (paired [[(11,1);(13,1)];[(10,0);(14,0)]]).
Proof.
  exists [[(11,0);(13,0)];[(12,1)];[(10,2);(14,2)]].
  assert (H : repartition_by_class 0 2 (paired [[(10,2);(11,0);(12,1)];[(13,0);(14,2)]])
              = Some (paired [[(11,0);(13,0)];[(12,1)];[(10,2);(14,2)]])) by (vm_compute; reflexivity).
  split; [exact H|]. split; [reflexivity|].
  split; [exact (proj1 (proj2 (C03_repartition_by_class_order _ _ _ _ _ H)))|].
  split; [discriminate|]. vm_compute. intuition.
Qed.

Example C03_view_example :
  exists v1 v2 d', view_subset (view_of [[10;11;12];[13;14]]) [4;0;0;2] = Some v1 /\ view_subset v1 [3;1;0] = Some v2 /\
    view_wf [[10;11;12];[13;14]] v2 /\ to_dataset [[10;11;12];[13;14]] v2 2 = Some d' /\ d' = [[12;10];[14]].
Proof.
  set (d := [[10;11;12];[13;14]]).
  pose (v1 := map (fun i => nth i (view_of d) (0, 0, 0)) [4;0;0;2]).
  assert (E1 : view_subset (view_of d) [4;0;0;2] = Some v1) by (vm_compute; reflexivity).
  pose (v2 := map (fun i => nth i v1 (0, 0, 0)) [3;1;0]).
  assert (E2 : view_subset v1 [3;1;0] = Some v2) by (vm_compute; reflexivity).
  exists v1, v2, [[12;10];[14]]. split; [exact E1|]. split; [exact E2|]. split.
  - exact (proj1 (C03_view_subset _ d v1 _ v2 (proj1 (C03_view_subset _ d _ _ v1 (view_of_wf d) E1)) E2)).
  - split; vm_compute; reflexivity.
Qed.
