(* C16 — proofs about the shared analytic sub-solvers over exact rationals:
   solveQuadratic2DTriangle (feasibility for all inputs, snapping included; gain >= 0 where it
   holds; a machine-checked counterexample where it does not), optimality of solveQuadraticEdge on
   its interval, and the QpSparseArray scan/lookup agreement.  The step invariants of the
   multi-class solvers are in C16ProofsMc.v. *)
From Coq Require Import QArith Qminmax Qabs Lqa Arith Bool List Lia.
From SharkV Require Import C08Model C08Defs C08ProofsBox C16Model.
Import ListNotations. Open Scope Q_scope.

Definition qmone : Q := -(1).                         (* initial maxGain of the solver before /repo ab716aec *)
Definition qlowest : Q := - inject_Z (2 ^ 1024).       (* -DBL_MAX (a bound below it) *)
Definition qtiny : Q := 1 # 100000000000000.

Lemma qtiny_pos : 0 < qtiny. Proof. reflexivity. Qed.

(* ------------------------------------------------------------ feasibility *)
Definition intri (M : Q) (c : Q * Q) : Prop := 0 <= fst c /\ 0 <= snd c /\ fst c + snd c <= M.

Lemma tri_edges_in : forall ai aj gi gj Qii Qij Qjj M, 0 <= M ->
  forall c, In c (tri_edges qops ai aj gi gj Qii Qij Qjj M) -> intri M c.
Proof.
  intros ai aj gi gj Qii Qij Qjj M HM c HC. unfold tri_edges in HC.
  cbn [In o_zero o_add o_sub o_mul o_two qops] in HC.
  destruct HC as [E|[E|[E|[]]]]; subst c; unfold intri; cbn [fst snd];
    match goal with |- context [solve_edge qops ?a ?g ?Q 0 M] =>
      destruct (solve_edge_in_box a g Q 0 M HM) as [X1 X2]; repeat split; lra
    end.
Qed.

Lemma tri_feasible_true : forall ai aj M,
  tri_feasible qops ai aj M = true <-> intri M (ai, aj).
Proof.
  intros. unfold tri_feasible, intri. cbn [o_ltb o_zero o_add qops fst snd].
  rewrite !andb_true_iff, !negb_true_iff, !qltb_false. tauto.
Qed.

(* the start value of maxGain *)
Definition tri_mg (ai aj M : Q) : Q := if tri_feasible qops ai aj M then 0 else qlowest.

(* The repaired solver keeps the current point when no candidate beats maxGain.  For a feasible start
   that point is in the triangle; for an infeasible start maxGain = -DBL_MAX, and the point is only
   left if some candidate has a gain above that (always the case for finite doubles; in exact
   arithmetic it is a hypothesis). *)
Definition tri_start_ok (ai aj gi gj Qii Qij Qjj M : Q) : Prop :=
  intri M (ai, aj) \/
  exists c, In c (tri_edges qops ai aj gi gj Qii Qij Qjj M) /\ qlowest < G2 ai aj gi gj Qii Qij Qjj c.

Lemma tri_best_in : forall ai aj gi gj Qii Qij Qjj M, 0 <= M ->
  tri_start_ok ai aj gi gj Qii Qij Qjj M ->
  intri M (tri_best qops qlowest ai aj gi gj Qii Qij Qjj M).
Proof.
  intros ai aj gi gj Qii Qij Qjj M HM OK. unfold tri_best.
  pose proof (tri_edges_in ai aj gi gj Qii Qij Qjj M HM) as HB.
  set (es := tri_edges qops ai aj gi gj Qii Qij Qjj M) in *.
  cbn [o_zero qops]. fold (tri_mg ai aj M).
  pose proof (best_edge_char ai aj gi gj Qii Qij Qjj es (tri_mg ai aj M) (ai, aj)) as H.
  cbv zeta in H. destruct H as [(I & _ & _)|(E & A)]; [apply HB; exact I|].
  rewrite E. unfold tri_mg in A.
  destruct (tri_feasible qops ai aj M) eqn:F.
  - apply tri_feasible_true; exact F.
  - destruct OK as [OK|(c & Ic & Lc)].
    + apply tri_feasible_true in OK. congruence.
    + specialize (A c Ic). exfalso. lra.
Qed.

Lemma tri_snap_in : forall M c, 0 <= M -> intri M c -> intri M (tri_snap qops M c).
Proof.
  intros M [x y] HM (H1 & H2 & H3). cbn [fst snd] in *.
  unfold tri_snap, intri. cbn [o_ltb o_thr o_mul o_sub o_zero qops fst snd].
  set (eps := qthr * M).
  qcase x eps; cbn [fst snd].
  - qcase y eps; cbn [fst snd]; [repeat split; lra|].
    qcase (M - y) eps; cbn [fst snd]; repeat split; lra.
  - qcase (M - x) eps; cbn [fst snd].
    + qcase 0 eps; cbn [fst snd]; [repeat split; lra|].
      qcase (M - 0) eps; cbn [fst snd]; repeat split; lra.
    + qcase y eps; cbn [fst snd]; [repeat split; lra|].
      qcase (M - y) eps; cbn [fst snd]; repeat split; lra.
Qed.

(* result of solveQuadratic2DTriangle lies in the triangle: for every feasible start and all other
   inputs whatsoever (gradient, matrix - also indefinite), and for every infeasible start that is
   left at all (see tri_start_ok) *)
Theorem solve_tri_in_triangle : forall ai aj gi gj Qii Qij Qjj M, 0 <= M ->
  tri_start_ok ai aj gi gj Qii Qij Qjj M ->
  intri M (solve_tri qops qlowest ai aj gi gj Qii Qij Qjj M).
Proof.
  intros ai aj gi gj Qii Qij Qjj M HM OK. unfold solve_tri, tri_free. cbn [fst snd].
  match goal with |- context [if ?b then _ else _] => destruct b eqn:B end.
  - cbn [o_ltb o_thr o_zero o_add o_sub o_mul o_div qops] in B.
    repeat match goal with X : _ && _ = true |- _ =>
      apply andb_true_iff in X; let X' := fresh "B" in destruct X as [X X'] end.
    repeat match goal with X : qltb _ _ = true |- _ => apply qltb_true in X end.
    unfold intri. cbn [fst snd o_add o_sub o_mul o_div qops]. repeat split; lra.
  - apply tri_snap_in; [exact HM|]. apply tri_best_in; assumption.
Qed.

Corollary solve_tri_in_triangle_feasible : forall ai aj gi gj Qii Qij Qjj M,
  0 <= ai -> 0 <= aj -> ai + aj <= M ->
  intri M (solve_tri qops qlowest ai aj gi gj Qii Qij Qjj M).
Proof.
  intros. apply solve_tri_in_triangle; [lra|]. left. unfold intri. cbn [fst snd]. repeat split; assumption.
Qed.

(* an infeasible start whose candidates all have gains <= -DBL_MAX is NOT moved: the literal model
   returns the infeasible point (cannot happen with finite doubles) *)
Example tri_infeasible_start_kept :
  solve_tri qops qlowest (-(1)) 0 (- inject_Z (2 ^ 1030)) 0 0 0 0 1 = (0, 0) /\
  tri_best qops qlowest (-(1)) 0 (- inject_Z (2 ^ 1030)) 0 0 0 0 1 = (-(1), 0).
Proof. split; vm_compute; reflexivity. Qed.

(* ------------------------------------------------------------ 1-D optimality *)
Lemma prod_nn : forall x y : Q, (0 <= x /\ 0 <= y) \/ (x <= 0 /\ y <= 0) -> 0 <= x * y.
Proof.
  intros x y [[H1 H2]|[H1 H2]]; [apply Qmult_le_0_compat; assumption|].
  assert (E : x * y == (- x) * (- y)) by ring. rewrite E. apply Qmult_le_0_compat; lra.
Qed.

(* solveQuadraticEdge (degenerate test `Q <= 0` since the repair of /repo) returns a maximiser of
   g t - Q/2 t^2 over the whole interval for every curvature Q >= 0; the start point a need not be
   feasible (the multi-class solvers call it with L = 0 and a possibly clipped start) *)
Lemma edge_optimal_any_start : forall a g Q L U, L <= U -> 0 <= Q ->
  forall b, L <= b -> b <= U ->
  gain1 g Q (b - a) <= gain1 g Q (solve_edge qops a g Q L U - a).
Proof.
  intros a g Q L U LU HQ b Lb bU.
  unfold solve_edge, maxA, minA. cbn [o_ltb o_thr o_zero o_add o_div qops].
  qcase 0 Q; cbn [negb].
  - assert (Qp : 0 < Q) by lra.
    assert (Hs : g == (g / Q) * Q) by (field; lra).
    set (s := g / Q) in *.
    rewrite (gain1_g_compat _ _ _ _ Hs). rewrite (gain1_g_compat g _ _ _ Hs).
    match goal with |- gain1 _ _ _ <= gain1 _ _ (?rr - a) => set (r := rr) end.
    assert (K : 0 <= ((r - a) - (b - a)) * (s - ((b - a) + (r - a)) * (1#2))).
    { unfold r. qcase (a + s) L.
      - qcase U L; [exfalso; lra|]. apply prod_nn. right. split; lra.
      - qcase U (a + s).
        + apply prod_nn. left. split; lra.
        + apply prod_nn. destruct (Qlt_le_dec (b - a) s); [left|right]; split; lra. }
    assert (K2 : 0 <= Q * (((r - a) - (b - a)) * (s - ((b - a) + (r - a)) * (1#2))))
      by (apply Qmult_le_0_compat; lra).
    unfold gain1.
    assert (EE : (r - a) * (s * Q) - (1 # 2) * Q * (r - a) * (r - a)
                - ((b - a) * (s * Q) - (1 # 2) * Q * (b - a) * (b - a))
                == Q * (((r - a) - (b - a)) * (s - ((b - a) + (r - a)) * (1#2)))) by ring.
    lra.
  - assert (Q0 : Q == 0) by lra.
    unfold gain1. rewrite Q0.
    qcase 0 g.
    + assert (0 <= (U - b) * g) by (apply Qmult_le_0_compat; lra). lra.
    + assert (0 <= (b - L) * (- g)) by (apply Qmult_le_0_compat; lra). lra.
Qed.

(* ------------------------------------------------------------ gain of the triangle step *)
Section TriGain.
Variables ai aj gi gj Qii Qij Qjj M : Q.
Let G := G2 ai aj gi gj Qii Qij Qjj.
Let es := tri_edges qops ai aj gi gj Qii Qij Qjj M.
Let D := Qii + Qjj - 2 * Qij.

(* a point on the boundary of the triangle *)
Definition onb (y : Q * Q) : Prop :=
  (fst y == 0 /\ 0 <= snd y /\ snd y <= M) \/
  (snd y == 0 /\ 0 <= fst y /\ fst y <= M) \/
  (fst y + snd y == M /\ 0 <= snd y /\ snd y <= M).

Lemma G_compat : forall x y x' y', x == x' -> y == y' -> G (x, y) == G (x', y').
Proof.
  intros. unfold G, G2. cbn [fst snd]. apply gain2_compat; [rewrite H|rewrite H0]; reflexivity.
Qed.

Lemma G_current : G (ai, aj) == 0.
Proof. unfold G, G2. cbn [fst snd]. rewrite gain2_q. ring. Qed.

Hypothesis HM : 0 <= M.
Hypothesis Hjj : 0 <= Qjj.
Hypothesis Hii : 0 <= Qii.
Hypothesis HD : 0 <= D.

(* every boundary point is dominated by the candidate of its edge *)
Lemma tri_candidates_dominate_boundary : forall y, onb y -> exists c, In c es /\ G y <= G c.
Proof.
  intros [x y] [(E & L & U)|[(E & L & U)|(E & L & U)]]; cbn [fst snd] in *.
  - set (e0 := solve_edge qops aj (gj + Qij * ai) Qjj 0 M).
    exists (0, e0). split; [left; reflexivity|].
    rewrite (G_compat x y 0 y E (Qeq_refl _)).
    pose proof (edge_optimal_any_start aj (gj + Qij * ai) Qjj 0 M HM Hjj y L U) as OP. fold e0 in OP.
    assert (X : G (0, y) - G (0, e0) ==
                gain1 (gj + Qij * ai) Qjj (y - aj) - gain1 (gj + Qij * ai) Qjj (e0 - aj)).
    { unfold G, G2. cbn [fst snd]. rewrite !gain2_q. unfold gain1. ring. }
    lra.
  - set (e1 := solve_edge qops ai (gi + Qij * aj) Qii 0 M).
    exists (e1, 0). split; [right; left; reflexivity|].
    rewrite (G_compat x y x 0 (Qeq_refl _) E).
    pose proof (edge_optimal_any_start ai (gi + Qij * aj) Qii 0 M HM Hii x L U) as OP. fold e1 in OP.
    assert (X : G (x, 0) - G (e1, 0) ==
                gain1 (gi + Qij * aj) Qii (x - ai) - gain1 (gi + Qij * aj) Qii (e1 - ai)).
    { unfold G, G2. cbn [fst snd]. rewrite !gain2_q. unfold gain1. ring. }
    lra.
  - set (ggi := gi - (M - ai) * Qii + aj * Qij).
    set (ggj := gj - (M - ai) * Qij + aj * Qjj).
    set (e2 := solve_edge qops 0 (ggj - ggi) (Qii + Qjj - 2 * Qij) 0 M).
    exists (M - e2, e2). split; [right; right; left; reflexivity|].
    assert (Ex : x == M - y) by lra.
    rewrite (G_compat x y (M - y) y Ex (Qeq_refl _)).
    pose proof (edge_optimal_any_start 0 (ggj - ggi) (Qii + Qjj - 2 * Qij) 0 M HM HD y L U) as OP.
    fold e2 in OP.
    assert (X : G (M - y, y) - G (M - e2, e2) ==
                gain1 (ggj - ggi) (Qii + Qjj - 2 * Qij) (y - 0)
                - gain1 (ggj - ggi) (Qii + Qjj - 2 * Qij) (e2 - 0)).
    { unfold G, G2, ggi, ggj. cbn [fst snd]. rewrite !gain2_q. unfold gain1. ring. }
    lra.
Qed.

(* for(k) if(gain > maxGain) with maxGain = feasible ? 0 : -DBL_MAX, best = current point *)
Lemma tri_best_char :
  let r := tri_best qops qlowest ai aj gi gj Qii Qij Qjj M in
  (In r es /\ tri_mg ai aj M < G r /\ forall c, In c es -> G c <= G r) \/
  (r = (ai, aj) /\ forall c, In c es -> G c <= tri_mg ai aj M).
Proof.
  cbv zeta. unfold tri_best. fold es. cbn [o_zero qops]. fold (tri_mg ai aj M).
  pose proof (best_edge_char ai aj gi gj Qii Qij Qjj es (tri_mg ai aj M) (ai, aj)) as H.
  cbv zeta in H. exact H.
Qed.

(* feasible start: the point chosen in the edge branch is at least as good as EVERY boundary point
   of the triangle and as the current point *)
Lemma tri_best_ge_boundary : intri M (ai, aj) ->
  let r := tri_best qops qlowest ai aj gi gj Qii Qij Qjj M in
  0 <= G r /\ forall y, onb y -> G y <= G r.
Proof.
  intros F r.
  assert (MG : tri_mg ai aj M = 0).
  { unfold tri_mg. apply tri_feasible_true in F. rewrite F. reflexivity. }
  pose proof G_current as Z.
  destruct tri_best_char as [(I & P & A)|(E & A)]; fold r in I, P, A || fold r in E, A; rewrite MG in *.
  - split; [lra|]. intros y Hy.
    destruct (tri_candidates_dominate_boundary y Hy) as (c & Ic & Lc). specialize (A c Ic). lra.
  - rewrite E. split; [lra|]. intros y Hy.
    destruct (tri_candidates_dominate_boundary y Hy) as (c & Ic & Lc). specialize (A c Ic). lra.
Qed.

End TriGain.

(* free2d-like condition of the triangle solver (relative determinant test since ab716aec) *)
Definition tri_is_free (ai aj gi gj Qii Qij Qjj M : Q) : Prop :=
  fst (tri_free qops ai aj gi gj Qii Qij Qjj M) = true.

(* the point chosen by solveQuadratic2DTriangle before the snapping *)
Definition tri_unsnapped (ai aj gi gj Qii Qij Qjj M : Q) : Q * Q :=
  let f := tri_free qops ai aj gi gj Qii Qij Qjj M in
  if fst f then snd f else tri_best qops qlowest ai aj gi gj Qii Qij Qjj M.

Lemma solve_tri_unsnapped : forall ai aj gi gj Qii Qij Qjj M,
  solve_tri qops qlowest ai aj gi gj Qii Qij Qjj M =
  if fst (tri_free qops ai aj gi gj Qii Qij Qjj M) then tri_unsnapped ai aj gi gj Qii Qij Qjj M
  else tri_snap qops M (tri_unsnapped ai aj gi gj Qii Qij Qjj M).
Proof.
  intros. unfold solve_tri, tri_unsnapped.
  destruct (fst (tri_free qops ai aj gi gj Qii Qij Qjj M)); reflexivity.
Qed.

(* FULL statement (holds for the repaired code, /repo ab716aec): for every current point of the
   triangle, every gradient and every 2x2 block with non-negative diagonal (in particular every
   positive semi-definite block; NO condition on the determinant or on Qij) the point chosen by
   solveQuadratic2DTriangle before its final snapping does not decrease the objective.  Before the
   repair this was FALSE (old_tri_gain_refuted).  The snapping afterwards moves each coordinate by at
   most 1e-12*maxSum (tri_snap_close); it can change the objective by that order and is not covered. *)
Theorem tri_gain_nonneg : forall ai aj gi gj Qii Qij Qjj M,
  0 <= ai -> 0 <= aj -> ai + aj <= M -> 0 <= Qii -> 0 <= Qjj ->
  0 <= G2 ai aj gi gj Qii Qij Qjj (tri_unsnapped ai aj gi gj Qii Qij Qjj M).
Proof.
  intros ai aj gi gj Qii Qij Qjj M Hi Hj HS HQi HQj. pose proof qthr_pos as TP.
  unfold tri_unsnapped.
  destruct (fst (tri_free qops ai aj gi gj Qii Qij Qjj M)) eqn:F.
  - unfold tri_free in *. cbn [fst snd] in *.
    cbn [o_ltb o_thr o_zero o_add o_sub o_mul o_div qops] in *.
    apply andb_true_iff in F. destruct F as [F1 _]. apply qltb_true in F1.
    assert (Dp : 0 < Qii * Qjj - Qij * Qij).
    { assert (0 <= qthr * Qii * Qjj).
      { rewrite <- Qmult_assoc. apply Qmult_le_0_compat; [lra|]. apply Qmult_le_0_compat; assumption. }
      lra. }
    pose proof (free_gain_nonneg_pos gi gj Qii Qij Qjj HQi) as P. cbv zeta in P. specialize (P Dp).
    unfold G2. cbn [fst snd].
    rewrite (gain2_compat gi gj Qii Qij Qjj _ ((Qjj * gi - Qij * gj) / (Qii * Qjj - Qij * Qij))
                          _ ((Qii * gj - Qij * gi) / (Qii * Qjj - Qij * Qij))); [exact P| |]; ring.
  - assert (FE : tri_mg ai aj M = 0).
    { unfold tri_mg. rewrite (proj2 (tri_feasible_true ai aj M)); [reflexivity|].
      unfold intri. cbn [fst snd]. repeat split; assumption. }
    pose proof (tri_best_char ai aj gi gj Qii Qij Qjj M) as H. cbv zeta in H. rewrite FE in H.
    destruct H as [(_ & P & _)|(E & _)]; [lra|].
    rewrite E. pose proof (G_current ai aj gi gj Qii Qij Qjj) as Z. lra.
Qed.

(* in the edge branch the chosen point is moreover at least as good as every point of the boundary
   of the triangle, when the three edge curvatures are non-negative (positive semi-definite block) *)
Theorem tri_edges_best : forall ai aj gi gj Qii Qij Qjj M,
  0 <= ai -> 0 <= aj -> ai + aj <= M -> 0 <= Qii -> 0 <= Qjj -> 0 <= Qii + Qjj - 2 * Qij ->
  ~ tri_is_free ai aj gi gj Qii Qij Qjj M ->
  forall y, onb M y ->
  G2 ai aj gi gj Qii Qij Qjj y <= G2 ai aj gi gj Qii Qij Qjj (tri_unsnapped ai aj gi gj Qii Qij Qjj M).
Proof.
  intros ai aj gi gj Qii Qij Qjj M Hi Hj HS HQi HQj HD NF y Hy.
  unfold tri_unsnapped. unfold tri_is_free in NF.
  destruct (fst (tri_free qops ai aj gi gj Qii Qij Qjj M)); [exfalso; apply NF; reflexivity|].
  assert (HM : 0 <= M) by lra.
  assert (F : intri M (ai, aj)) by (unfold intri; cbn [fst snd]; repeat split; assumption).
  pose proof (tri_best_ge_boundary ai aj gi gj Qii Qij Qjj M HM HQj HQi HD F) as H. cbv zeta in H.
  destruct H as [_ H]. apply H. exact Hy.
Qed.

(* the hypotheses are satisfiable, in both branches *)
Example tri_free_sat : tri_is_free (1#1) (1#1) 1 1 1 0 1 10 /\ 0 <= 1.
Proof. split; vm_compute; [reflexivity|discriminate]. Qed.
Example tri_edge_sat : ~ tri_is_free 0 1 1 1 1 0 1 (3#2) /\ onb (3#2) (0, 1).
Proof.
  split; [vm_compute; discriminate|].
  left; cbn [fst snd]; repeat split; try reflexivity; vm_compute; discriminate.
Qed.

(* ---- regression for the defect repaired by /repo ab716aec ---- *)
(* the triangle solver as it was: absolute determinant test, maxGain = -1, best = solution[0] *)
Definition old_tri_free (ai aj gi gj Qii Qij Qjj M : Q) : bool * (Q * Q) :=
  let det := Qii * Qjj - Qij * Qij in
  let oi := ai + (Qjj * gi - Qij * gj) / det in
  let oj := aj + (Qii * gj - Qij * gi) / det in
  (qltb qthr det && (qltb 0 oi && qltb 0 oj && qltb (oi + oj) M), (oi, oj)).
Definition old_solve_tri (ai aj gi gj Qii Qij Qjj M : Q) : Q * Q :=
  let f := old_tri_free ai aj gi gj Qii Qij Qjj M in
  if fst f then snd f
  else let es := tri_edges qops ai aj gi gj Qii Qij Qjj M in
       tri_snap qops M (best_edge qops ai aj gi gj Qii Qij Qjj es qmone (hd (ai, aj) es)).

(* Q positive definite with determinant exactly 1e-12, current point (1,1) strictly inside the
   triangle with maxSum = 10, unconstrained optimum (2,2) strictly inside as well: the old code
   skipped the free branch, all three edge candidates have negative gain (> -1) and it moved to the
   least bad one. *)
Theorem old_tri_gain_refuted : exists ai aj gi gj Qii Qij Qjj M,
  0 < Qii /\ 0 < Qjj /\ 0 < Qii * Qjj - Qij * Qij /\ Qii * Qjj - Qij * Qij <= qthr /\
  0 < ai /\ 0 < aj /\ ai + aj < M /\
  (let r := old_solve_tri ai aj gi gj Qii Qij Qjj M in
   G2 ai aj gi gj Qii Qij Qjj r < 0).
Proof.
  exists 1, 1, (1 # 1000000), (1 # 1000000), (1 # 1000000), 0, (1 # 1000000), 10.
  repeat split; qdec.
Qed.

(* the repaired code takes the interior optimum on the same input; the gain is strictly positive *)
Example tri_witness_repaired :
  let r := solve_tri qops qlowest 1 1 (1 # 1000000) (1 # 1000000) (1 # 1000000) 0 (1 # 1000000) 10 in
  fst r == 2 /\ snd r == 2 /\
  0 < G2 1 1 (1 # 1000000) (1 # 1000000) (1 # 1000000) 0 (1 # 1000000) r.
Proof. repeat split; qdec. Qed.

(* ------------------------------------------------------------ snapping moves little *)
Lemma tri_snap_close : forall M c, 0 <= M -> intri M c ->
  let c' := tri_snap qops M c in
  Qabs (fst c' - fst c) <= qthr * M /\ Qabs (snd c' - snd c) <= qthr * M.
Proof.
  intros M [x y] HM (H1 & H2 & H3). cbn [fst snd] in *. cbv zeta.
  unfold tri_snap. cbn [o_ltb o_thr o_mul o_sub o_zero qops fst snd].
  assert (E0 : 0 <= qthr * M) by (apply Qmult_le_0_compat; [vm_compute; discriminate|exact HM]).
  set (eps := qthr * M) in *.
  qcase x eps; cbn [fst snd].
  - qcase y eps; cbn [fst snd]; [split; apply Qabs_Qle_condition; split; lra|].
    qcase (M - y) eps; cbn [fst snd]; split; apply Qabs_Qle_condition; split; lra.
  - qcase (M - x) eps; cbn [fst snd].
    + qcase 0 eps; cbn [fst snd]; [split; apply Qabs_Qle_condition; split; lra|].
      qcase (M - 0) eps; cbn [fst snd]; split; apply Qabs_Qle_condition; split; lra.
    + qcase y eps; cbn [fst snd]; [split; apply Qabs_Qle_condition; split; lra|].
      qcase (M - y) eps; cbn [fst snd]; split; apply Qabs_Qle_condition; split; lra.
Qed.

(* ------------------------------------------------------------ QpSparseArray rows *)
Section Sparse.
Variable A : Type.
Variable def : A.

(* "adding elements must be done row-wise, and in order within each row" *)
Fixpoint sorted_from (p : nat) (es : list (nat * A)) : Prop :=
  match es with
  | [] => True
  | (i, _) :: t => (p <= i)%nat /\ sorted_from (S i) t
  end.

Lemma sa_lookup_default : forall es p col, sorted_from p es -> (col < p)%nat ->
  sa_lookup es def col = def.
Proof.
  induction es as [|[i v] t IH]; intros p col S L; cbn [sa_lookup]; [reflexivity|].
  destruct S as [S1 S2].
  destruct (Nat.eqb_spec i col) as [E|N]; [lia|].
  apply (IH (S i)); [exact S2 | lia].
Qed.

(* the merge scan used by the working-set selection reads exactly operator()(row, p) for every
   column, provided the row was filled in increasing column order *)
Theorem sa_scan_lookup : forall w es p, sorted_from p es ->
  forall k, (k < w)%nat -> nth k (sa_scan es def p w) def = sa_lookup es def (p + k).
Proof.
  induction w as [|w IH]; intros es p S k Hk; [lia|].
  destruct es as [|[i v] t]; cbn [sa_scan].
  - destruct k as [|k]; cbn [nth]; [reflexivity|].
    rewrite (IH [] (Datatypes.S p) I k) by lia. reflexivity.
  - destruct S as [S1 S2].
    destruct (Nat.eqb_spec p i) as [E|N].
    + subst i. destruct k as [|k]; cbn [nth sa_lookup].
      * rewrite Nat.add_0_r, Nat.eqb_refl. reflexivity.
      * rewrite (IH t (Datatypes.S p) S2 k) by lia.
        destruct (Nat.eqb_spec p (p + Datatypes.S k)) as [E|_]; [lia|].
        f_equal. lia.
    + destruct k as [|k]; cbn [nth].
      * rewrite Nat.add_0_r. symmetry.
        apply (sa_lookup_default ((i, v) :: t) (Datatypes.S p) p); [split; [lia|exact S2] | lia].
      * assert (S' : sorted_from (Datatypes.S p) ((i, v) :: t)) by (split; [lia|exact S2]).
        assert (K' : (k < w)%nat) by lia.
        rewrite (IH ((i, v) :: t) (Datatypes.S p) S' k K').
        f_equal. lia.
Qed.
End Sparse.

(* without the ordering the scan silently misses entries *)
Example sa_scan_unsorted_differs :
  nth 0 (sa_scan [(1%nat, 5); (0%nat, 7)] 0 0 2) 0 <> sa_lookup [(1%nat, 5); (0%nat, 7)] 0 0%nat.
Proof. vm_compute. discriminate. Qed.
