(* C17 — executable model of the prediction of shark::NearestNeighborModel (Models/NearestNeighborModel.h):
   detail::BaseNearestNeighbor::eval (soft k-nearest-neighbour prediction: uniform or 1/distance weights, the
   zero-distance rule `if (d < 1e-100) w = 1e100`, division by the weight sum) and, for classification, the decision of
   Classifier<..>::eval (Models/Classifier.h: arg_max = first maximal entry; a single output is thresholded at 0).
   Definitions only; proofs are in C17VoteProofs.v.

   The input is what AbstractNearestNeighbors::getNeighbors returned for one pattern: the list of (distance, label)
   pairs, in the order of the back-end.  Arithmetic: C17Field.fops; `tiny` and `huge` stand for 1e-100 and 1e100. *)
From Coq Require Import List Bool Arith.
From SharkV Require Import C17Field.
Import ListNotations.

Section Vote.
Variable A : Type.
Variable F : fops A.
Variables tiny huge : A.
Notation "0" := (o0 F) : OF_scope.
Notation "1" := (o1 F) : OF_scope.
Infix "+" := (oadd F) : OF_scope.
Infix "*" := (omul F) : OF_scope.
Infix "/" := (odiv F) : OF_scope.
Local Open Scope OF_scope.

(* double w = 1.0; if (!m_uniform) { double d = key; if (d < 1e-100) w = 1e100; else w = 1.0 / d; } *)
Definition nn_weight (uniform : bool) (d : A) : A :=
  if uniform then 1 else if oltb F d tiny then huge else 1 / d.

(* wsum += w, over the neighbours in order *)
Definition nn_wsum (uniform : bool) {L : Type} (nbrs : list (A * L)) : A :=
  fold_left (fun s (n : A * L) => s + nn_weight uniform (fst n)) nbrs 0.

(* ---- classification: outputs(p, label) += w;  row /= wsum ---- *)
Fixpoint hist_add (h : list A) (l : nat) (w : A) : list A :=
  match h, l with
  | [], _ => []                                  (* label >= number of classes: out of range (not reachable for numberOfClasses(dataset)) *)
  | x :: h', O => (x + w) :: h'
  | x :: h', S l' => x :: hist_add h' l' w
  end.
Definition nn_hist (uniform : bool) (nc : nat) (nbrs : list (A * nat)) : list A :=
  fold_left (fun h (n : A * nat) => hist_add h (snd n) (nn_weight uniform (fst n))) nbrs (repeat 0 nc).
Definition nn_scores (uniform : bool) (nc : nat) (nbrs : list (A * nat)) : list A :=
  let ws := nn_wsum uniform nbrs in map (fun x => x / ws) (nn_hist uniform nc nbrs).

(* arg_max = std::max_element: the first maximal entry *)
Fixpoint argmax_from (best : nat) (bv : A) (i : nat) (l : list A) : nat :=
  match l with
  | [] => best
  | x :: t => if oltb F bv x then argmax_from i x (S i) t else argmax_from best bv (S i) t
  end.
Definition argmax (l : list A) : nat :=
  match l with [] => 0%nat | x :: t => argmax_from 0%nat x 1%nat t end.

(* Classifier::eval: one output -> `modelResult(0) > 0.0`, else arg_max *)
Definition nn_classify (uniform : bool) (nc : nat) (nbrs : list (A * nat)) : nat :=
  match nn_scores uniform nc nbrs with
  | [s] => if oltb F 0 s then 1%nat else 0%nat
  | sc => argmax sc
  end.

(* ---- regression: row += w * label;  row /= wsum ---- *)
Fixpoint vadd_w (acc : list A) (w : A) (lab : list A) : list A :=
  match acc, lab with
  | a :: acc', x :: lab' => (a + w * x) :: vadd_w acc' w lab'
  | _, _ => []
  end.
Definition nn_regress (uniform : bool) (dimL : nat) (nbrs : list (A * list A)) : list A :=
  let ws := nn_wsum uniform nbrs in
  map (fun x => x / ws)
      (fold_left (fun acc (n : A * list A) => vadd_w acc (nn_weight uniform (fst n)) (snd n)) nbrs (repeat 0 dimL)).

End Vote.
