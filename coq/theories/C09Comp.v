(* C09 (composition) — shark::CachedMatrix<Matrix> and shark::PrecomputedMatrix<Matrix> stacked on an
   ABSTRACT base matrix object.  Definitions only.

   The base matrix is any state type [B] with the member functions the two templates call:
     size()                         bsize
     entry(i,j)                     bentry
     row(k,start,end,storage)       browf    (the cells written to storage, in order)
     flipColumnsAndRows(i,j)        bflip
     matrix(storage)                bmat     (PrecomputedMatrix's constructor)
   packaged as the operation record [MatOps]; the laws a correct base matrix satisfies are the
   record [flip_aware] in C09CompProofs.v.  C09Model.v is the same cache over the one fixed "free"
   base matrix of id pairs; here the cache code is mirrored once more, line by line, with every
   access to the base going through [MatOps]:
     LRUCache: getCacheLine / cacheCreateRow / cacheRedeclareNewest / resizeLine / cacheRemoveRow /
               ensureFreeMemory / markLineForDeletion / swapLineIndices / clear
     CachedMatrix: row(k,start,end) / row(k,start,end,storage) const / entry / flipColumnsAndRows /
               setMaxCachedIndex / clear / getCacheSize / getMaxCacheSize / getCacheRowSize / isCached
     PrecomputedMatrix: constructor / entry / both row overloads / flipColumnsAndRows / the
               "compatibility" accounting functions. *)
From Coq Require Import List Arith Bool.
From SharkV Require Import ListAux.
Import ListNotations.

Class MatOps (V B : Type) := {
  gv     : V;                                  (* content of a freshly allocated, not yet written cell *)
  bsize  : B -> nat;
  bentry : B -> nat -> nat -> V;
  browf  : B -> nat -> nat -> nat -> list V;
  bflip  : nat -> nat -> B -> B;
  bmat   : B -> list (list V)
}.

Section Comp.
Context {V B : Type} {M : MatOps V B}.

Record gst := gmk {
  gbase  : B;                (* *mep_baseMatrix *)
  gents  : list (list V);    (* cache line per index; [] = not cached (length 0) *)
  glru   : list nat;         (* LRU list, head = newest *)
  gcsize : nat;              (* m_cacheSize *)
  gcmax  : nat;              (* m_maxSize *)
  gerr   : bool              (* set when the C++ would execute undefined behaviour *)
}.

Definition gsize (s : gst) : nat := bsize (gbase s).
Definition gline (s : gst) (k : nat) : list V := nth k (gents s) [].
Definition glinelen (s : gst) (k : nat) : nat := length (gline s k).

(* CachedMatrix(base, cachesize): m_cache(base->size(), cachesize) *)
Definition ginit (b : B) (maxsz : nat) : gst :=
  gmk b (repeat [] (bsize b)) [] 0 maxsz false.

(* ---- LRUCache ---- *)
Definition gremove_row (k : nat) (s : gst) : gst :=
  gmk (gbase s) (upd k [] (gents s)) (remove_nat k (glru s)) (gcsize s - glinelen s k) (gcmax s) (gerr s).

Fixpoint gensure_free (fuel need : nat) (s : gst) : gst :=
  if gcmax s - gcsize s <? need then
    match fuel with
    | 0 => gmk (gbase s) (gents s) (glru s) (gcsize s) (gcmax s) true
    | S f =>
      match last_opt (glru s) with
      | None => gmk (gbase s) (gents s) (glru s) (gcsize s) (gcmax s) true
      | Some k => gensure_free f need (gremove_row k s)
      end
    end
  else s.

Definition gensure_free' (need : nat) (s : gst) : gst := gensure_free (length (glru s)) need s.

Definition gadd_front (k : nat) (l : list V) (s : gst) : gst :=
  gmk (gbase s) (upd k l (gents s)) (k :: glru s) (gcsize s + length l) (gcmax s) (gerr s).

Definition gcreate_row (k sz : nat) (s : gst) : gst :=
  gadd_front k (repeat gv sz) (gensure_free' sz s).

Definition gredeclare_newest (k : nat) (s : gst) : gst :=
  gmk (gbase s) (gents s) (k :: remove_nat k (glru s)) (gcsize s) (gcmax s) (gerr s).

Definition gresize_line (k sz : nat) (s : gst) : gst :=
  let old := gline s k in
  let nl := firstn sz old ++ repeat gv (sz - length old) in
  gadd_front k nl (gensure_free' sz (gremove_row k s)).

Definition gget_line (k sz : nat) (s : gst) : gst :=
  if glinelen s k =? 0 then gcreate_row k sz s
  else if sz <=? glinelen s k then gredeclare_newest k s
  else gresize_line k sz s.

Definition gmark_for_deletion (k : nat) (s : gst) : gst :=
  if glinelen s k =? 0 then s
  else gmk (gbase s) (gents s) (remove_nat k (glru s) ++ [k]) (gcsize s) (gcmax s) (gerr s).

Definition gswap_line_indices (i j : nat) (s : gst) : gst :=
  if (i =? j) || ((glinelen s i =? 0) && (glinelen s j =? 0)) then s
  else gmk (gbase s) (swapl [] i j (gents s)) (map (tr i j) (glru s)) (gcsize s) (gcmax s) (gerr s).

Definition glru_clear (s : gst) : gst := gensure_free' (gcmax s) s.

(* ---- CachedMatrix ---- *)

(* QpFloatType* row(k, start, end): start is unused ((void)start); the returned pointer is the
   line [gline s' k] *)
Definition gcm_row (k e : nat) (s : gst) : gst :=
  let cached := glinelen s k in
  let s1 := gget_line k e s in
  if cached <? e then
    gmk (gbase s1) (upd k (firstn cached (gline s1 k) ++ browf (gbase s) k cached e) (gents s1))
        (glru s1) (gcsize s1) (gcmax s1) (gerr s1)
  else s1.

(* void row(k,start,end,storage) const (as repaired by f9a1ac31): the cells written to storage[0..end-start)
     cached = min(lineLength(k), end);
     if (start < cached) copy(line+start, line+cached, storage);
     first = max(start, cached);
     base->row(k, first, end, storage + (first-start));
   Before the repair the whole cached line was copied (past the end of the buffer when end < cached) and the
   base was asked for [cached,end) at storage + (cached-start) (before the buffer when cached < start). *)
Definition gcm_row_const (k a e : nat) (s : gst) : list V :=
  let cached := Nat.min (glinelen s k) e in
  let first := Nat.max a cached in
  firstn (cached - a) (skipn a (gline s k)) ++ browf (gbase s) k first e.

Definition gflip_line (b : B) (i j k : nat) (l : list V) : list V :=
  if length l <=? i then l
  else if j <? length l then upd i (nth j l gv) (upd j (nth i l gv) l)
  else upd i (bentry b k j) l.

Definition gcm_flip (i0 j0 : nat) (s : gst) : gst :=
  if i0 =? j0 then s else
  let i := Nat.min i0 j0 in let j := Nat.max i0 j0 in
  let ents1 := map (fun k => gflip_line (gbase s) i j k (nth k (gents s) [])) (seq 0 (length (gents s))) in
  let s1 := gmk (gbase s) ents1 (glru s) (gcsize s) (gcmax s) (gerr s) in
  let s2 := gswap_line_indices i j s1 in
  gmk (bflip i j (gbase s2)) (gents s2) (glru s2) (gcsize s2) (gcmax s2) (gerr s2).

Definition gcm_set_max_cached_index (m : nat) (s : gst) : gst :=
  fold_left (fun s k => gmark_for_deletion k s) (seq m (gsize s - m)) s.

(* accounting interface of CachedMatrix *)
Definition gcm_entry (s : gst) (i j : nat) : V := bentry (gbase s) i j.
Definition gcm_cache_size (s : gst) : nat := gcsize s.             (* getCacheSize    *)
Definition gcm_max_cache_size (s : gst) : nat := gcmax s.          (* getMaxCacheSize *)
Definition gcm_cache_row_size (s : gst) (k : nat) : nat := glinelen s k.   (* getCacheRowSize *)
Definition gcm_is_cached (s : gst) (k : nat) : bool := negb (glinelen s k =? 0).
Definition gcm_cached_lines (s : gst) : nat := length (glru s).    (* LRUCache::cachedLines *)

(* ---- operations and histories ---- *)
Inductive gop :=
| GRow (k a e : nat)        (* row(k,a,e): a is ignored by the code *)
| GFlip (i j : nat)
| GSetMax (m : nat)
| GClear
| GRowC (k a e : nat).      (* row(k,a,e,storage) const: observation only *)

(* the documented preconditions (SIZE_CHECKs and comments of the two classes) *)
Definition gwf_op (s : gst) (o : gop) : bool :=
  match o with
  | GRow k a e => (k <? gsize s) && (0 <? e) && (e <=? gsize s) && (e <=? gcmax s) && (a <=? e)
  | GFlip i j => (i <? gsize s) && (j <? gsize s)
  | GSetMax m => m <=? gsize s
  | GClear => true
  | GRowC k a e => (k <? gsize s) && (a <=? e) && (e <=? gsize s)
  end.

Definition gstep (s : gst) (o : gop) : gst :=
  if gwf_op s o then
    match o with
    | GRow k _ e => gcm_row k e s
    | GFlip i j => gcm_flip i j s
    | GSetMax m => gcm_set_max_cached_index m s
    | GClear => glru_clear s
    | GRowC _ _ _ => s
    end
  else s.

Definition grun (s : gst) (ops : list gop) : gst := fold_left gstep ops s.

(* the variable order composed by the flips of a history: position -> original index *)
Definition cperm_step (n : nat) (p : list nat) (o : gop) : list nat :=
  match o with
  | GFlip i j => if (i <? n) && (j <? n) then swapl 0 i j p else p
  | _ => p
  end.
Definition cperm (n : nat) (ops : list gop) : list nat := fold_left (cperm_step n) ops (seq 0 n).

(* the same for a plain list of flips *)
Definition flips_perm (n : nat) (fl : list (nat * nat)) : list nat :=
  fold_left (fun p ij => if (fst ij <? n) && (snd ij <? n) then swapl 0 (fst ij) (snd ij) p else p) fl (seq 0 n).
Definition bflips (fl : list (nat * nat)) (b : B) : B :=
  fold_left (fun b ij => if (fst ij <? bsize b) && (snd ij <? bsize b) then bflip (fst ij) (snd ij) b else b) fl b.

(* ---- PrecomputedMatrix<Matrix> ---- *)
(* constructor: matrix(base->size(), base->size()); base->matrix(matrix).  Afterwards the base is
   never touched again: flips are NOT forwarded. *)
Definition pm_init (b : B) : list (list V) := bmat b.
(* matrix.swap_rows(i,j); matrix.swap_columns(i,j) *)
Definition pm_flip (i j : nat) (m : list (list V)) : list (list V) := map (swapl gv i j) (swapl [] i j m).
Definition pm_flips (fl : list (nat * nat)) (m : list (list V)) : list (list V) :=
  fold_left (fun m ij => if (fst ij <? length m) && (snd ij <? length m) then pm_flip (fst ij) (snd ij) m else m) fl m.
Definition pm_entry (m : list (list V)) (i j : nat) : V := nth j (nth i m []) gv.
(* row(k,start,end,storage) const, and the cells [start,end) behind the pointer of row(k,start,end) *)
Definition pm_row (m : list (list V)) (k a e : nat) : list V := firstn (e - a) (skipn a (nth k m [])).
Definition pm_size (m : list (list V)) : nat := length (nth 0 m []).              (* matrix.size2() *)
Definition pm_max_cache_size (m : list (list V)) : nat := length m * length (nth 0 m []).   (* = getCacheSize *)

End Comp.

Arguments gst : clear implicits.
