(* C03 — WeightedUnlabeledData / WeightedLabeledData (WeightedDataset.h): a data container and a weight container
   (Data<double>) driven in lock-step, exactly as LabeledData drives its input and label container; every structural
   operation of detail::BaseWeightedDataset calls the same operation with the same arguments on both.
   The weighted container over data D with weights W is therefore [labeled D W] of C03Model (inputs = data(),
   labels = weights()); for WeightedLabeledData D is itself a pair container (inputs, labels), i.e. three containers.
   New here: construction with one weight for all elements, sumOfWeights, classWeight, bootstrap
   (the loop as written).  Definitions only; proofs in C03WeightedProofs.v. *)
From Coq Require Import List Arith Bool.
From SharkV Require Import ListAux C03Model.
Import ListNotations.

Section W.
Context {D : Type}.

(* BaseWeightedDataset(data, weight): m_weights(data.numberOfBatches()); for every batch i:
   m_weights.batch(i) = Batch<WeightType>::type(batchSize(m_data.batch(i)), weight) *)
Definition uniform_weights {W} (d : @data D) (w : W) : @data W := map (fun b => repeat w (length b)) d.
Definition w_uniform {W} (d : @data D) (w : W) : labeled D W := mkL d (uniform_weights d w).

(* sumOfWeights: for every batch: weightSum += sum(batch.weight) *)
Definition sum_of_weights (x : labeled D nat) : nat := fold_left (fun acc b => acc + sum b) (labels x) 0.

(* bootstrap(dataset, bootStrapSize): bootstrapSet(dataset, 0.0); for every draw: bootstrapSet.element(index).weight += 1.0.
   The element is reached through the batch structure (DataElementIterator + index). *)
Fixpoint add_at (k : nat) (ws : @data nat) : @data nat :=
  match ws with
  | [] => []
  | b :: r => if k <? length b then upd k (S (nth k b 0)) b :: r else b :: add_at (k - length b) r
  end.
Definition bootstrap_loop (draws : list nat) (ws : @data nat) : @data nat :=
  fold_left (fun w i => add_at i w) draws ws.
Definition w_bootstrap (d : @data D) (draws : list nat) : labeled D nat :=
  mkL d (bootstrap_loop draws (uniform_weights d 0)).

End W.

(* classWeight(dataset): weights(numberOfClasses, 0); for every element: weights(label) += weight *)
Definition class_weight (ls ws : list nat) : list nat :=
  fold_left (fun acc lw => upd (fst lw) (nth (fst lw) acc 0 + snd lw) acc) (combine ls ws)
            (repeat 0 (match ls with [] => 0 | _ => S (fold_right Nat.max 0 ls) end)).
