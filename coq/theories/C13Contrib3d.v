(* C13 — HypervolumeContribution3D.h (overloads with reference point) as coded: executable model (definitions only).

   smallest / largest (points, k, ref): front := (p - ref, index) for every point; std::sort by the third objective;
   allContributions(front); the first k / the last k (reversed) of the sorted contributions.

   allContributions (points sorted by f3):
     boxlists[0..n]  (one std::deque<Box> per point, position n for the two sentinels), contributions[0..n];
     xyFront = std::multiset<Point> ordered by f1 only, initially the sentinels (-inf, 0) and (0, -inf) with index n;
     for every point i (ascending f3):
        left  := predecessor of xyFront.lower_bound(point)        (last element with smaller f1)
        if left.f2 < point.f2: continue                            (dominated)
        dominated := the elements after left while f2 > point.f2;  right := the first element after them
        erase the dominated elements; insert (point, i)            (std::multiset inserts at the upper bound of equal keys)
        contributions[left]  += cutBoxesOnTheLeft (boxlists[left], point)
        contributions[right] += cutBoxesOnTheRight(boxlists[right], point, right)
        for every dominated point d, largest f1 first: close all boxes of d at height point.f3,
            push_front to boxlists[i] the box [d.f1, xright) x [point.f2, d.f2) from height point.f3;  xright := d.f1
        push_front to boxlists[i] the box [point.f1, xright) x [point.f2, left.f2) from height point.f3
     for every element of xyFront: close its boxes at height 0.
     drop position n, return (contribution, original index) for every position.
   A Box is kept as (lx, ly, lz, ux, uy): the field upper.f3 of the code is written immediately before every call of
   volume() and read nowhere else, so volume is modelled as  vol b z = (ux-lx)*(uy-ly)*(z-lz).
   The indices stored in xyFront are POSITIONS in the sorted array; the returned pairs carry the original indices.
   -inf (= -DBL_MAX in the code) is the parameter [ninf]; the entry point supplies (smallest translated coordinate) - 1:
   the sentinels' infinite coordinates are only compared with coordinates of points (never used in arithmetic, because
   boxlists[n] stays empty), so every value below all coordinates gives the same run.
   std::sort by f3 is modelled by a stable insertion sort; the theorems hold for every arrangement sorted by f3. *)
From Coq Require Import List ZArith Lia Bool Arith.
From SharkV Require Import ListAux C13Model C13ContribMd.
Import ListNotations.
Local Open Scope Z_scope.

Record P3 := mkP3 { f1 : Z; f2 : Z; f3 : Z; idx : nat }.
Record Box := mkBox { lx : Z; ly : Z; lz : Z; ux : Z; uy : Z }.

Definition vol (b : Box) (z : Z) : Z := (ux b - lx b) * (uy b - ly b) * (z - lz b).

(* takeWhile / dropWhile in one pass *)
Fixpoint span {A} (p : A -> bool) (l : list A) : list A * list A :=
  match l with
  | [] => ([], [])
  | x :: t => if p x then let '(a, b) := span p t in (x :: a, b) else ([], l)
  end.

(* cutBoxesOnTheLeft: the deque is traversed from the back; [revl] is the reversed deque *)
Fixpoint cut_left_rev (revl : list Box) (p : P3) (acc : Z) : Z * list Box :=
  match revl with
  | [] => (acc, [])
  | b :: t =>
    if f1 p <? lx b then cut_left_rev t p (acc + vol b (f3 p))
    else if f1 p <? ux b then (acc + vol b (f3 p), mkBox (lx b) (ly b) (f3 p) (f1 p) (uy b) :: t)
    else (acc, revl)
  end.
Definition cut_left (l : list Box) (p : P3) : Z * list Box :=
  let '(a, r) := cut_left_rev (rev l) p 0 in (a, rev r).

(* cutBoxesOnTheRight: pops from the front while the box is partly covered *)
Fixpoint cut_right_loop (l : list Box) (p : P3) (acc xright : Z) : Z * Z * list Box :=
  match l with
  | [] => (acc, xright, [])
  | b :: t =>
    if uy b <=? f2 p then (acc, xright, l)
    else cut_right_loop t p (acc + vol b (f3 p)) (ux b)
  end.
Definition cut_right (l : list Box) (p rgt : P3) : Z * list Box :=
  match l with
  | [] => (0, [])
  | _ =>
    let '(acc, xright, l') := cut_right_loop l p 0 (f1 rgt) in
    if xright =? f1 rgt then (acc, l')
    else (acc, mkBox (f1 rgt) (f2 rgt) (f3 p) xright (f2 p) :: l')
  end.

Record st3 := mkSt { front : list P3; boxes : list (list Box); contr : list Z }.

Definition add_at (i : nat) (v : Z) (c : list Z) : list Z := upd i (nth i c 0 + v) c.
Definition close_all (bs : list Box) (z : Z) : Z := fold_left (fun a b => a + vol b z) bs 0.

(* the loop over the dominated points (largest f1 first) *)
Definition dom_step (pts : list P3) (p : P3) (boxlists : list (list Box))
                    (s : Z * list Z * list Box) (d : nat) : Z * list Z * list Box :=
  let '(xright, c, nb) := s in
  let dp := nth d pts (mkP3 0 0 0 0) in
  (f1 dp, add_at d (close_all (nth d boxlists []) (f3 p)) c,
   mkBox (f1 dp) (f2 p) (f3 p) xright (f2 dp) :: nb).

Definition step3 (pts : list P3) (s : st3) (ip : nat * P3) : st3 :=
  let '(i, p) := ip in
  let '(before, after) := span (fun e => f1 e <? f1 p) (front s) in
  match rev before with
  | [] => s
  | lft :: _ =>
    if f2 lft <? f2 p then s
    else
      let '(dom, rest) := span (fun e => f2 p <? f2 e) after in
      match rest with
      | [] => s
      | rgt :: _ =>
        let '(eqs, gts) := span (fun e => f1 e <=? f1 p) rest in
        let front' := before ++ eqs ++ mkP3 (f1 p) (f2 p) (f3 p) i :: gts in
        let '(aL, lL) := cut_left (nth (idx lft) (boxes s) []) p in
        let c1 := add_at (idx lft) aL (contr s) in
        let b1 := upd (idx lft) lL (boxes s) in
        let '(aR, lR) := cut_right (nth (idx rgt) b1 []) p rgt in
        let c2 := add_at (idx rgt) aR c1 in
        let b2 := upd (idx rgt) lR b1 in
        let '(xright, c3, nb) := fold_left (dom_step pts p b2) (rev (map idx dom)) (f1 rgt, c2, nth i b2 []) in
        let newBox := mkBox (f1 p) (f2 p) (f3 p) xright (f2 lft) in
        mkSt front' (upd i (newBox :: nb) b2) c3
      end
  end.

Definition final_close (s : st3) : list Z :=
  fold_left (fun c e => add_at (idx e) (close_all (nth (idx e) (boxes s) []) 0) c) (front s) (contr s).

(* allContributions before the final std::sort: (contribution, original index) per position *)
Definition all_contributions3d (ninf : Z) (pts : list P3) : list kv :=
  let n := length pts in
  let s0 := mkSt [mkP3 ninf 0 ninf n; mkP3 0 ninf ninf n] (repeat [] (S n)) (repeat 0 (S n)) in
  let s := fold_left (step3 pts) (combine (seq 0 n) pts) s0 in
  combine (firstn n (final_close s)) (map idx pts).

(* std::sort by f3 *)
Fixpoint insert_f3 (p : P3) (l : list P3) : list P3 :=
  match l with
  | [] => [p]
  | q :: t => if f3 p <? f3 q then p :: l else q :: insert_f3 p t
  end.
Definition sort_f3 (l : list P3) : list P3 := fold_right insert_f3 [] l.

Definition translate3 (ref : point) (S : list point) : list P3 :=
  map (fun ip : nat * point =>
         let '(i, p) := ip in
         mkP3 (nth 0 p 0 - nth 0 ref 0) (nth 1 p 0 - nth 1 ref 0) (nth 2 p 0 - nth 2 ref 0) i)
      (combine (seq 0 (length S)) S).

Definition ninf_of (pts : list P3) : Z :=
  fold_right (fun p m => Z.min (Z.min (f1 p) (f2 p)) (Z.min (f3 p) m)) 0 pts - 1.

Definition contribs3d (ref : point) (S : list point) : list kv :=
  let pts := sort_f3 (translate3 ref S) in
  all_contributions3d (ninf_of pts) pts.

Definition contrib3d_smallest (ref : point) (S : list point) (k : nat) : list kv := smallest_kv k (contribs3d ref S).
Definition contrib3d_largest (ref : point) (S : list point) (k : nat) : list kv := largest_kv k (contribs3d ref S).
