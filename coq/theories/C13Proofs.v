(* C13 — proofs about the model in C13Model.v (axiom-free: lists, nat, Z). *)
From Coq Require Import List ZArith Lia Bool Arith Permutation.
From SharkV Require Import ListAux C13Model.
Import ListNotations.

(* ========================================================================================== *)
(* 1. dominance *)

Lemma count_lt_zero_iff a b : length a = length b ->
  (count_lt a b = 0 <-> leq_all b a).
Proof.
  revert b; induction a as [|x a IH]; intros [|y b] L; simpl in *; try discriminate.
  - split; auto. intros _. constructor.
  - injection L as L. specialize (IH b L). destruct (Z.ltb_spec x y) as [Hxy|Hxy].
    + split; [discriminate|]. intros H'. inversion H'; subst. lia.
    + simpl. rewrite IH. split.
      * intros H'. constructor; auto.
      * intros H'. inversion H'; auto.
Qed.

Lemma count_lt_pos_iff a b : 0 < count_lt a b <-> lt_some a b.
Proof.
  revert b; induction a as [|x a IH]; intros [|y b]; simpl.
  - split; [lia|inversion 1].
  - split; [lia|inversion 1].
  - split; [lia|inversion 1].
  - destruct (Z.ltb_spec x y).
    + split; [intros _; now constructor|lia].
    + simpl. rewrite IH. split; [intros; now apply lt_there|].
      inversion 1; subst; auto; lia.
Qed.

Lemma leq_all_length a b : leq_all a b -> length a = length b.
Proof. induction 1; simpl; auto. Qed.

Lemma leq_all_refl a : leq_all a a.
Proof. induction a; constructor; auto; lia. Qed.

Lemma leq_all_trans a b c : leq_all a b -> leq_all b c -> leq_all a c.
Proof.
  unfold leq_all. intros H; revert c; induction H; intros c H'; inversion H'; subst.
  - constructor.
  - constructor; eauto; lia.
Qed.

Lemma leq_all_antisym a b : leq_all a b -> leq_all b a -> a = b.
Proof.
  induction 1; intros H'; auto. inversion H'; subst. f_equal; auto; lia.
Qed.

Lemma lt_some_not_geq a b : lt_some a b -> ~ leq_all b a.
Proof. induction 1; intros H'; inversion H'; subst; auto; lia. Qed.

Lemma lt_some_leq_trans a b c : lt_some a b -> leq_all a b -> leq_all b c -> lt_some a c.
Proof.
  intros H; revert c; induction H; intros c L1 L2; inversion L1; inversion L2; subst.
  - apply lt_here; lia.
  - apply lt_there; auto.
Qed.

(* the coded four-valued relation is exactly the component-wise definition *)
Lemma dominance_spec a b : length a = length b ->
  (dominance a b = LhsDominates <-> dominates a b) /\
  (dominance a b = RhsDominates <-> dominates b a) /\
  (dominance a b = Equivalent <-> a = b) /\
  (dominance a b = Incomparable <-> ~ leq_all a b /\ ~ leq_all b a).
Proof.
  intros L. unfold dominance, dominates.
  pose proof (count_lt_zero_iff a b L) as Zab.
  pose proof (count_lt_zero_iff b a (eq_sym L)) as Zba.
  pose proof (count_lt_pos_iff a b) as Pab.
  pose proof (count_lt_pos_iff b a) as Pba.
  assert (Eq : a = b <-> leq_all a b /\ leq_all b a).
  { split; [intros ->; split; apply leq_all_refl|intros [? ?]; now apply leq_all_antisym]. }
  rewrite Eq.
  destruct (Nat.ltb_spec 0 (count_lt a b)) as [Hl|Hl];
  destruct (Nat.ltb_spec 0 (count_lt b a)) as [Hr|Hr].
  - assert (~ leq_all b a) by (rewrite <- Zab; lia).
    assert (~ leq_all a b) by (rewrite <- Zba; lia).
    intuition discriminate.
  - assert (~ leq_all b a) by (rewrite <- Zab; lia).
    assert (leq_all a b) by (apply Zba; lia).
    assert (lt_some a b) by (apply Pab; lia).
    assert (~ lt_some b a) by (rewrite <- Pba; lia).
    intuition discriminate.
  - assert (leq_all b a) by (apply Zab; lia).
    assert (~ leq_all a b) by (rewrite <- Zba; lia).
    assert (lt_some b a) by (apply Pba; lia).
    assert (~ lt_some a b) by (rewrite <- Pab; lia).
    intuition discriminate.
  - assert (leq_all b a) by (apply Zab; lia).
    assert (leq_all a b) by (apply Zba; lia).
    assert (~ lt_some b a) by (rewrite <- Pba; lia).
    assert (~ lt_some a b) by (rewrite <- Pab; lia).
    intuition discriminate.
Qed.

Lemma domb_true_iff a b : length a = length b -> (domb a b = true <-> dominates a b).
Proof.
  intros L. destruct (dominance_spec a b L) as [H _]. unfold domb.
  rewrite <- H. destruct (dominance a b); split; congruence.
Qed.

(* domb without the length hypothesis, for the rank proofs (lists of unequal length: count_lt
   only looks at the common prefix) *)
Lemma domb_prefix_iff a b : domb a b = true <-> (0 < count_lt a b /\ count_lt b a = 0).
Proof.
  unfold domb, dominance.
  destruct (Nat.ltb_spec 0 (count_lt a b)); destruct (Nat.ltb_spec 0 (count_lt b a));
    split; try discriminate; try lia; auto.
Qed.

Lemma dominates_irrefl a : ~ dominates a a.
Proof. intros [_ H]. apply lt_some_not_geq in H. apply H, leq_all_refl. Qed.

Lemma dominates_trans a b c : dominates a b -> dominates b c -> dominates a c.
Proof.
  intros [L1 S1] [L2 S2]. split.
  - eapply leq_all_trans; eauto.
  - eapply lt_some_leq_trans; eauto.
Qed.

Lemma dominates_asym a b : dominates a b -> ~ dominates b a.
Proof. intros [_ H] [H' _]. apply lt_some_not_geq in H. auto. Qed.

(* component-wise characterisation with indices *)
Lemma leq_all_nth a b : leq_all a b <->
  length a = length b /\ forall i, i < length a -> (nth i a 0 <= nth i b 0)%Z.
Proof.
  split.
  - induction 1 as [|x y a b Hxy H IH]; simpl.
    + split; auto. intros i Hi; lia.
    + destruct IH as [IH1 IH2]. split; [lia|]. intros [|i] Hi; auto. apply IH2; lia.
  - revert b; induction a as [|x a IH]; intros [|y b] [L H]; simpl in *; try discriminate.
    + constructor.
    + constructor.
      * apply (H 0). lia.
      * apply IH. split; [lia|]. intros i Hi. apply (H (S i)). lia.
Qed.

Lemma lt_some_nth a b : length a = length b ->
  (lt_some a b <-> exists i, i < length a /\ (nth i a 0 < nth i b 0)%Z).
Proof.
  intros L; split.
  - induction 1; simpl in *.
    + exists 0; split; [lia|auto].
    + destruct IHlt_some as [i [Hi Hl]]; [lia|]. exists (S i). split; [lia|auto].
  - revert b L; induction a as [|x a IH]; intros [|y b] L [i [Hi Hl]]; simpl in *; try lia.
    destruct i.
    + now apply lt_here.
    + apply lt_there. apply IH; [lia|]. exists i. split; [lia|auto].
Qed.

Theorem dominates_componentwise a b :
  dominates a b <->
  length a = length b /\
  (forall i, i < length a -> (nth i a 0 <= nth i b 0)%Z) /\
  (exists i, i < length a /\ (nth i a 0 < nth i b 0)%Z).
Proof.
  unfold dominates. rewrite leq_all_nth. split.
  - intros [[L H] HS]. split; auto. split; auto. apply lt_some_nth; auto.
  - intros [L [H HS]]. split; auto. apply lt_some_nth; auto.
Qed.

(* ========================================================================================== *)
(* 2. hypervolume spec: unit-slice sums *)
Local Open Scope Z_scope.

Lemma zsum_n_ext n : forall lo f g,
  (forall z, lo <= z < lo + Z.of_nat n -> f z = g z) -> zsum_n n lo f = zsum_n n lo g.
Proof.
  induction n as [|n IH]; intros lo f g H; simpl; auto.
  rewrite (H lo) by lia. f_equal. apply IH. intros z Hz. apply H. lia.
Qed.

Lemma zsum_ext lo hi f g :
  (forall z, lo <= z < hi -> f z = g z) -> zsum lo hi f = zsum lo hi g.
Proof. intros H. unfold zsum. apply zsum_n_ext. intros z Hz. apply H. lia. Qed.

Lemma zsum_n_app n : forall m lo f,
  zsum_n (n + m) lo f = zsum_n n lo f + zsum_n m (lo + Z.of_nat n) f.
Proof.
  induction n as [|n IH]; intros m lo f.
  - simpl. f_equal. lia.
  - cbn [zsum_n Nat.add]. rewrite IH. replace (lo + 1 + Z.of_nat n) with (lo + Z.of_nat (S n)) by lia. lia.
Qed.

Lemma zsum_split lo m hi f : lo <= m <= hi -> zsum lo hi f = zsum lo m f + zsum m hi f.
Proof.
  intros H. unfold zsum.
  replace (Z.to_nat (hi - lo)) with (Z.to_nat (m - lo) + Z.to_nat (hi - m))%nat by lia.
  rewrite zsum_n_app. do 2 f_equal. lia.
Qed.

Lemma zsum_n_const n : forall lo c, zsum_n n lo (fun _ => c) = c * Z.of_nat n.
Proof. induction n as [|n IH]; intros lo c; cbn [zsum_n]; [lia|]. rewrite IH. lia. Qed.

Lemma zsum_const lo hi c : lo <= hi -> zsum lo hi (fun _ => c) = c * (hi - lo).
Proof. intros H. unfold zsum. rewrite zsum_n_const. f_equal. lia. Qed.

Lemma zsum_zero lo hi f : (forall z, lo <= z < hi -> f z = 0) -> zsum lo hi f = 0.
Proof.
  intros H. rewrite (zsum_ext lo hi f (fun _ => 0) H). unfold zsum. rewrite zsum_n_const. lia.
Qed.

Lemma zsum_empty lo hi f : hi <= lo -> zsum lo hi f = 0.
Proof. intros H. apply zsum_zero. intros; lia. Qed.

Lemma zsum_n_le n : forall lo f g,
  (forall z, lo <= z < lo + Z.of_nat n -> f z <= g z) -> zsum_n n lo f <= zsum_n n lo g.
Proof.
  induction n as [|n IH]; intros lo f g H; simpl; [lia|].
  pose proof (H lo ltac:(lia)). pose proof (IH (lo + 1) f g ltac:(intros z Hz; apply H; lia)). lia.
Qed.

Lemma zsum_le lo hi f g :
  (forall z, lo <= z < hi -> f z <= g z) -> zsum lo hi f <= zsum lo hi g.
Proof. intros H. unfold zsum. apply zsum_n_le. intros z Hz. apply H. lia. Qed.

(* ---- slices *)
Lemma slice_In z S t : In t (slice z S) <-> exists x, In (x :: t) S /\ x <= z.
Proof.
  unfold slice. rewrite in_flat_map. split.
  - intros [[|x u] [Hin H]]; [destruct H|].
    destruct (Z.leb_spec x z); [|destruct H]. destruct H as [<-|[]]. eauto.
  - intros [x [Hin Hx]]. exists (x :: t). split; auto.
    destruct (Z.leb_spec x z); [left; auto|lia].
Qed.

Lemma slice_cons z p S :
  slice z (p :: S) =
  (match p with x :: t => if x <=? z then [t] else [] | [] => [] end) ++ slice z S.
Proof. reflexivity. Qed.

Lemma hv_box_nil lo ref : hv_box lo ref [] = 0.
Proof. induction ref as [|r ref IH]; simpl; auto. apply zsum_zero. intros; apply IH. Qed.

Lemma hv_box_nonneg lo ref : forall S, 0 <= hv_box lo ref S.
Proof.
  induction ref as [|r ref IH]; intros S; simpl.
  - destruct S; lia.
  - rewrite <- (zsum_zero lo r (fun _ => 0)) by auto. apply zsum_le. intros; apply IH.
Qed.

(* the spec only depends on the SET of points: permutations and duplicates are irrelevant *)
Lemma hv_box_set_ext lo ref : forall S S',
  (forall p, In p S <-> In p S') -> hv_box lo ref S = hv_box lo ref S'.
Proof.
  induction ref as [|r ref IH]; intros S S' H; simpl.
  - destruct S as [|p S], S' as [|p' S']; auto.
    + destruct (proj2 (H p')); simpl; auto.
    + destruct (proj1 (H p)); simpl; auto.
  - apply zsum_ext. intros z _. apply IH. intros t. rewrite !slice_In.
    split; intros [x [Hin Hx]]; exists x; split; auto; apply H; auto.
Qed.

Lemma hv_box_mono lo ref : forall S S',
  (forall p, In p S -> In p S') -> hv_box lo ref S <= hv_box lo ref S'.
Proof.
  induction ref as [|r ref IH]; intros S S' H; simpl.
  - destruct S as [|p S], S' as [|p' S']; try lia. destruct (H p); simpl; auto.
  - apply zsum_le. intros z _. apply IH. intros t. rewrite !slice_In.
    intros [x [Hin Hx]]; exists x; split; auto.
Qed.

Lemma hv_box_perm lo ref S S' : Permutation S S' -> hv_box lo ref S = hv_box lo ref S'.
Proof.
  intros P. apply hv_box_set_ext. intros p. split; apply Permutation_in; auto. now apply Permutation_sym.
Qed.

Lemma hv_box_duplicate lo ref S p : In p S -> hv_box lo ref (p :: S) = hv_box lo ref S.
Proof.
  intros Hin. apply hv_box_set_ext. intros q; simpl. split; [intros [<-|]; auto|auto].
Qed.

(* a point that is weakly dominated by a member of the set (in particular a strictly dominated
   point or a duplicate) does not change the hypervolume *)
Lemma hv_box_add_covered lo ref : forall S q,
  (exists p, In p S /\ leq_all p q) -> hv_box lo ref (q :: S) = hv_box lo ref S.
Proof.
  induction ref as [|r ref IH]; intros S q [p [Hin Hle]]; cbn [hv_box].
  - destruct S; [destruct Hin|reflexivity].
  - apply zsum_ext. intros z _. rewrite slice_cons.
    destruct q as [|x t]; [reflexivity|].
    destruct (Z.leb_spec x z); [|reflexivity].
    simpl. apply IH. inversion Hle as [|y x' u t' Hyx Hut]; subst.
    exists u. split; auto. apply slice_In. exists y. split; auto. lia.
Qed.

(* lower end of the box is irrelevant once it is below every coordinate *)
Definition lower_bound (lo : Z) (S : list point) : Prop :=
  forall p, In p S -> forall x, In x p -> lo <= x.

Lemma lower_bound_slice lo z S : lower_bound lo S -> lower_bound lo (slice z S).
Proof.
  intros H t Ht x Hx. apply slice_In in Ht. destruct Ht as [y [Hin _]].
  apply (H _ Hin). simpl; auto.
Qed.

Lemma slice_below lo z S : lower_bound lo S -> z < lo -> slice z S = [].
Proof.
  intros H Hz. destruct (slice z S) as [|t l] eqn:E; auto.
  assert (In t (slice z S)) as Hin by (rewrite E; simpl; auto).
  apply slice_In in Hin. destruct Hin as [x [Hin Hx]].
  pose proof (H _ Hin x ltac:(simpl; auto)). lia.
Qed.

Lemma hv_box_lo_irrelevant ref : forall lo lo' S,
  lower_bound lo S -> lo' <= lo -> hv_box lo' ref S = hv_box lo ref S.
Proof.
  induction ref as [|r ref IH]; intros lo lo' S LB Hlo; simpl; auto.
  rewrite (zsum_ext lo' r _ (fun z => hv_box lo ref (slice z S))).
  2:{ intros z _. apply IH; auto. now apply lower_bound_slice. }
  destruct (Z.le_gt_cases lo r) as [Hr|Hr].
  - rewrite (zsum_split lo' lo r) by lia.
    rewrite (zsum_zero lo' lo); [lia|].
    intros z Hz. rewrite (slice_below lo) by (auto; lia). apply hv_box_nil.
  - rewrite (zsum_empty lo r) by lia. apply zsum_zero.
    intros z Hz. rewrite (slice_below lo) by (auto; lia). apply hv_box_nil.
Qed.

Lemma fold_min_le (p : list Z) m : fold_right Z.min m p <= m /\ forall x, In x p -> fold_right Z.min m p <= x.
Proof.
  induction p as [|y p [IH1 IH2]]; simpl; split; try lia.
  intros x [Hx|Hx]; [lia|]. specialize (IH2 x Hx). lia.
Qed.

Lemma min_coord_lower_bound ref S : lower_bound (min_coord ref S) S.
Proof.
  unfold min_coord. induction S as [|q S IH]; intros p Hin x Hx; [destruct Hin|].
  simpl. destruct (fold_min_le q (fold_right (fun p m => fold_right Z.min m p) (fold_right Z.min 0 ref) S)) as [H1 H2].
  destruct Hin as [->|Hin].
  - apply H2; auto.
  - specialize (IH p Hin x Hx). lia.
Qed.

Lemma lower_bound_map_rev lo S : lower_bound lo S -> lower_bound lo (map (@rev Z) S).
Proof.
  intros H p Hp x Hx. apply in_map_iff in Hp. destruct Hp as [q [<- Hq]].
  apply (H q Hq). now apply in_rev.
Qed.

(* hv_spec may be evaluated with any lower end below all coordinates *)
Lemma hv_spec_any_lo ref S lo : lower_bound lo S ->
  hv_spec ref S = hv_box lo (rev ref) (map (@rev Z) S).
Proof.
  intros LB. unfold hv_spec.
  pose proof (min_coord_lower_bound ref S) as LB'.
  set (m := min_coord ref S) in *.
  rewrite <- (hv_box_lo_irrelevant (rev ref) m (Z.min m lo)) by (try apply lower_bound_map_rev; auto; lia).
  rewrite <- (hv_box_lo_irrelevant (rev ref) lo (Z.min m lo)) by (try apply lower_bound_map_rev; auto; lia).
  reflexivity.
Qed.

Lemma lower_bound_weaken lo lo' S : lower_bound lo S -> lo' <= lo -> lower_bound lo' S.
Proof. intros H Hl p Hp x Hx. specialize (H p Hp x Hx). lia. Qed.

Lemma lower_bound_incl lo S S' : (forall p, In p S' -> In p S) -> lower_bound lo S -> lower_bound lo S'.
Proof. intros H LB p Hp. apply LB; auto. Qed.

Theorem hv_spec_perm ref S S' : Permutation S S' -> hv_spec ref S = hv_spec ref S'.
Proof.
  intros P.
  set (lo := Z.min (min_coord ref S) (min_coord ref S')).
  rewrite (hv_spec_any_lo ref S lo), (hv_spec_any_lo ref S' lo).
  - apply hv_box_perm. now apply Permutation_map.
  - eapply lower_bound_weaken; [apply (min_coord_lower_bound ref)|]. unfold lo; lia.
  - eapply lower_bound_weaken; [apply (min_coord_lower_bound ref)|]. unfold lo; lia.
Qed.

Lemma leq_all_rev a b : leq_all a b -> leq_all (rev a) (rev b).
Proof.
  unfold leq_all. induction 1; simpl; [constructor|].
  apply Forall2_app; auto.
Qed.

(* adding a point that is weakly dominated by a member (dominated point or duplicate) *)
Theorem hv_spec_add_covered ref S q :
  (exists p, In p S /\ leq_all p q) -> hv_spec ref (q :: S) = hv_spec ref S.
Proof.
  intros [p [Hin Hle]].
  set (lo := min_coord ref (q :: S)).
  assert (LB : lower_bound lo (q :: S)) by apply min_coord_lower_bound.
  rewrite (hv_spec_any_lo ref (q :: S) lo LB).
  rewrite (hv_spec_any_lo ref S lo).
  2:{ eapply lower_bound_incl; [|exact LB]. simpl; auto. }
  simpl. apply hv_box_add_covered. exists (rev p). split.
  - now apply in_map.
  - now apply leq_all_rev.
Qed.

Corollary hv_spec_add_dominated ref S q :
  (exists p, In p S /\ dominates p q) -> hv_spec ref (q :: S) = hv_spec ref S.
Proof. intros [p [Hin [Hle _]]]. apply hv_spec_add_covered. eauto. Qed.

Corollary hv_spec_add_duplicate ref S q : In q S -> hv_spec ref (q :: S) = hv_spec ref S.
Proof. intros Hin. apply hv_spec_add_covered. exists q. split; auto. apply leq_all_refl. Qed.

Theorem hv_spec_monotone ref S q : hv_spec ref S <= hv_spec ref (q :: S).
Proof.
  set (lo := min_coord ref (q :: S)).
  assert (LB : lower_bound lo (q :: S)) by apply min_coord_lower_bound.
  rewrite (hv_spec_any_lo ref (q :: S) lo LB).
  rewrite (hv_spec_any_lo ref S lo).
  2:{ eapply lower_bound_incl; [|exact LB]. simpl; auto. }
  apply hv_box_mono. simpl; auto.
Qed.
