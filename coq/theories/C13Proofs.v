(* C13 — proofs about the model in C13Model.v (axiom-free: lists, nat, Z). *)
From Coq Require Import List ZArith Lia Bool Arith Permutation.
From SharkV Require Import ListAux C13Model.
Import ListNotations.

(* ========================================================================================== *)
(* 1. dominance *)

Lemma count_lt_zero_iff a b : length a = length b ->
  (count_lt a b = 0 <-> leq_all b a).
Proof.
  revert b; induction a as [|x a IH]; intros [|y b] L; simpl in *; try discriminate.
  - split; auto. intros _. constructor.
  - injection L as L. specialize (IH b L). destruct (Z.ltb_spec x y) as [Hxy|Hxy].
    + split; [discriminate|]. intros H'. inversion H'; subst. lia.
    + simpl. rewrite IH. split.
      * intros H'. constructor; auto.
      * intros H'. inversion H'; auto.
Qed.

Lemma count_lt_pos_iff a b : 0 < count_lt a b <-> lt_some a b.
Proof.
  revert b; induction a as [|x a IH]; intros [|y b]; simpl.
  - split; [lia|inversion 1].
  - split; [lia|inversion 1].
  - split; [lia|inversion 1].
  - destruct (Z.ltb_spec x y).
    + split; [intros _; now constructor|lia].
    + simpl. rewrite IH. split; [intros; now apply lt_there|].
      inversion 1; subst; auto; lia.
Qed.

Lemma leq_all_length a b : leq_all a b -> length a = length b.
Proof. induction 1; simpl; auto. Qed.

Lemma leq_all_refl a : leq_all a a.
Proof. induction a; constructor; auto; lia. Qed.

Lemma leq_all_trans a b c : leq_all a b -> leq_all b c -> leq_all a c.
Proof.
  unfold leq_all. intros H; revert c; induction H; intros c H'; inversion H'; subst.
  - constructor.
  - constructor; eauto; lia.
Qed.

Lemma leq_all_antisym a b : leq_all a b -> leq_all b a -> a = b.
Proof.
  induction 1; intros H'; auto. inversion H'; subst. f_equal; auto; lia.
Qed.

Lemma lt_some_not_geq a b : lt_some a b -> ~ leq_all b a.
Proof. induction 1; intros H'; inversion H'; subst; auto; lia. Qed.

Lemma lt_some_leq_trans a b c : lt_some a b -> leq_all a b -> leq_all b c -> lt_some a c.
Proof.
  intros H; revert c; induction H; intros c L1 L2; inversion L1; inversion L2; subst.
  - apply lt_here; lia.
  - apply lt_there; auto.
Qed.

(* the coded four-valued relation is exactly the component-wise definition *)
Lemma dominance_spec a b : length a = length b ->
  (dominance a b = LhsDominates <-> dominates a b) /\
  (dominance a b = RhsDominates <-> dominates b a) /\
  (dominance a b = Equivalent <-> a = b) /\
  (dominance a b = Incomparable <-> ~ leq_all a b /\ ~ leq_all b a).
Proof.
  intros L. unfold dominance, dominates.
  pose proof (count_lt_zero_iff a b L) as Zab.
  pose proof (count_lt_zero_iff b a (eq_sym L)) as Zba.
  pose proof (count_lt_pos_iff a b) as Pab.
  pose proof (count_lt_pos_iff b a) as Pba.
  assert (Eq : a = b <-> leq_all a b /\ leq_all b a).
  { split; [intros ->; split; apply leq_all_refl|intros [? ?]; now apply leq_all_antisym]. }
  rewrite Eq.
  destruct (Nat.ltb_spec 0 (count_lt a b)) as [Hl|Hl];
  destruct (Nat.ltb_spec 0 (count_lt b a)) as [Hr|Hr].
  - assert (~ leq_all b a) by (rewrite <- Zab; lia).
    assert (~ leq_all a b) by (rewrite <- Zba; lia).
    intuition discriminate.
  - assert (~ leq_all b a) by (rewrite <- Zab; lia).
    assert (leq_all a b) by (apply Zba; lia).
    assert (lt_some a b) by (apply Pab; lia).
    assert (~ lt_some b a) by (rewrite <- Pba; lia).
    intuition discriminate.
  - assert (leq_all b a) by (apply Zab; lia).
    assert (~ leq_all a b) by (rewrite <- Zba; lia).
    assert (lt_some b a) by (apply Pba; lia).
    assert (~ lt_some a b) by (rewrite <- Pab; lia).
    intuition discriminate.
  - assert (leq_all b a) by (apply Zab; lia).
    assert (leq_all a b) by (apply Zba; lia).
    assert (~ lt_some b a) by (rewrite <- Pba; lia).
    assert (~ lt_some a b) by (rewrite <- Pab; lia).
    intuition discriminate.
Qed.

Lemma domb_true_iff a b : length a = length b -> (domb a b = true <-> dominates a b).
Proof.
  intros L. destruct (dominance_spec a b L) as [H _]. unfold domb.
  rewrite <- H. destruct (dominance a b); split; congruence.
Qed.

(* domb without the length hypothesis, for the rank proofs (lists of unequal length: count_lt
   only looks at the common prefix) *)
Lemma domb_prefix_iff a b : domb a b = true <-> (0 < count_lt a b /\ count_lt b a = 0).
Proof.
  unfold domb, dominance.
  destruct (Nat.ltb_spec 0 (count_lt a b)); destruct (Nat.ltb_spec 0 (count_lt b a));
    split; try discriminate; try lia; auto.
Qed.

Lemma dominates_irrefl a : ~ dominates a a.
Proof. intros [_ H]. apply lt_some_not_geq in H. apply H, leq_all_refl. Qed.

Lemma dominates_trans a b c : dominates a b -> dominates b c -> dominates a c.
Proof.
  intros [L1 S1] [L2 S2]. split.
  - eapply leq_all_trans; eauto.
  - eapply lt_some_leq_trans; eauto.
Qed.

Lemma dominates_asym a b : dominates a b -> ~ dominates b a.
Proof. intros [_ H] [H' _]. apply lt_some_not_geq in H. auto. Qed.

(* component-wise characterisation with indices *)
Lemma leq_all_nth a b : leq_all a b <->
  length a = length b /\ forall i, i < length a -> (nth i a 0 <= nth i b 0)%Z.
Proof.
  split.
  - induction 1 as [|x y a b Hxy H IH]; simpl.
    + split; auto. intros i Hi; lia.
    + destruct IH as [IH1 IH2]. split; [lia|]. intros [|i] Hi; auto. apply IH2; lia.
  - revert b; induction a as [|x a IH]; intros [|y b] [L H]; simpl in *; try discriminate.
    + constructor.
    + constructor.
      * apply (H 0). lia.
      * apply IH. split; [lia|]. intros i Hi. apply (H (S i)). lia.
Qed.

Lemma lt_some_nth a b : length a = length b ->
  (lt_some a b <-> exists i, i < length a /\ (nth i a 0 < nth i b 0)%Z).
Proof.
  intros L; split.
  - induction 1; simpl in *.
    + exists 0; split; [lia|auto].
    + destruct IHlt_some as [i [Hi Hl]]; [lia|]. exists (S i). split; [lia|auto].
  - revert b L; induction a as [|x a IH]; intros [|y b] L [i [Hi Hl]]; simpl in *; try lia.
    destruct i.
    + now apply lt_here.
    + apply lt_there. apply IH; [lia|]. exists i. split; [lia|auto].
Qed.

Theorem dominates_componentwise a b :
  dominates a b <->
  length a = length b /\
  (forall i, i < length a -> (nth i a 0 <= nth i b 0)%Z) /\
  (exists i, i < length a /\ (nth i a 0 < nth i b 0)%Z).
Proof.
  unfold dominates. rewrite leq_all_nth. split.
  - intros [[L H] HS]. split; auto. split; auto. apply lt_some_nth; auto.
  - intros [L [H HS]]. split; auto. apply lt_some_nth; auto.
Qed.

(* ========================================================================================== *)
(* 2. hypervolume spec: unit-slice sums *)
Local Open Scope Z_scope.

Lemma zsum_n_ext n : forall lo f g,
  (forall z, lo <= z < lo + Z.of_nat n -> f z = g z) -> zsum_n n lo f = zsum_n n lo g.
Proof.
  induction n as [|n IH]; intros lo f g H; simpl; auto.
  rewrite (H lo) by lia. f_equal. apply IH. intros z Hz. apply H. lia.
Qed.

Lemma zsum_ext lo hi f g :
  (forall z, lo <= z < hi -> f z = g z) -> zsum lo hi f = zsum lo hi g.
Proof. intros H. unfold zsum. apply zsum_n_ext. intros z Hz. apply H. lia. Qed.

Lemma zsum_n_app n : forall m lo f,
  zsum_n (n + m) lo f = zsum_n n lo f + zsum_n m (lo + Z.of_nat n) f.
Proof.
  induction n as [|n IH]; intros m lo f.
  - simpl. f_equal. lia.
  - cbn [zsum_n Nat.add]. rewrite IH. replace (lo + 1 + Z.of_nat n) with (lo + Z.of_nat (S n)) by lia. lia.
Qed.

Lemma zsum_split lo m hi f : lo <= m <= hi -> zsum lo hi f = zsum lo m f + zsum m hi f.
Proof.
  intros H. unfold zsum.
  replace (Z.to_nat (hi - lo)) with (Z.to_nat (m - lo) + Z.to_nat (hi - m))%nat by lia.
  rewrite zsum_n_app. do 2 f_equal. lia.
Qed.

Lemma zsum_n_const n : forall lo c, zsum_n n lo (fun _ => c) = c * Z.of_nat n.
Proof. induction n as [|n IH]; intros lo c; cbn [zsum_n]; [lia|]. rewrite IH. lia. Qed.

Lemma zsum_const lo hi c : lo <= hi -> zsum lo hi (fun _ => c) = c * (hi - lo).
Proof. intros H. unfold zsum. rewrite zsum_n_const. f_equal. lia. Qed.

Lemma zsum_zero lo hi f : (forall z, lo <= z < hi -> f z = 0) -> zsum lo hi f = 0.
Proof.
  intros H. rewrite (zsum_ext lo hi f (fun _ => 0) H). unfold zsum. rewrite zsum_n_const. lia.
Qed.

Lemma zsum_empty lo hi f : hi <= lo -> zsum lo hi f = 0.
Proof. intros H. apply zsum_zero. intros; lia. Qed.

Lemma zsum_n_le n : forall lo f g,
  (forall z, lo <= z < lo + Z.of_nat n -> f z <= g z) -> zsum_n n lo f <= zsum_n n lo g.
Proof.
  induction n as [|n IH]; intros lo f g H; simpl; [lia|].
  pose proof (H lo ltac:(lia)). pose proof (IH (lo + 1) f g ltac:(intros z Hz; apply H; lia)). lia.
Qed.

Lemma zsum_le lo hi f g :
  (forall z, lo <= z < hi -> f z <= g z) -> zsum lo hi f <= zsum lo hi g.
Proof. intros H. unfold zsum. apply zsum_n_le. intros z Hz. apply H. lia. Qed.

(* ---- slices *)
Lemma slice_In z S t : In t (slice z S) <-> exists x, In (x :: t) S /\ x <= z.
Proof.
  unfold slice. rewrite in_flat_map. split.
  - intros [[|x u] [Hin H]]; [destruct H|].
    destruct (Z.leb_spec x z); [|destruct H]. destruct H as [<-|[]]. eauto.
  - intros [x [Hin Hx]]. exists (x :: t). split; auto.
    destruct (Z.leb_spec x z); [left; auto|lia].
Qed.

Lemma slice_cons z p S :
  slice z (p :: S) =
  (match p with x :: t => if x <=? z then [t] else [] | [] => [] end) ++ slice z S.
Proof. reflexivity. Qed.

Lemma hv_box_nil lo ref : hv_box lo ref [] = 0.
Proof. induction ref as [|r ref IH]; simpl; auto. apply zsum_zero. intros; apply IH. Qed.

Lemma hv_box_nonneg lo ref : forall S, 0 <= hv_box lo ref S.
Proof.
  induction ref as [|r ref IH]; intros S; simpl.
  - destruct S; lia.
  - rewrite <- (zsum_zero lo r (fun _ => 0)) by auto. apply zsum_le. intros; apply IH.
Qed.

(* the spec only depends on the SET of points: permutations and duplicates are irrelevant *)
Lemma hv_box_set_ext lo ref : forall S S',
  (forall p, In p S <-> In p S') -> hv_box lo ref S = hv_box lo ref S'.
Proof.
  induction ref as [|r ref IH]; intros S S' H; simpl.
  - destruct S as [|p S], S' as [|p' S']; auto.
    + destruct (proj2 (H p')); simpl; auto.
    + destruct (proj1 (H p)); simpl; auto.
  - apply zsum_ext. intros z _. apply IH. intros t. rewrite !slice_In.
    split; intros [x [Hin Hx]]; exists x; split; auto; apply H; auto.
Qed.

Lemma hv_box_mono lo ref : forall S S',
  (forall p, In p S -> In p S') -> hv_box lo ref S <= hv_box lo ref S'.
Proof.
  induction ref as [|r ref IH]; intros S S' H; simpl.
  - destruct S as [|p S], S' as [|p' S']; try lia. destruct (H p); simpl; auto.
  - apply zsum_le. intros z _. apply IH. intros t. rewrite !slice_In.
    intros [x [Hin Hx]]; exists x; split; auto.
Qed.

Lemma hv_box_perm lo ref S S' : Permutation S S' -> hv_box lo ref S = hv_box lo ref S'.
Proof.
  intros P. apply hv_box_set_ext. intros p. split; apply Permutation_in; auto. now apply Permutation_sym.
Qed.

Lemma hv_box_duplicate lo ref S p : In p S -> hv_box lo ref (p :: S) = hv_box lo ref S.
Proof.
  intros Hin. apply hv_box_set_ext. intros q; simpl. split; [intros [<-|]; auto|auto].
Qed.

(* a point that is weakly dominated by a member of the set (in particular a strictly dominated
   point or a duplicate) does not change the hypervolume *)
Lemma hv_box_add_covered lo ref : forall S q,
  (exists p, In p S /\ leq_all p q) -> hv_box lo ref (q :: S) = hv_box lo ref S.
Proof.
  induction ref as [|r ref IH]; intros S q [p [Hin Hle]]; cbn [hv_box].
  - destruct S; [destruct Hin|reflexivity].
  - apply zsum_ext. intros z _. rewrite slice_cons.
    destruct q as [|x t]; [reflexivity|].
    destruct (Z.leb_spec x z); [|reflexivity].
    simpl. apply IH. inversion Hle as [|y x' u t' Hyx Hut]; subst.
    exists u. split; auto. apply slice_In. exists y. split; auto. lia.
Qed.

(* lower end of the box is irrelevant once it is below every coordinate *)
Definition lower_bound (lo : Z) (S : list point) : Prop :=
  forall p, In p S -> forall x, In x p -> lo <= x.

Lemma lower_bound_slice lo z S : lower_bound lo S -> lower_bound lo (slice z S).
Proof.
  intros H t Ht x Hx. apply slice_In in Ht. destruct Ht as [y [Hin _]].
  apply (H _ Hin). simpl; auto.
Qed.

Lemma slice_below lo z S : lower_bound lo S -> z < lo -> slice z S = [].
Proof.
  intros H Hz. destruct (slice z S) as [|t l] eqn:E; auto.
  assert (In t (slice z S)) as Hin by (rewrite E; simpl; auto).
  apply slice_In in Hin. destruct Hin as [x [Hin Hx]].
  pose proof (H _ Hin x ltac:(simpl; auto)). lia.
Qed.

Lemma hv_box_lo_irrelevant ref : forall lo lo' S,
  lower_bound lo S -> lo' <= lo -> hv_box lo' ref S = hv_box lo ref S.
Proof.
  induction ref as [|r ref IH]; intros lo lo' S LB Hlo; simpl; auto.
  rewrite (zsum_ext lo' r _ (fun z => hv_box lo ref (slice z S))).
  2:{ intros z _. apply IH; auto. now apply lower_bound_slice. }
  destruct (Z.le_gt_cases lo r) as [Hr|Hr].
  - rewrite (zsum_split lo' lo r) by lia.
    rewrite (zsum_zero lo' lo); [lia|].
    intros z Hz. rewrite (slice_below lo) by (auto; lia). apply hv_box_nil.
  - rewrite (zsum_empty lo r) by lia. apply zsum_zero.
    intros z Hz. rewrite (slice_below lo) by (auto; lia). apply hv_box_nil.
Qed.

Lemma fold_min_le (p : list Z) m : fold_right Z.min m p <= m /\ forall x, In x p -> fold_right Z.min m p <= x.
Proof.
  induction p as [|y p [IH1 IH2]]; simpl; split; try lia.
  intros x [Hx|Hx]; [lia|]. specialize (IH2 x Hx). lia.
Qed.

Lemma min_coord_lower_bound ref S : lower_bound (min_coord ref S) S.
Proof.
  unfold min_coord. induction S as [|q S IH]; intros p Hin x Hx; [destruct Hin|].
  simpl. destruct (fold_min_le q (fold_right (fun p m => fold_right Z.min m p) (fold_right Z.min 0 ref) S)) as [H1 H2].
  destruct Hin as [->|Hin].
  - apply H2; auto.
  - specialize (IH p Hin x Hx). lia.
Qed.

Lemma lower_bound_map_rev lo S : lower_bound lo S -> lower_bound lo (map (@rev Z) S).
Proof.
  intros H p Hp x Hx. apply in_map_iff in Hp. destruct Hp as [q [<- Hq]].
  apply (H q Hq). now apply in_rev.
Qed.

(* hv_spec may be evaluated with any lower end below all coordinates *)
Lemma hv_spec_any_lo ref S lo : lower_bound lo S ->
  hv_spec ref S = hv_box lo (rev ref) (map (@rev Z) S).
Proof.
  intros LB. unfold hv_spec.
  pose proof (min_coord_lower_bound ref S) as LB'.
  set (m := min_coord ref S) in *.
  rewrite <- (hv_box_lo_irrelevant (rev ref) m (Z.min m lo)) by (try apply lower_bound_map_rev; auto; lia).
  rewrite <- (hv_box_lo_irrelevant (rev ref) lo (Z.min m lo)) by (try apply lower_bound_map_rev; auto; lia).
  reflexivity.
Qed.

Lemma lower_bound_weaken lo lo' S : lower_bound lo S -> lo' <= lo -> lower_bound lo' S.
Proof. intros H Hl p Hp x Hx. specialize (H p Hp x Hx). lia. Qed.

Lemma lower_bound_incl lo S S' : (forall p, In p S' -> In p S) -> lower_bound lo S -> lower_bound lo S'.
Proof. intros H LB p Hp. apply LB; auto. Qed.

Theorem hv_spec_perm ref S S' : Permutation S S' -> hv_spec ref S = hv_spec ref S'.
Proof.
  intros P.
  set (lo := Z.min (min_coord ref S) (min_coord ref S')).
  rewrite (hv_spec_any_lo ref S lo), (hv_spec_any_lo ref S' lo).
  - apply hv_box_perm. now apply Permutation_map.
  - eapply lower_bound_weaken; [apply (min_coord_lower_bound ref)|]. unfold lo; lia.
  - eapply lower_bound_weaken; [apply (min_coord_lower_bound ref)|]. unfold lo; lia.
Qed.

Lemma leq_all_rev a b : leq_all a b -> leq_all (rev a) (rev b).
Proof.
  unfold leq_all. induction 1; simpl; [constructor|].
  apply Forall2_app; auto.
Qed.

(* adding a point that is weakly dominated by a member (dominated point or duplicate) *)
Theorem hv_spec_add_covered ref S q :
  (exists p, In p S /\ leq_all p q) -> hv_spec ref (q :: S) = hv_spec ref S.
Proof.
  intros [p [Hin Hle]].
  set (lo := min_coord ref (q :: S)).
  assert (LB : lower_bound lo (q :: S)) by apply min_coord_lower_bound.
  rewrite (hv_spec_any_lo ref (q :: S) lo LB).
  rewrite (hv_spec_any_lo ref S lo).
  2:{ eapply lower_bound_incl; [|exact LB]. simpl; auto. }
  simpl. apply hv_box_add_covered. exists (rev p). split.
  - now apply in_map.
  - now apply leq_all_rev.
Qed.

Corollary hv_spec_add_dominated ref S q :
  (exists p, In p S /\ dominates p q) -> hv_spec ref (q :: S) = hv_spec ref S.
Proof. intros [p [Hin [Hle _]]]. apply hv_spec_add_covered. eauto. Qed.

Corollary hv_spec_add_duplicate ref S q : In q S -> hv_spec ref (q :: S) = hv_spec ref S.
Proof. intros Hin. apply hv_spec_add_covered. exists q. split; auto. apply leq_all_refl. Qed.

Theorem hv_spec_monotone ref S q : hv_spec ref S <= hv_spec ref (q :: S).
Proof.
  set (lo := min_coord ref (q :: S)).
  assert (LB : lower_bound lo (q :: S)) by apply min_coord_lower_bound.
  rewrite (hv_spec_any_lo ref (q :: S) lo LB).
  rewrite (hv_spec_any_lo ref S lo).
  2:{ eapply lower_bound_incl; [|exact LB]. simpl; auto. }
  apply hv_box_mono. simpl; auto.
Qed.

(* ========================================================================================== *)
(* 3. the 2-D sort-and-sweep equals the spec *)

Definition cov (L : list (Z * Z)) (z w : Z) : bool :=
  existsb (fun p => (fst p <=? z) && (snd p <=? w)) L.
Definition width (lo r0 : Z) (L : list (Z * Z)) (w : Z) : Z :=
  zsum lo r0 (fun z => if cov L z w then 1 else 0).
Definition area_below (lo r0 : Z) (L : list (Z * Z)) (m : Z) : Z :=
  zsum lo m (width lo r0 L).

Lemma cov_set_ext L L' z w : (forall p, In p L <-> In p L') -> cov L z w = cov L' z w.
Proof.
  intros H. unfold cov. apply eq_true_iff_eq. rewrite !existsb_exists.
  split; intros [p [Hin Hp]]; exists p; split; auto; apply H; auto.
Qed.

Lemma area_below_set_ext lo r0 L L' m :
  (forall p, In p L <-> In p L') -> area_below lo r0 L m = area_below lo r0 L' m.
Proof.
  intros H. unfold area_below, width. apply zsum_ext. intros w _. apply zsum_ext. intros z _.
  now rewrite (cov_set_ext L L' z w H).
Qed.

Definition len2 (S : list point) : Prop := Forall (fun p => length p = 2%nat) S.

Lemma slice2_nil_iff z w S : len2 S ->
  (slice z (slice w (map (@rev Z) S)) = [] <-> cov (map to_pair S) z w = false).
Proof.
  induction 1 as [|p S Hp HS IH]; simpl; [tauto|].
  destruct p as [|x [|y [|? ?]]]; try discriminate. simpl.
  destruct (Z.leb_spec y w); simpl.
  - destruct (Z.leb_spec x z); simpl.
    + split; discriminate.
    + exact IH.
  - rewrite andb_false_r. simpl. exact IH.
Qed.

Lemma hv_box_2d lo r0 r1 S : len2 S ->
  hv_box lo [r1; r0] (map (@rev Z) S) = area_below lo r0 (map to_pair S) r1.
Proof.
  intros H. unfold area_below, width. cbn [hv_box]. apply zsum_ext. intros w _.
  apply zsum_ext. intros z _.
  pose proof (slice2_nil_iff z w S H) as E.
  destruct (slice z (slice w (map (@rev Z) S))) as [|t l]; destruct (cov (map to_pair S) z w); auto.
  - destruct E as [E _]. specialize (E eq_refl). discriminate.
  - destruct E as [_ E]. specialize (E eq_refl). discriminate.
Qed.

(* sortedness by first objective: head is <= every later element *)
Inductive sorted_x : list (Z * Z) -> Prop :=
| sx_nil : sorted_x []
| sx_cons p L : (forall q, In q L -> fst p <= fst q) -> sorted_x L -> sorted_x (p :: L).

Lemma insert_x_In p q l : In q (insert_x p l) <-> q = p \/ In q l.
Proof.
  induction l as [|a l IH]; simpl.
  - intuition.
  - destruct (fst p <=? fst a); simpl; rewrite ?IH; intuition.
Qed.

Lemma sort_x_In q l : In q (sort_x l) <-> In q l.
Proof.
  induction l as [|a l IH]; simpl; [tauto|]. rewrite insert_x_In, IH. intuition.
Qed.

Lemma insert_x_sorted p l : sorted_x l -> sorted_x (insert_x p l).
Proof.
  induction 1 as [|a l Ha Hs IH]; simpl.
  - constructor; [intros q []|constructor].
  - destruct (Z.leb_spec (fst p) (fst a)).
    + constructor; [|constructor; auto].
      intros q [<-|Hq]; auto. specialize (Ha q Hq). lia.
    + constructor; auto. intros q Hq. apply insert_x_In in Hq. destruct Hq as [->|Hq]; [lia|auto].
Qed.

Lemma sort_x_sorted l : sorted_x (sort_x l).
Proof. induction l; simpl; [constructor|now apply insert_x_sorted]. Qed.

(* levels below y are not affected by a point (x,y); levels y..m are covered from x on *)
Lemma width_cons_above lo r0 x y L w : w < y -> width lo r0 ((x, y) :: L) w = width lo r0 L w.
Proof.
  intros H. unfold width. apply zsum_ext. intros z _. unfold cov. simpl.
  destruct (Z.leb_spec y w); [lia|]. now rewrite andb_false_r.
Qed.

Lemma width_cons_covered lo r0 x y L w :
  y <= w -> lo <= x <= r0 -> (forall q, In q L -> x <= fst q) ->
  width lo r0 ((x, y) :: L) w = r0 - x.
Proof.
  intros Hy Hx Hmin. unfold width. rewrite (zsum_split lo x r0) by lia.
  rewrite (zsum_zero lo x).
  - rewrite (zsum_ext x r0 _ (fun _ => 1)).
    + rewrite zsum_const by lia. lia.
    + intros z Hz. unfold cov. simpl.
      destruct (Z.leb_spec x z); [|lia]. destruct (Z.leb_spec y w); [|lia]. reflexivity.
  - intros z Hz. unfold cov. simpl. destruct (Z.leb_spec x z); [lia|]. simpl.
    destruct (existsb _ L) eqn:E; auto.
    apply existsb_exists in E. destruct E as [q [Hq Hc]].
    apply andb_prop in Hc. destruct Hc as [Hc _]. apply Z.leb_le in Hc.
    specialize (Hmin q Hq). lia.
Qed.

Lemma area_cons_le lo r0 x y L m :
  lo <= y <= m -> lo <= x <= r0 -> (forall q, In q L -> x <= fst q) ->
  area_below lo r0 ((x, y) :: L) m = (r0 - x) * (m - y) + area_below lo r0 L y.
Proof.
  intros Hy Hx Hmin. unfold area_below. rewrite (zsum_split lo y m) by lia.
  rewrite (zsum_ext lo y _ (width lo r0 L)) by (intros; apply width_cons_above; lia).
  rewrite (zsum_ext y m _ (fun _ => r0 - x)) by (intros; apply width_cons_covered; auto; lia).
  rewrite zsum_const by lia. lia.
Qed.

Lemma area_cons_ge lo r0 x y L m :
  m <= y -> area_below lo r0 ((x, y) :: L) m = area_below lo r0 L m.
Proof.
  intros H. unfold area_below. apply zsum_ext. intros w Hw. apply width_cons_above. lia.
Qed.

Definition in_box2 (lo r0 : Z) (L : list (Z * Z)) : Prop :=
  forall p, In p L -> lo <= fst p <= r0 /\ lo <= snd p.

Lemma sweep_fold lo r0 : forall L vol m,
  sorted_x L -> in_box2 lo r0 L -> lo <= m ->
  fst (fold_left (sweep_step r0) L (vol, m)) = vol + area_below lo r0 L m.
Proof.
  induction L as [|[x y] L IH]; intros vol m HS HB Hm; simpl.
  - unfold area_below, width. rewrite zsum_zero; [lia|]. intros. apply zsum_zero. auto.
  - inversion HS as [|p L' Hmin HS']; subst. simpl in Hmin.
    destruct (HB (x, y) (or_introl eq_refl)) as [Hx Hy]. simpl in Hx, Hy.
    assert (HB' : in_box2 lo r0 L) by (intros q Hq; apply HB; simpl; auto).
    unfold sweep_step at 2. simpl. destruct (Z.ltb_spec 0 (m - y)).
    + rewrite IH by auto. rewrite (area_cons_le lo r0 x y L m) by (auto; lia). lia.
    + rewrite IH by auto. rewrite area_cons_ge by lia. reflexivity.
Qed.

Lemma hv2d_sweep_area lo r0 r1 L :
  sorted_x L -> in_box2 lo r0 L -> (forall p, In p L -> snd p <= r1) ->
  hv2d_sweep r0 r1 L = area_below lo r0 L r1.
Proof.
  intros HS HB HR. destruct L as [|[x y] L]; simpl.
  - unfold area_below, width. symmetry. apply zsum_zero. intros. apply zsum_zero. auto.
  - inversion HS as [|p L' Hmin HS']; subst. simpl in Hmin.
    destruct (HB (x, y) (or_introl eq_refl)) as [Hx Hy]. simpl in Hx, Hy.
    pose proof (HR (x, y) (or_introl eq_refl)) as Hr. simpl in Hr.
    assert (HB' : in_box2 lo r0 L) by (intros q Hq; apply HB; simpl; auto).
    rewrite (sweep_fold lo) by auto.
    rewrite (area_cons_le lo r0 x y L r1) by (auto; lia). reflexivity.
Qed.

(* points of a 2-objective set inside the box below the reference point *)
Definition below_ref (ref : point) (S : list point) : Prop := forall p, In p S -> leq_all p ref.

Lemma below_ref_len2 r0 r1 S : below_ref [r0; r1] S -> len2 S.
Proof.
  intros H. apply Forall_forall. intros p Hp. specialize (H p Hp).
  apply leq_all_length in H. exact H.
Qed.

(* main theorem, for ANY arrangement of the points that is sorted by the first objective
   (std::sort leaves the order of equal keys unspecified) *)
Theorem hv2d_sweep_correct r0 r1 S L :
  below_ref [r0; r1] S ->
  (forall p, In p L <-> In p (map to_pair S)) -> sorted_x L ->
  hv2d_sweep r0 r1 L = hv_spec [r0; r1] S.
Proof.
  intros HB HL HS.
  pose proof (below_ref_len2 r0 r1 S HB) as H2.
  set (lo := min_coord [r0; r1] S).
  pose proof (min_coord_lower_bound [r0; r1] S) as LB. fold lo in LB.
  unfold hv_spec. fold lo. cbn [rev app]. rewrite hv_box_2d by auto.
  rewrite <- (area_below_set_ext lo r0 L (map to_pair S) r1 HL).
  assert (F : forall p, In p L -> lo <= fst p <= r0 /\ lo <= snd p <= r1).
  { intros p Hp. apply HL in Hp. apply in_map_iff in Hp. destruct Hp as [q [<- Hq]].
    pose proof (HB q Hq) as Hle. pose proof (LB q Hq) as Hlo.
    inversion Hle as [|x a t1 t2 Hx Ht]; subst. inversion Ht as [|y b t3 t4 Hy Ht']; subst.
    inversion Ht'; subst. simpl.
    pose proof (Hlo x ltac:(simpl; auto)). pose proof (Hlo y ltac:(simpl; auto)). lia. }
  apply hv2d_sweep_area; auto.
  - intros p Hp. specialize (F p Hp). lia.
  - intros p Hp. specialize (F p Hp). lia.
Qed.

Theorem hv2d_correct ref S :
  length ref = 2%nat -> below_ref ref S -> hv2d ref S = hv_spec ref S.
Proof.
  intros Hl HB. destruct ref as [|r0 [|r1 [|? ?]]]; try discriminate.
  unfold hv2d. apply hv2d_sweep_correct; auto.
  - intros p. apply sort_x_In.
  - apply sort_x_sorted.
Qed.

(* the premises are satisfiable, and the value is the expected one *)
Example hv2d_example :
  below_ref [6; 6] [[1; 5]; [2; 3]; [2; 3]; [4; 4]; [3; 1]] /\
  hv2d [6; 6] [[1; 5]; [2; 3]; [2; 3]; [4; 4]; [3; 1]] = 19.
Proof.
  split; [|reflexivity].
  intros p Hp. simpl in Hp. unfold leq_all.
  repeat (destruct Hp as [<-|Hp]; [repeat constructor; lia|]). destruct Hp.
Qed.

(* ========================================================================================== *)
(* 4. ranks: the defining equation has exactly one solution and rank_list computes it *)
Local Close Scope Z_scope.

Definition same_dim (d : nat) (S : list point) : Prop := forall p, In p S -> length p = d.

Lemma count_lt_refl a : count_lt a a = 0.
Proof. induction a as [|x a IH]; simpl; auto. rewrite Z.ltb_irrefl. auto. Qed.

Lemma domb_irrefl a : domb a a = false.
Proof. unfold domb, dominance. rewrite count_lt_refl. reflexivity. Qed.

Lemma domb_trans a b c : length a = length b -> length b = length c ->
  domb a b = true -> domb b c = true -> domb a c = true.
Proof.
  intros L1 L2 H1 H2. apply domb_true_iff in H1; auto. apply domb_true_iff in H2; auto.
  apply domb_true_iff; [congruence|]. eapply dominates_trans; eauto.
Qed.

Lemma filter_length_le {A} (f g : A -> bool) l :
  (forall x, In x l -> f x = true -> g x = true) -> length (filter f l) <= length (filter g l).
Proof.
  induction l as [|a l IH]; intros H; simpl; auto.
  assert (IH' := IH (fun x Hx => H x (or_intror Hx))).
  destruct (f a) eqn:Fa.
  - rewrite (H a (or_introl eq_refl) Fa). simpl. lia.
  - destruct (g a); simpl; lia.
Qed.

Lemma filter_length_lt {A} (f g : A -> bool) l x :
  (forall x, In x l -> f x = true -> g x = true) -> In x l -> f x = false -> g x = true ->
  length (filter f l) < length (filter g l).
Proof.
  induction l as [|a l IH]; intros H Hin Fx Gx; [destruct Hin|]. simpl.
  assert (Hle := filter_length_le f g l (fun y Hy => H y (or_intror Hy))).
  destruct Hin as [->|Hin].
  - rewrite Fx, Gx. simpl. lia.
  - assert (IH' := IH (fun y Hy => H y (or_intror Hy)) Hin Fx Gx).
    destruct (f a) eqn:Fa.
    + rewrite (H a (or_introl eq_refl) Fa). simpl. lia.
    + destruct (g a); simpl; lia.
Qed.

Lemma filter_all_true {A} (l : list A) : filter (fun _ => true) l = l.
Proof. induction l; simpl; congruence. Qed.

Definition ndom (S : list point) (i : nat) : nat := length (dom_idx S (nth i S [])).

Lemma dom_idx_In S p j : In j (dom_idx S p) <-> j < length S /\ domb (nth j S []) p = true.
Proof. unfold dom_idx. rewrite filter_In, in_seq. intuition lia. Qed.

Lemma ndom_lt_length S i : i < length S -> ndom S i < length S.
Proof.
  intros Hi. unfold ndom, dom_idx.
  rewrite <- (seq_length (length S) 0) at 2. rewrite <- (filter_all_true (seq 0 (length S))) at 2.
  apply (filter_length_lt _ _ _ i); auto.
  - apply in_seq. lia.
  - apply domb_irrefl.
Qed.

Lemma ndom_decreases d S i j : same_dim d S -> i < length S -> j < length S ->
  domb (nth j S []) (nth i S []) = true -> ndom S j < ndom S i.
Proof.
  intros SD Hi Hj Hd. unfold ndom, dom_idx.
  assert (LD : forall k, k < length S -> length (nth k S []) = d) by (intros k Hk; apply SD, nth_In; auto).
  apply (filter_length_lt _ _ _ j); auto.
  - intros k Hk Hkj. apply in_seq in Hk.
    apply (domb_trans _ (nth j S [])); auto; rewrite !LD; auto; lia.
  - apply in_seq. lia.
  - apply domb_irrefl.
Qed.

Lemma step_ranks_length S r : length (step_ranks S r) = length S.
Proof. unfold step_ranks. apply map_length. Qed.

Lemma nth_step_ranks S r i : i < length S ->
  nth i (step_ranks S r) 0 = 1 + list_max (map (fun j => nth j r 0) (dom_idx S (nth i S []))).
Proof.
  intros Hi. unfold step_ranks.
  set (f := fun p => 1 + list_max (map (fun j => nth j r 0) (dom_idx S p))).
  rewrite (nth_indep _ 0 (f [])) by (rewrite map_length; auto).
  rewrite map_nth. reflexivity.
Qed.

Lemma is_rank_iff_fixpoint S r : is_rank_assignment S r <-> step_ranks S r = r.
Proof.
  split.
  - intros [L H]. apply (nth_ext _ _ 0 0); [rewrite step_ranks_length; auto|].
    intros i Hi. rewrite step_ranks_length in Hi. rewrite nth_step_ranks by auto. symmetry; auto.
  - intros E. split.
    + rewrite <- E. apply step_ranks_length.
    + intros i Hi. rewrite <- E at 1. now apply nth_step_ranks.
Qed.

Lemma rank_eq_by_dominators S (r r' : list nat) i :
  (forall j, In j (dom_idx S (nth i S [])) -> nth j r 0 = nth j r' 0) ->
  1 + list_max (map (fun j => nth j r 0) (dom_idx S (nth i S []))) =
  1 + list_max (map (fun j => nth j r' 0) (dom_idx S (nth i S []))).
Proof. intros H. do 2 f_equal. apply map_ext_in. exact H. Qed.

Theorem rank_unique d S r r' : same_dim d S ->
  is_rank_assignment S r -> is_rank_assignment S r' -> r = r'.
Proof.
  intros SD [L H] [L' H'].
  assert (K : forall k i, i < length S -> ndom S i < k -> nth i r 0 = nth i r' 0).
  { induction k as [|k IH]; intros i Hi Hk; [lia|].
    rewrite H, H' by auto. apply rank_eq_by_dominators.
    intros j Hj. apply dom_idx_In in Hj. destruct Hj as [Hj Hd].
    apply IH; auto. pose proof (ndom_decreases d S i j SD Hi Hj Hd). lia. }
  apply (nth_ext _ _ 0 0); [congruence|].
  intros i Hi. apply (K (length S)); [lia|]. apply ndom_lt_length. lia.
Qed.

Lemma iter_step_length S r0 t : length r0 = length S ->
  length (Nat.iter t (step_ranks S) r0) = length S.
Proof. intros H. destruct t; simpl; auto. apply step_ranks_length. Qed.

Lemma iter_stable d S r0 : same_dim d S ->
  forall k i, i < length S -> ndom S i < k ->
  forall t, k <= t ->
    nth i (Nat.iter (Datatypes.S t) (step_ranks S) r0) 0 = nth i (Nat.iter t (step_ranks S) r0) 0.
Proof.
  intros SD. induction k as [|k IH]; intros i Hi Hk t Ht; [lia|].
  destruct t as [|t]; [lia|].
  replace (Nat.iter (Datatypes.S (Datatypes.S t)) (step_ranks S) r0)
    with (step_ranks S (Nat.iter (Datatypes.S t) (step_ranks S) r0)) by reflexivity.
  replace (nth i (Nat.iter (Datatypes.S t) (step_ranks S) r0) 0)
    with (nth i (step_ranks S (Nat.iter t (step_ranks S) r0)) 0) by reflexivity.
  rewrite !nth_step_ranks by auto. apply rank_eq_by_dominators.
  intros j Hj. apply dom_idx_In in Hj. destruct Hj as [Hj Hd].
  apply (IH j Hj); [|lia]. pose proof (ndom_decreases d S i j SD Hi Hj Hd). lia.
Qed.

Theorem rank_list_is_rank d S : same_dim d S -> is_rank_assignment S (rank_list S).
Proof.
  intros SD. unfold rank_list. split.
  - apply iter_step_length. apply map_length.
  - intros i Hi.
    rewrite <- (iter_stable d S _ SD (length S) i Hi (ndom_lt_length S i Hi) (length S) (le_n _)).
    replace (Nat.iter (Datatypes.S (length S)) (step_ranks S) (map (fun _ => 0) S))
      with (step_ranks S (Nat.iter (length S) (step_ranks S) (map (fun _ => 0) S))) by reflexivity.
    now apply nth_step_ranks.
Qed.

(* consequences of the defining equation, in the form "consistent fronts" *)
Lemma list_max_ge l x : In x l -> x <= list_max l.
Proof.
  induction l as [|a l IH]; intros H; [destruct H|]. simpl. destruct H as [->|H]; [lia|].
  specialize (IH H). lia.
Qed.

Lemma list_max_attained l : l <> [] -> In (list_max l) l.
Proof.
  induction l as [|a l IH]; intros H; [congruence|]. simpl.
  destruct l as [|b l]; [simpl; lia|].
  destruct (Nat.max_spec a (list_max (b :: l))) as [[_ ->]|[_ ->]]; auto.
  right. apply IH. discriminate.
Qed.

Theorem rank_fronts_consistent S r : is_rank_assignment S r ->
  forall i, i < length S ->
    1 <= nth i r 0 /\
    (* no dominator has an equal or larger rank *)
    (forall j, j < length S -> domb (nth j S []) (nth i S []) = true -> nth j r 0 < nth i r 0) /\
    (* a point of rank > 1 is dominated by a point of the preceding rank *)
    (1 < nth i r 0 -> exists j, j < length S /\ domb (nth j S []) (nth i S []) = true /\
                                Datatypes.S (nth j r 0) = nth i r 0) /\
    (* rank 1 = non-dominated *)
    (nth i r 0 = 1 <-> forall j, j < length S -> domb (nth j S []) (nth i S []) = false).
Proof.
  intros [L H] i Hi. rewrite (H i Hi).
  set (D := dom_idx S (nth i S [])).
  set (vals := map (fun j => nth j r 0) D).
  assert (IN : forall j, j < length S -> domb (nth j S []) (nth i S []) = true -> In (nth j r 0) vals).
  { intros j Hj Hd. unfold vals. apply in_map_iff. exists j. split; auto. apply dom_idx_In. auto. }
  split; [lia|]. split; [|split].
  - intros j Hj Hd. pose proof (list_max_ge vals _ (IN j Hj Hd)). lia.
  - intros Hgt. destruct vals as [|v vs] eqn:E; [simpl in Hgt; lia|].
    assert (In (list_max (v :: vs)) vals) as Hm by (rewrite E; apply list_max_attained; discriminate).
    unfold vals in Hm. apply in_map_iff in Hm. destruct Hm as [j [Hv Hj]].
    unfold D in Hj. apply dom_idx_In in Hj. destruct Hj as [Hj Hd]. exists j.
    split; [auto|]. split; [auto|]. rewrite Hv. reflexivity.
  - split.
    + intros E j Hj. destruct (domb (nth j S []) (nth i S [])) eqn:Hd; auto.
      pose proof (list_max_ge vals _ (IN j Hj Hd)) as Hge.
      assert (K : 1 <= nth j r 0) by (rewrite (H j Hj); lia). lia.
    + intros Hnd. assert (D = []) as ->; [|reflexivity].
      destruct D as [|j D'] eqn:E; auto.
      assert (In j (dom_idx S (nth i S []))) as Hj by (fold D; rewrite E; simpl; auto).
      apply dom_idx_In in Hj. destruct Hj as [Hj Hd]. rewrite Hnd in Hd by auto. discriminate.
Qed.

Example rank_example :
  same_dim 2 [[1; 5]; [2; 3]; [2; 3]; [4; 4]; [3; 1]; [5; 5]; [1; 5]]%Z /\
  rank_list [[1; 5]; [2; 3]; [2; 3]; [4; 4]; [3; 1]; [5; 5]; [1; 5]]%Z = [1; 1; 1; 2; 1; 3; 1] /\
  fast_nds [[1; 5]; [2; 3]; [2; 3]; [4; 4]; [3; 1]; [5; 5]; [1; 5]]%Z = [1; 1; 1; 2; 1; 3; 1].
Proof.
  split; [|split; reflexivity].
  intros p Hp. simpl in Hp. repeat (destruct Hp as [<-|Hp]; [reflexivity|]). destruct Hp.
Qed.
