(* C14 — the indicator classes as coded (definitions only).

   Operators/Indicators/AdditiveEpsilonIndicator.h, CrowdingDistance.h, HypervolumeIndicator.h
   (NSGA3Indicator.h: C14Nsga3.v).  All three share the one-at-a-time loop
       for k in 0..K-1: index = leastContributor(points, archive); erase it (activeIndices bookkeeping)
   which is C14Model.lc_iter; it is repeated here for an arbitrary point type (lc_iter_g) because the
   crowding distance divides (carrier = a Section variable: OCaml floats in the driver, Q in the proofs).

   * AdditiveEpsilonIndicator::leastContributor over Z (subtraction, max, min, comparisons only; the
     start value std::numeric_limits<double>::max() is the None of option Z).
   * HypervolumeIndicator::leastContributor: dispatch on m_reference.size() / the number of objectives as in
     HypervolumeContribution::smallest; the 2-D routines are C13Model.contrib2d_ref / contrib2d_noref followed by
     the 2-slot heap of bestContributors(front, 1, <) (keep_smallest: of the kept candidate m and a new
     contribution c the heap keeps m iff m < c, i.e. the LAST minimal contribution in lexicographic order wins)
     and, without reference point and fewer than 3 points, appendExtremePoints (first sorted point).
     3-D / MD / approximation routines are a Section variable.
   * CrowdingDistance::leastContributor over an abstract carrier: per objective the joint (front ++ archive)
     key/index pairs are sorted (std::sort compares keys only: Section variable `sort`, instance isort = the
     stable insertion sort libstdc++ runs on <= 16 elements), first / last get `keep` if they are front members,
     every interior front member that is not `keep` accumulates (next.key - prev.key)/(last.key - first.key);
     std::min_element at the end. *)
From Coq Require Import List ZArith Lia Bool Arith.
From SharkV Require Import ListAux C13Model C14Model.
Import ListNotations.

(* ------------------------------------------------------------------------------------------ *)
Section OneAtATimeG.
  Context {P : Type}.
  Variable leastContributor : list P -> list P -> nat.

  Fixpoint lc_iter_g (K : nat) (points : list P) (active : list nat) (A : list P) : list nat :=
    match K with
    | 0 => []
    | Datatypes.S K' =>
      let index := leastContributor points A in
      nth index active 0 :: lc_iter_g K' (remove_nth index points) (remove_nth index active) A
    end.

  Definition least_contributors_g (F A : list P) (K : nat) : list nat :=
    lc_iter_g K F (seq 0 (length F)) A.
End OneAtATimeG.

(* std::min_element(first, last) with operator< = ltb: the first element no later one is smaller than *)
Section MinElement.
  Context {T : Type}.
  Variable ltb : T -> T -> bool.
  Fixpoint min_element_from (bi : nat) (b : T) (i : nat) (l : list T) : nat :=
    match l with
    | [] => bi
    | x :: t => if ltb x b then min_element_from i x (Datatypes.S i) t
                else min_element_from bi b (Datatypes.S i) t
    end.
  Definition min_element (l : list T) : nat :=
    match l with [] => 0 | x :: t => min_element_from 0 x 1 t end.
End MinElement.

(* ------------------------------------------------------------------------------------------ *)
(* AdditiveEpsilonIndicator *)
Local Open Scope Z_scope.

(* max(front[j] - front[i]): largest component of the difference vector *)
Definition max_diff (a b : point) : Z :=
  match a, b with
  | x :: a', y :: b' => fold_left Z.max (map (fun p => fst p - snd p) (combine a' b')) (x - y)
  | _, _ => 0
  end.

(* values that start at numeric_limits<double>::max(): None *)
Definition ez_min (a : option Z) (v : Z) : option Z :=
  match a with None => Some v | Some w => Some (Z.min w v) end.          (* std::min(result, v) *)
Definition ez_ltb (a b : option Z) : bool :=
  match a, b with
  | Some x, Some y => x <? y
  | Some _, None => true
  | None, _ => false
  end.

(* inner loop: result = min over j != i of max(front[j]-front[i]) *)
Definition eps_result (F : list point) (i : nat) : option Z :=
  fold_left (fun res j => if (j =? i)%nat then res else ez_min res (max_diff (nth j F []) (nth i F [])))
            (seq 0 (length F)) None.

Definition eps_step (F : list point) (st : nat * option Z) (i : nat) : nat * option Z :=
  let result := eps_result F i in
  if ez_ltb result (snd st) then (i, result) else st.

Definition eps_lc (F A : list point) : nat :=
  fst (fold_left (eps_step F) (seq 0 (length F)) (0%nat, None)).

Definition eps_lcs : list point -> list point -> nat -> list nat := least_contributors eps_lc.

(* ------------------------------------------------------------------------------------------ *)
(* HypervolumeIndicator *)

(* bestContributors(front, 1, <) *)
Definition keep_smallest (best c : Z * nat) : Z * nat :=
  if fst best <? fst c then best else c.
Definition smallest1 (l : list (Z * nat)) : nat :=
  match l with [] => 0%nat | x :: t => snd (fold_left keep_smallest t x) end.

(* HypervolumeContribution2D::smallest(points, 1) without reference point *)
Definition hv2d_noref_lc (F : list point) : nat :=
  if (2 <? length F)%nat then smallest1 (contrib2d_noref F)
  else match sort_lex (indexed F) with (_, i) :: _ => i | [] => 0%nat end.

Section HvIndicator.
  (* index of smallest(points, 1 [, ref])[0] of the 3-D / MD / approximation routines; ref = [] stands for
     the overloads without reference point *)
  Variable other : point -> list point -> nat.

  Definition hv_ind_lc (ref : point) (F A : list point) : nat :=
    match ref with
    | [] => match F with
            | [] => 0%nat
            | p0 :: _ => if (length p0 =? 2)%nat then hv2d_noref_lc F else other [] F
            end
    | _ => if (length ref =? 2)%nat then smallest1 (contrib2d_ref ref F) else other ref F
    end.

  Definition hv_ind_lcs (ref : point) : list point -> list point -> nat -> list nat :=
    least_contributors (hv_ind_lc ref).
End HvIndicator.

Local Close Scope Z_scope.

(* ------------------------------------------------------------------------------------------ *)
(* CrowdingDistance over an abstract carrier *)
Section Crowding.
  Variable T : Type.
  Variables zero keep : T.
  Variables add sub div : T -> T -> T.
  Variables ltb eqb : T -> T -> bool.
  Variable sort : list (T * nat) -> list (T * nat).

  (* order[j] = (front[j][i], j),  order[j+|front|] = (archive[j][i], j+|front|) *)
  Definition cd_keys (i : nat) (F A : list (list T)) : list (T * nat) :=
    combine (map (fun p => nth i p zero) (F ++ A)) (seq 0 (length F + length A)).

  (* for j = 1 .. size-2: the element b between a and c *)
  Fixpoint cd_interior (nF : nat) (normalizer : T) (l : list (T * nat)) (d : list T) : list T :=
    match l with
    | a :: t =>
      match t with
      | b :: c :: _ =>
        let index := snd b in
        let d' := if (nF <=? index) || eqb (nth index d zero) keep then d
                  else upd index (add (nth index d zero) (div (sub (fst c) (fst a)) normalizer)) d in
        cd_interior nF normalizer t d'
      | _ => d
      end
    | [] => d
    end.

  Definition cd_mark (nF : nat) (e : T * nat) (d : list T) : list T :=
    if snd e <? nF then upd (snd e) keep d else d.

  Definition cd_objective (F A : list (list T)) (d : list T) (i : nat) : list T :=
    let order := sort (cd_keys i F A) in
    let first := hd (zero, 0) order in
    let lst := last order (zero, 0) in
    let d1 := cd_mark (length F) first d in
    let d2 := cd_mark (length F) lst d1 in
    cd_interior (length F) (sub (fst lst) (fst first)) order d2.

  Definition cd_distances (F A : list (list T)) : list T :=
    fold_left (cd_objective F A) (seq 0 (length (hd [] F))) (repeat zero (length F)).

  Definition cd_lc (F A : list (list T)) : nat :=
    if length F <? 2 then 0 else min_element ltb (cd_distances F A).

  Definition cd_lcs : list (list T) -> list (list T) -> nat -> list nat := least_contributors_g cd_lc.

  (* libstdc++ insertion sort (what std::sort runs on at most 16 elements): stable *)
  Fixpoint cd_insert (x : T * nat) (l : list (T * nat)) : list (T * nat) :=
    match l with
    | [] => [x]
    | y :: t => if ltb (fst x) (fst y) then x :: l else y :: cd_insert x t
    end.
  Definition cd_isort (l : list (T * nat)) : list (T * nat) :=
    fold_left (fun acc x => cd_insert x acc) l [].
End Crowding.
