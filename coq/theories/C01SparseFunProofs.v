(* C01 — proofs about the functor assignment kernels (vector_assign_functor) of C01SparseModel.v. *)
From Coq Require Import ZArith List Bool Arith Lia.
From SharkV Require Import ListAux C01SparseModel C01SparseMatModel C01SparseProofs.
Import ListNotations.
Open Scope Z_scope.

Definition optz (o : option Z) : Z := match o with Some x => x | None => 0 end.

(* ================= dense <- sparse ================= *)
Lemma d_apply_n_length g d pos n : length (d_apply_n g d pos n) = length d.
Proof. revert d pos; induction n as [|n IH]; intros d pos; simpl; auto. rewrite IH. apply upd_length. Qed.

Lemma d_apply_n_nth g n : forall d pos i, (pos + n <= length d)%nat ->
  nth i (d_apply_n g d pos n) 0 = if (pos <=? i)%nat && (i <? pos + n)%nat then g (nth i d 0) else nth i d 0.
Proof.
  induction n as [|n IH]; intros d pos i L; cbn [d_apply_n].
  - destruct (Nat.leb_spec pos i), (Nat.ltb_spec i (pos + 0)); cbn [andb]; auto; lia.
  - rewrite IH by (rewrite upd_length; lia).
    destruct (Nat.eqb_spec i pos) as [->|N].
    + rewrite nth_upd_eq by lia.
      destruct (Nat.leb_spec (S pos) pos); [lia|]. cbn [andb].
      rewrite Nat.leb_refl. destruct (Nat.ltb_spec pos (pos + S n)); [|lia]. reflexivity.
    + rewrite nth_upd_neq by auto.
      destruct (Nat.leb_spec (S pos) i), (Nat.leb_spec pos i), (Nat.ltb_spec i (S pos + n)), (Nat.ltb_spec i (pos + S n));
        cbn [andb]; auto; lia.
Qed.

Definition ds_expect (f : Z -> Z -> Z) (rzi : bool) (d : dvec) (src : list (nat * Z)) (i : nat) : Z :=
  match lookup i src with
  | Some y => f (nth i d 0) y
  | None => if rzi then nth i d 0 else f (nth i d 0) 0
  end.

Lemma fun_ds_loop_spec f rzi hi : forall src d pos,
  sorted_in pos hi src -> (hi <= length d)%nat -> (pos <= hi)%nat ->
  let r := fun_ds_loop f rzi d pos src in
  length (fst r) = length d /\ (pos <= snd r <= hi)%nat /\
  (forall e, In e src -> (fst e < snd r)%nat) /\
  forall i, nth i (fst r) 0 =
            if (pos <=? i)%nat && (i <? snd r)%nat then ds_expect f rzi d src i else nth i d 0.
Proof.
  induction src as [|[j y] s IH]; intros d pos SS L P; cbv zeta; cbn [fun_ds_loop].
  - cbn [fst snd]. repeat split; auto; try lia; [intros e []|]. intros i.
    destruct (Nat.leb_spec pos i), (Nat.ltb_spec i pos); cbn [andb]; auto; lia.
  - destruct SS as (S1 & S2 & S3).
    match goal with |- context [upd j _ ?X] => set (d1 := X) end.
    assert (L1 : length d1 = length d) by (unfold d1; destruct rzi; auto; apply d_apply_n_length).
    assert (N1 : forall i, nth i d1 0 = if (pos <=? i)%nat && (i <? j)%nat
                                        then (if rzi then nth i d 0 else f (nth i d 0) 0) else nth i d 0).
    { intros i. unfold d1. destruct rzi.
      - destruct (_ && _); reflexivity.
      - rewrite d_apply_n_nth by lia. replace (pos + (j - pos))%nat with j by lia. reflexivity. }
    set (d2 := upd j (f (nth j d1 0) y) d1).
    assert (L2 : length d2 = length d) by (unfold d2; rewrite upd_length; exact L1).
    specialize (IH d2 (Datatypes.S j) S3). rewrite L2 in IH. specialize (IH L ltac:(lia)).
    cbv zeta in IH. destruct IH as (A & B & IN & C).
    split; [exact A|]. split; [lia|]. split.
    { intros e [<-|He]; [cbn [fst]; lia | apply IN; exact He]. }
    intros i. rewrite C. unfold ds_expect. cbn [lookup].
    destruct (Nat.eqb_spec i j) as [->|Nij].
    + (* the stored element itself *)
      destruct (Nat.leb_spec (Datatypes.S j) j); [lia|]. cbn [andb].
      destruct (Nat.leb_spec pos j); [|lia]. destruct (Nat.ltb_spec j (snd (fun_ds_loop f rzi d2 (Datatypes.S j) s))); [|lia].
      cbn [andb]. unfold d2. rewrite nth_upd_eq by lia. rewrite N1.
      destruct (Nat.ltb_spec j j); [lia|]. rewrite andb_false_r. reflexivity.
    + assert (X : nth i d2 0 = nth i d1 0) by (unfold d2; apply nth_upd_neq; auto).
      destruct (Nat.leb_spec (Datatypes.S j) i).
      * (* behind j: the recursive call decides *)
        destruct (Nat.leb_spec pos i); [|lia]. cbn [andb].
        destruct (Nat.ltb_spec i (snd (fun_ds_loop f rzi d2 (Datatypes.S j) s))).
        -- unfold ds_expect. rewrite X, N1.
           destruct (Nat.ltb_spec i j); [lia|]. rewrite andb_false_r. reflexivity.
        -- rewrite X, N1. destruct (Nat.ltb_spec i j); [lia|]. rewrite andb_false_r. reflexivity.
      * (* before j *)
        cbn [andb]. rewrite X, N1.
        assert (LK : lookup i s = None).
        { apply lookup_none. intros e He. pose proof (sorted_in_bounds _ _ _ _ S3 He). lia. }
        rewrite LK.
        destruct (Nat.leb_spec pos i); cbn [andb].
        -- destruct (Nat.ltb_spec i j); [|lia].
           destruct (Nat.ltb_spec i (snd (fun_ds_loop f rzi d2 (Datatypes.S j) s))); [|lia]. reflexivity.
        -- reflexivity.
Qed.

Theorem fun_ds_correct f rzi d e :
  sv_inv e -> length d = sv_size e -> (rzi = true -> forall x, f x 0 = x) ->
  length (k_fun_ds f rzi d e) = length d /\
  forall i, (i < length d)%nat -> dden (k_fun_ds f rzi d e) i = f (dden d i) (sden e i).
Proof.
  intros [Se _] L RZ. unfold k_fun_ds.
  pose proof (fun_ds_loop_spec f rzi (sv_size e) (sv_el e) d 0%nat Se ltac:(lia) ltac:(lia)) as H.
  destruct (fun_ds_loop f rzi d 0 (sv_el e)) as [d1 pos]. cbn [fst snd] in H. destruct H as (A & B & IN & C).
  assert (FIN : forall i, (i < length d)%nat ->
            (if rzi then nth i d1 0 else nth i (d_apply_n (fun x => f x 0) d1 pos (length d - pos)) 0) =
            f (nth i d 0) (sden e i)).
  { intros i Hi. unfold sden.
    assert (E : (if rzi then nth i d1 0 else nth i (d_apply_n (fun x => f x 0) d1 pos (length d - pos)) 0) =
                if (i <? pos)%nat then nth i d1 0 else (if rzi then nth i d1 0 else f (nth i d1 0) 0)).
    { destruct rzi; [destruct (i <? pos)%nat; reflexivity|].
      rewrite d_apply_n_nth by lia. replace (pos + (length d - pos))%nat with (length d) by lia.
      destruct (Nat.leb_spec pos i), (Nat.ltb_spec i (length d)), (Nat.ltb_spec i pos); cbn [andb]; auto; lia. }
    rewrite E, C. cbn [Nat.leb andb]. unfold ds_expect.
    destruct (Nat.ltb_spec i pos).
    - destruct (lookup i (sv_el e)); cbn [optz]; auto. destruct rzi eqn:R; auto. rewrite RZ; auto.
    - assert (LK : lookup i (sv_el e) = None).
      { destruct (lookup i (sv_el e)) eqn:Q; auto. exfalso.
        apply lookup_in in Q. specialize (IN _ Q). cbn [fst] in IN. lia. }
      rewrite LK. destruct rzi eqn:R; auto. rewrite RZ; auto. }
  split.
  - destruct rzi; [exact A|]. rewrite d_apply_n_length. exact A.
  - intros i Hi. unfold dden. specialize (FIN i Hi). destruct rzi; exact FIN.
Qed.

(* ================= capacity bookkeeping of loops over set_element ================= *)
Definition capok (v : svec) : Prop := (sv_nnz v <= sv_cap v)%nat.

Lemma set_element_cap v pre suf idx x :
  sv_el v = pre ++ suf ->
  let v' := fst (sv_set_element v (length pre) idx x) in
  (sv_nnz v <= sv_nnz v')%nat /\ sv_size v' = sv_size v /\
  (capok v -> (sv_nnz v' <= sv_size v)%nat -> capok v').
Proof.
  intros E. cbv zeta. rewrite (set_element_split v pre suf idx x E).
  assert (N : sv_nnz v = (length pre + length suf)%nat) by (unfold sv_nnz; rewrite E, app_length; reflexivity).
  destruct suf as [|[j y] suf'].
  - cbn [fst]. unfold capok, sv_nnz in *. cbn [sv_el sv_size sv_cap]. rewrite app_length in *. cbn [length] in *.
    repeat split; try lia. intros C S. pose proof (grow_cap_ok v). unfold sv_nnz in *. rewrite E, app_length in H. cbn [length] in H. lia.
  - destruct (j =? idx)%nat; cbn [fst]; unfold capok, sv_nnz in *; cbn [sv_el sv_size sv_cap]; rewrite !app_length in *; cbn [length] in *.
    + repeat split; lia.
    + repeat split; try lia. intros C S. pose proof (grow_cap_ok v). unfold sv_nnz in *. rewrite E, app_length in H. cbn [length] in H. lia.
Qed.

Lemma setval_split v pre j x0 suf x :
  sv_el v = pre ++ (j, x0) :: suf ->
  sv_setval v (length pre) x = mkSV (sv_size v) (sv_cap v) (pre ++ (j, x) :: suf) /\
  idx_at (sv_el v) (length pre) = j /\ val_at (sv_el v) (length pre) = x0.
Proof.
  intros E. unfold sv_setval, idx_at, val_at. rewrite E, nth_app_len, firstn_app_len, skipn_S_app_len. auto.
Qed.

(* ================= sparse <- dense ================= *)
Fixpoint sd_spec (f : Z -> Z -> Z) (i : nat) (src : list Z) (suf : list (nat * Z)) : list (nat * Z) :=
  match src with
  | [] => suf
  | y :: s =>
      match suf with
      | (j, x) :: suf' => if (j =? i)%nat then (i, f x y) :: sd_spec f (S i) s suf'
                          else (i, f 0 y) :: sd_spec f (S i) s suf
      | [] => (i, f 0 y) :: sd_spec f (S i) s []
      end
  end.

Lemma fun_sd_loop_spec f : forall src v pre suf i,
  sv_el v = pre ++ suf ->
  let r := fun_sd_loop true f v (length pre) i src in
  sv_el r = pre ++ sd_spec f i src suf /\ sv_size r = sv_size v /\ (sv_nnz v <= sv_nnz r)%nat /\
  (capok v -> (sv_nnz r <= sv_size v)%nat -> capok r).
Proof.
  induction src as [|y s IH]; intros v pre suf i E; cbv zeta; cbn [fun_sd_loop sd_spec].
  - repeat split; auto.
  - destruct suf as [|[j x] suf'].
    + (* append *)
      rewrite E, app_nil_r, Nat.eqb_refl. cbn [orb].
      pose proof (set_element_split v pre [] i (f 0 y) E) as SE. cbn iota in SE.
      pose proof (set_element_cap v pre [] i (f 0 y) E) as SC. cbv zeta in SC.
      destruct (sv_set_element v (length pre) i (f 0 y)) as [v' it'] eqn:Q. inversion SE; subst v' it'. clear SE.
      cbn [fst] in SC. destruct SC as (M & Z1 & CK).
      set (v1 := mkSV (sv_size v) (grow_cap v) (pre ++ [(i, f 0 y)])) in *.
      assert (E1 : sv_el v1 = (pre ++ [(i, f 0 y)]) ++ []) by (rewrite app_nil_r; reflexivity).
      specialize (IH v1 (pre ++ [(i, f 0 y)]) [] (S i) E1). cbv zeta in IH.
      replace (length (pre ++ [(i, f 0 y)])) with (S (length pre)) in IH by (rewrite app_length; simpl; lia).
      destruct IH as (A & B & C & D).
      repeat split.
      * rewrite A, <- app_assoc. reflexivity.
      * rewrite B. reflexivity.
      * lia.
      * intros K1 K2. apply D; [apply CK; auto; lia | exact K2].
    + assert (LN : (length pre =? length (sv_el v))%nat = false).
      { apply Nat.eqb_neq. rewrite E, app_length. simpl. lia. }
      rewrite LN. cbn [orb].
      destruct (setval_split v pre j x suf' (f x y) E) as (SV & IA & VA). rewrite IA, VA.
      destruct (Nat.eqb_spec j i) as [->|N]; cbn [negb].
      * (* the element exists *)
        rewrite SV.
        set (v1 := mkSV (sv_size v) (sv_cap v) (pre ++ (i, f x y) :: suf')) in *.
        assert (E1 : sv_el v1 = (pre ++ [(i, f x y)]) ++ suf') by (rewrite <- app_assoc; reflexivity).
        specialize (IH v1 (pre ++ [(i, f x y)]) suf' (S i) E1). cbv zeta in IH.
        replace (length (pre ++ [(i, f x y)])) with (S (length pre)) in IH by (rewrite app_length; simpl; lia).
        destruct IH as (A & B & C & D).
        assert (NN : sv_nnz v1 = sv_nnz v).
        { unfold sv_nnz, v1. cbn [sv_el]. rewrite E, !app_length. reflexivity. }
        repeat split.
        -- rewrite A, <- app_assoc. reflexivity.
        -- rewrite B. reflexivity.
        -- lia.
        -- intros K1 K2. apply D; [|exact K2]. unfold capok in *. rewrite NN. exact K1.
      * (* insert in front of a larger index *)
        pose proof (set_element_split v pre ((j, x) :: suf') i (f 0 y) E) as SE. cbn iota in SE.
        destruct (Nat.eqb_spec j i) as [|_]; [contradiction|].
        pose proof (set_element_cap v pre ((j, x) :: suf') i (f 0 y) E) as SC. cbv zeta in SC.
        destruct (sv_set_element v (length pre) i (f 0 y)) as [v' it'] eqn:Q. inversion SE; subst v' it'. clear SE.
        cbn [fst] in SC. destruct SC as (M & Z1 & CK).
        set (v1 := mkSV (sv_size v) (grow_cap v) (pre ++ (i, f 0 y) :: (j, x) :: suf')) in *.
        assert (E1 : sv_el v1 = (pre ++ [(i, f 0 y)]) ++ (j, x) :: suf') by (rewrite <- app_assoc; reflexivity).
        specialize (IH v1 (pre ++ [(i, f 0 y)]) ((j, x) :: suf') (S i) E1). cbv zeta in IH.
        replace (length (pre ++ [(i, f 0 y)])) with (S (length pre)) in IH by (rewrite app_length; simpl; lia).
        destruct IH as (A & B & C & D).
        repeat split.
        -- rewrite A, <- app_assoc. reflexivity.
        -- rewrite B. reflexivity.
        -- lia.
        -- intros K1 K2. apply D; [apply CK; auto; lia | exact K2].
Qed.

Lemma sd_spec_sem f hi : forall src i suf,
  sorted_in i hi suf -> (i + length src <= hi)%nat ->
  sorted_in i hi (sd_spec f i src suf) /\
  forall k, lookup k (sd_spec f i src suf) =
            if (i <=? k)%nat && (k <? i + length src)%nat
            then Some (f (optz (lookup k suf)) (nth (k - i) src 0)) else lookup k suf.
Proof.
  induction src as [|y s IH]; intros i suf SS L; cbn [sd_spec length]; cbn [length] in L.
  - split; auto. intros k. destruct (Nat.leb_spec i k), (Nat.ltb_spec k (i + 0)); cbn [andb]; auto; lia.
  - assert (GEN : forall suf' (x : Z), sorted_in (S i) hi suf' -> optz (lookup i suf) = x ->
                  (forall k, k <> i -> lookup k suf' = lookup k suf) ->
                  sorted_in i hi ((i, f x y) :: sd_spec f (S i) s suf') /\
                  forall k, lookup k ((i, f x y) :: sd_spec f (S i) s suf') =
                            if (i <=? k)%nat && (k <? i + S (length s))%nat
                            then Some (f (optz (lookup k suf)) (nth (k - i) (y :: s) 0)) else lookup k suf).
    { intros suf' x S' OX SAME. destruct (IH (S i) suf' S' ltac:(lia)) as (A & B). split.
      - cbn [sorted_in]. repeat split; auto; lia.
      - intros k. cbn [lookup]. destruct (Nat.eqb_spec k i) as [->|N].
        + rewrite Nat.leb_refl. destruct (Nat.ltb_spec i (i + S (length s))); [|lia]. cbn [andb].
          rewrite Nat.sub_diag, OX. reflexivity.
        + rewrite B, (SAME k N).
          destruct (Nat.leb_spec (S i) k), (Nat.leb_spec i k), (Nat.ltb_spec k (S i + length s)),
                   (Nat.ltb_spec k (i + S (length s))); cbn [andb]; auto; try lia.
          replace (k - i)%nat with (S (k - S i)) by lia. reflexivity. }
    destruct suf as [|[j x] suf'].
    + apply GEN; auto; cbn [sorted_in]; auto.
    + destruct SS as (S1 & S2 & S3).
      destruct (Nat.eqb_spec j i) as [->|N].
      * apply GEN; auto.
        -- cbn [lookup]. rewrite Nat.eqb_refl. reflexivity.
        -- intros k Nk. cbn [lookup]. destruct (Nat.eqb_spec k i); [contradiction|reflexivity].
      * apply GEN; auto.
        -- cbn [sorted_in]. repeat split; auto; lia.
        -- cbn [lookup]. destruct (Nat.eqb_spec i j); [lia|].
           rewrite (lookup_none i suf'); auto.
           intros e He. pose proof (sorted_in_bounds _ _ _ _ S3 He). lia.
Qed.

Theorem fun_sd_correct f v e :
  sv_inv v -> sv_size v = length e ->
  let r := k_fun_sd true f v e in
  sv_inv r /\ sv_size r = sv_size v /\
  (forall i, (i < length e)%nat -> stored r i = true /\ sden r i = f (sden v i) (dden e i)).
Proof.
  intros [Sv Cv] Hs. unfold k_fun_sd.
  destruct (fun_sd_loop_spec f e v [] (sv_el v) 0%nat eq_refl) as (A & B & C & D). cbn [length app] in *.
  destruct (sd_spec_sem f (sv_size v) e 0%nat (sv_el v) Sv ltac:(lia)) as (SS & LK).
  cbv zeta. split; [|split].
  - split; [rewrite A, B; exact SS|].
    apply D; [exact Cv|]. unfold sv_nnz. rewrite A. pose proof (sorted_in_length _ _ _ SS). lia.
  - exact B.
  - intros i Hi. unfold stored, sden, dden. rewrite A, LK. cbn [Nat.leb andb].
    destruct (Nat.ltb_spec i (0 + length e)); [|lia]. rewrite Nat.sub_0_r. split; reflexivity.
Qed.

(* ================= sparse <- sparse ================= *)
Lemma merge_el_nil_r f t : merge_el f t [] = map (fun ix => (fst ix, f (snd ix) 0)) t.
Proof. induction t as [|[i x] t IH]; cbn [merge_el map fst snd]; auto. rewrite IH. reflexivity. Qed.

Lemma merge_el_cons f i x t j y s :
  merge_el f ((i, x) :: t) ((j, y) :: s) =
  if (i <? j)%nat then (i, f x 0) :: merge_el f t ((j, y) :: s)
  else if (i =? j)%nat then (i, f x y) :: merge_el f t s
  else (j, f 0 y) :: merge_el f ((i, x) :: t) s.
Proof. destruct s; reflexivity. Qed.

(* the value loop `for(; it != end; ++it) *it = g( *it)` maps the rest of the array *)
Lemma sv_apply_n_spec g : forall suf v pre,
  sv_el v = pre ++ suf ->
  sv_apply_n g v (length pre) (length suf) =
  mkSV (sv_size v) (sv_cap v) (pre ++ map (fun ix => (fst ix, g (snd ix))) suf).
Proof.
  induction suf as [|[j x] suf IH]; intros v pre E; cbn [sv_apply_n length map].
  - rewrite app_nil_r in *. destruct v; cbn in *; subst; reflexivity.
  - destruct (setval_split v pre j x suf (g x) E) as (SV & _ & VA). rewrite VA, SV.
    set (v1 := mkSV (sv_size v) (sv_cap v) (pre ++ (j, g x) :: suf)).
    assert (E1 : sv_el v1 = (pre ++ [(j, g x)]) ++ suf) by (rewrite <- app_assoc; reflexivity).
    specialize (IH v1 (pre ++ [(j, g x)]) E1).
    replace (length (pre ++ [(j, g x)])) with (S (length pre)) in IH by (rewrite app_length; simpl; lia).
    rewrite IH. cbn [sv_size sv_cap v1 fst snd]. rewrite <- app_assoc. reflexivity.
Qed.

Lemma fun_ss_main_spec f : forall fuel v pre suf s,
  sv_el v = pre ++ suf -> (length suf + length s <= fuel)%nat ->
  exists v1 pre1 suf1 s1,
    fun_ss_main fuel f v (length pre) s = (v1, length pre1, s1) /\
    sv_el v1 = pre1 ++ suf1 /\ (suf1 = [] \/ s1 = []) /\
    pre1 ++ merge_el f suf1 s1 = pre ++ merge_el f suf s /\
    sv_size v1 = sv_size v /\ (sv_nnz v <= sv_nnz v1)%nat /\
    (capok v -> (sv_nnz v1 <= sv_size v)%nat -> capok v1).
Proof.
  induction fuel as [|k IH]; intros v pre suf s E F.
  - destruct suf; [|simpl in F; lia]. destruct s; [|simpl in F; lia].
    exists v, pre, [], []. cbn [fun_ss_main]. repeat split; auto.
  - cbn [fun_ss_main]. destruct s as [|[j y] s'].
    { exists v, pre, suf, []. repeat split; auto. }
    destruct suf as [|[i x] suf'].
    { rewrite E, app_nil_r, Nat.eqb_refl. exists v, pre, [], ((j, y) :: s'). rewrite app_nil_r in E. repeat split; auto.
      rewrite E, app_nil_r. reflexivity. }
    assert (LN : (length pre =? length (sv_el v))%nat = false).
    { apply Nat.eqb_neq. rewrite E, app_length. simpl. lia. }
    rewrite LN, merge_el_cons.
    cbn [length] in F.
    destruct (Nat.eqb_spec i j) as [->|NE].
    + (* equal indices *)
      destruct (setval_split v pre j x suf' (f x y) E) as (SV & IA & VA). rewrite IA, VA, Nat.eqb_refl, SV.
      destruct (Nat.ltb_spec j j); [lia|].
      set (v1 := mkSV (sv_size v) (sv_cap v) (pre ++ (j, f x y) :: suf')).
      assert (E1 : sv_el v1 = (pre ++ [(j, f x y)]) ++ suf') by (rewrite <- app_assoc; reflexivity).
      destruct (IH v1 (pre ++ [(j, f x y)]) suf' s' E1 ltac:(lia)) as (v2 & pre2 & suf2 & s2 & R & A & B & C & D & G & K).
      replace (length (pre ++ [(j, f x y)])) with (S (length pre)) in R by (rewrite app_length; simpl; lia).
      exists v2, pre2, suf2, s2.
      assert (NN : sv_nnz v1 = sv_nnz v) by (unfold sv_nnz, v1; cbn [sv_el]; rewrite E, !app_length; reflexivity).
      repeat split; auto.
      * rewrite C, <- app_assoc. reflexivity.
      * lia.
      * intros K1 K2. apply K; auto. unfold capok in *. rewrite NN. exact K1.
    + destruct (Nat.ltb_spec i j) as [LT|GE].
      * (* target index smaller: f(x, 0) *)
        destruct (setval_split v pre i x suf' (f x 0) E) as (SV & IA & VA). rewrite IA, VA, SV.
        destruct (Nat.eqb_spec i j); [contradiction|].
        destruct (Nat.ltb_spec i j); [|lia].
        set (v1 := mkSV (sv_size v) (sv_cap v) (pre ++ (i, f x 0) :: suf')).
        assert (E1 : sv_el v1 = (pre ++ [(i, f x 0)]) ++ suf') by (rewrite <- app_assoc; reflexivity).
        destruct (IH v1 (pre ++ [(i, f x 0)]) suf' ((j, y) :: s') E1 ltac:(cbn [length]; lia))
          as (v2 & pre2 & suf2 & s2 & R & A & B & C & D & G & K).
        replace (length (pre ++ [(i, f x 0)])) with (S (length pre)) in R by (rewrite app_length; simpl; lia).
        exists v2, pre2, suf2, s2.
        assert (NN : sv_nnz v1 = sv_nnz v) by (unfold sv_nnz, v1; cbn [sv_el]; rewrite E, !app_length; reflexivity).
        repeat split; auto.
        -- rewrite C, <- app_assoc. reflexivity.
        -- lia.
        -- intros K1 K2. apply K; auto. unfold capok in *. rewrite NN. exact K1.
      * (* source index smaller: insert f(0, y) *)
        destruct (setval_split v pre i x suf' 0 E) as (_ & IA & _). rewrite IA.
        destruct (Nat.eqb_spec i j); [contradiction|].
        destruct (Nat.ltb_spec i j); [lia|].
        pose proof (set_element_split v pre ((i, x) :: suf') j (f 0 y) E) as SE. cbn iota in SE.
        destruct (Nat.eqb_spec i j); [contradiction|].
        pose proof (set_element_cap v pre ((i, x) :: suf') j (f 0 y) E) as SC. cbv zeta in SC.
        destruct (sv_set_element v (length pre) j (f 0 y)) as [v' it'] eqn:Q. inversion SE; subst v' it'. clear SE.
        cbn [fst] in SC. destruct SC as (M & Z1 & CK).
        set (v1 := mkSV (sv_size v) (grow_cap v) (pre ++ (j, f 0 y) :: (i, x) :: suf')) in *.
        assert (E1 : sv_el v1 = (pre ++ [(j, f 0 y)]) ++ (i, x) :: suf') by (rewrite <- app_assoc; reflexivity).
        destruct (IH v1 (pre ++ [(j, f 0 y)]) ((i, x) :: suf') s' E1 ltac:(cbn [length]; lia))
          as (v2 & pre2 & suf2 & s2 & R & A & B & C & D & G & K).
        replace (length (pre ++ [(j, f 0 y)])) with (S (length pre)) in R by (rewrite app_length; simpl; lia).
        exists v2, pre2, suf2, s2.
        repeat split; auto.
        -- rewrite C, <- app_assoc. reflexivity.
        -- lia.
        -- intros K1 K2. apply K; [apply CK; auto|]; replace (sv_size v1) with (sv_size v) by reflexivity; lia.
Qed.

(* the whole kernel computes the merge of the two element lists *)
Lemma k_fun_ss_elems f v e :
  sv_el (k_fun_ss true f v e) = merge_el f (sv_el v) (sv_el e) /\
  sv_size (k_fun_ss true f v e) = sv_size v /\
  (capok v -> (length (merge_el f (sv_el v) (sv_el e)) <= sv_size v)%nat -> capok (k_fun_ss true f v e)).
Proof.
  unfold k_fun_ss.
  destruct (fun_ss_main_spec f (sv_nnz v + sv_nnz e) v [] (sv_el v) (sv_el e) eq_refl ltac:(unfold sv_nnz; lia))
    as (v1 & pre1 & suf1 & s1 & R & A & B & C & D & G & K).
  cbn [length app] in *. rewrite R.
  assert (N1 : (sv_nnz v1 - length pre1)%nat = length suf1).
  { unfold sv_nnz. rewrite A, app_length. lia. }
  rewrite N1, (sv_apply_n_spec (fun x => f x 0) suf1 v1 pre1 A).
  set (v2 := mkSV (sv_size v1) (sv_cap v1) (pre1 ++ map (fun ix => (fst ix, f (snd ix) 0)) suf1)).
  assert (NN2 : sv_nnz v2 = sv_nnz v1).
  { unfold sv_nnz, v2. cbn [sv_el]. rewrite A, !app_length, map_length. reflexivity. }
  unfold fun_ss_tail.
  destruct (sv_fill_end v2 (map (fun jy => (fst jy, f 0 (snd jy))) s1)) as (FA & FB & _ & FD & _).
  assert (M : merge_el f (sv_el v) (sv_el e) =
              sv_el v2 ++ map (fun jy => (fst jy, f 0 (snd jy))) s1).
  { rewrite <- C. unfold v2. cbn [sv_el]. destruct B as [-> | ->].
    - cbn [map merge_el]. rewrite app_nil_r. reflexivity.
    - rewrite merge_el_nil_r. cbn [map]. rewrite app_nil_r. reflexivity. }
  split; [|split].
  - rewrite FA, M. reflexivity.
  - rewrite FB. unfold v2. cbn [sv_size]. exact D.
  - intros K1 K2. unfold capok. unfold sv_nnz at 1. rewrite FA, app_length. fold (sv_nnz v2).
    assert (LM : (sv_nnz v2 + length (map (fun jy : nat * Z => (fst jy, f 0%Z (snd jy))) s1) <= sv_size v)%nat).
    { rewrite M, app_length in K2. exact K2. }
    apply FD.
    + rewrite NN2. replace (sv_cap v2) with (sv_cap v1) by reflexivity. apply K; auto. lia.
    + replace (sv_size v2) with (sv_size v1) by reflexivity. rewrite D. exact LM.
Qed.

Lemma lookup_map_snd (g : Z -> Z) k l :
  lookup k (map (fun jy : nat * Z => (fst jy, g (snd jy))) l) =
  match lookup k l with Some x => Some (g x) | None => None end.
Proof. induction l as [|[j y] l IH]; cbn [map lookup fst snd]; auto. destruct (k =? j)%nat; auto. Qed.

Lemma sorted_map_snd (g : Z -> Z) hi l : forall lo,
  sorted_in lo hi l -> sorted_in lo hi (map (fun jy : nat * Z => (fst jy, g (snd jy))) l).
Proof.
  induction l as [|[j y] l IH]; intros lo; cbn [map sorted_in fst snd]; auto.
  intros (A & B & C). repeat split; auto.
Qed.

(* meaning of the merge on sorted element lists *)
Lemma merge_el_sem f hi : forall t s lo,
  sorted_in lo hi t -> sorted_in lo hi s ->
  sorted_in lo hi (merge_el f t s) /\
  forall k, lookup k (merge_el f t s) =
            match lookup k t, lookup k s with
            | Some x, Some y => Some (f x y)
            | Some x, None => Some (f x 0)
            | None, Some y => Some (f 0 y)
            | None, None => None
            end.
Proof.
  induction t as [|[i x] t IHt].
  - intros s lo _ Ss. cbn [merge_el lookup]. split.
    + apply sorted_map_snd with (g := fun y => f 0 y). exact Ss.
    + intros k. rewrite (lookup_map_snd (fun y => f 0 y)). destruct (lookup k s); reflexivity.
  - induction s as [|[j y] s IHs]; intros lo St Ss.
    + rewrite merge_el_nil_r. split.
      * apply sorted_map_snd with (g := fun x => f x 0). exact St.
      * intros k. rewrite (lookup_map_snd (fun x => f x 0)). cbn [lookup]. destruct (lookup k ((i, x) :: t)); reflexivity.
    + rewrite merge_el_cons. destruct St as (T1 & T2 & T3). destruct Ss as (S1 & S2 & S3).
      destruct (Nat.ltb_spec i j) as [LT|GE].
      * (* i < j *)
        destruct (IHt ((j, y) :: s) (S i) T3) as (A & B).
        { cbn [sorted_in]. repeat split; auto. }
        split; [cbn [sorted_in]; repeat split; auto|].
        intros k. cbn [lookup]. destruct (Nat.eqb_spec k i) as [->|N].
        -- destruct (Nat.eqb_spec i j); [lia|].
           rewrite (lookup_none i s); auto.
           intros e0 He. pose proof (sorted_in_bounds _ _ _ _ S3 He). lia.
        -- rewrite B. cbn [lookup]. reflexivity.
      * destruct (Nat.eqb_spec i j) as [->|NE].
        -- (* i = j *)
           destruct (IHt s (S j) T3 S3) as (A & B).
           split; [cbn [sorted_in]; repeat split; auto|].
           intros k. cbn [lookup]. destruct (Nat.eqb_spec k j) as [->|N]; auto.
        -- (* j < i *)
           destruct (IHs (S j)) as (A & B).
           { cbn [sorted_in]. repeat split; auto; lia. }
           { exact S3. }
           split; [cbn [sorted_in]; repeat split; auto|].
           intros k. cbn [lookup]. destruct (Nat.eqb_spec k j) as [->|N].
           ++ destruct (Nat.eqb_spec j i); [lia|].
              rewrite (lookup_none j t); auto.
              intros e0 He. pose proof (sorted_in_bounds _ _ _ _ T3 He). lia.
           ++ rewrite B. cbn [lookup]. reflexivity.
Qed.

Theorem fun_ss_correct f v e :
  sv_inv v -> sv_inv e -> sv_size v = sv_size e ->
  let r := k_fun_ss true f v e in
  sv_inv r /\ sv_size r = sv_size v /\
  (forall i, stored r i = stored v i || stored e i) /\
  (forall i, sden r i = if stored v i || stored e i then f (sden v i) (sden e i) else 0) /\
  (f 0 0 = 0 -> forall i, sden r i = f (sden v i) (sden e i)).
Proof.
  intros [Sv Cv] [Se Ce] Hs. cbv zeta.
  destruct (k_fun_ss_elems f v e) as (A & B & C).
  rewrite <- Hs in Se. destruct (merge_el_sem f (sv_size v) (sv_el v) (sv_el e) 0%nat Sv Se) as (SM & LK).
  assert (ST : forall i, stored (k_fun_ss true f v e) i = stored v i || stored e i).
  { intros i. unfold stored. rewrite A, LK. destruct (lookup i (sv_el v)), (lookup i (sv_el e)); reflexivity. }
  assert (DN : forall i, sden (k_fun_ss true f v e) i =
                         if stored v i || stored e i then f (sden v i) (sden e i) else 0).
  { intros i. unfold sden, stored. rewrite A, LK. destruct (lookup i (sv_el v)), (lookup i (sv_el e)); reflexivity. }
  repeat split; auto.
  - rewrite A, B. exact SM.
  - apply C; [exact Cv|]. pose proof (sorted_in_length _ _ _ SM). lia.
  - intros Z0 i. rewrite DN. unfold stored, sden.
    destruct (lookup i (sv_el v)), (lookup i (sv_el e)); cbn [orb]; auto.
Qed.

(* ---------- the kernels before the repairs (fx = false) are refuted by the inputs that exposed them ---------- *)
Definition wit_x : svec := mkSV 6 5 [(1%nat, 5); (3%nat, 7)].
Definition wit_y : svec := mkSV 6 5 [(0%nat, 2); (3%nat, 4); (5%nat, 9)].

Lemma fun_ss_before_repair_refuted :
  sv_inv wit_x /\ sv_inv wit_y /\
  sden (k_fun_ss false Z.add wit_x wit_y) 5 = 0 /\ Z.add (sden wit_x 5) (sden wit_y 5) = 9 /\
  sden (k_fun_ss true Z.add wit_x wit_y) 5 = 9.
Proof. repeat split; try (vm_compute; reflexivity); vm_compute; repeat split; auto; lia. Qed.

Lemma fun_sd_before_repair_refuted :
  sv_inv wit_x /\
  sden (k_fun_sd false Z.mul wit_x [1; 2; 3; 4; 5; 6]) 0 = 1 /\ Z.mul (sden wit_x 0) 1 = 0 /\
  sden (k_fun_sd true Z.mul wit_x [1; 2; 3; 4; 5; 6]) 0 = 0.
Proof. repeat split; try (vm_compute; reflexivity); vm_compute; repeat split; auto; lia. Qed.

(* scalar forms: only stored elements are visited *)
Lemma apply_s_correct g v :
  sv_inv v -> sv_inv (k_apply_s g v) /\
  (forall i, stored (k_apply_s g v) i = stored v i) /\
  (forall i, sden (k_apply_s g v) i = if stored v i then g (sden v i) else 0).
Proof.
  intros [S C]. unfold k_apply_s, sv_inv, sv_nnz, stored, sden. cbn [sv_el sv_size sv_cap].
  pose proof (fun i l => lookup_map_snd g i l) as LK.
  repeat split.
  - apply sorted_map_snd. exact S.
  - rewrite map_length. exact C.
  - intros i. rewrite LK. destruct (lookup i (sv_el v)); reflexivity.
  - intros i. rewrite LK. destruct (lookup i (sv_el v)); reflexivity.
Qed.
