(* C12 — the loops of CVDatasetTools.h / Impl/Dataset.inl as they are written:
   - the construction loop shared by createCVIndexed, createCVFullyIndexed and detail::createCVSameSizeBalanced
     (per-fold batchElements, validationSetStart bookkeeping, newSet.batch(validationSetStart[fold]) = subBatch(view, ..));
   - subBatch through a DataView (subset of the view + createBatch);
   - detail::complement (iota, sort, std::set_difference) used by CVFolds::trainingFoldIndices.
   The constructors built from these loops are what the extracted driver runs next to the C++ for the C12 stream.
   Definitions only; proofs in C12LoopsProofs.v. *)
From Coq Require Import List Arith Bool.
From SharkV Require Import ListAux C03Model C12Model C12Folds.
Import ListNotations.

(* state of the construction loop: validationSetStart, batchElements (per fold), the batches of newSet created so far
   (each as the list of source positions handed to subBatch; not yet created = []) *)
Record cvloop := mkLoop { vstart : list nat; belems : list (list nat); newset : list (list nat) }.

(* one pass through the loop body for (source position, fold):
     batchElements[fold].push_back(src); batchNumber = validationSetStart[fold];
     if (batchElements[fold].size() == batchSizes[batchNumber]) {
        newSet.batch(validationSetStart[fold]) = subBatch(setView, batchElements[fold]);
        batchElements[fold].clear(); ++validationSetStart[fold]; } *)
Definition cv_step (bsizes : list nat) (st : cvloop) (sp : nat * nat) : cvloop :=
  let '(src, part) := sp in
  let be := nth part (belems st) [] ++ [src] in
  let bn := nth part (vstart st) 0 in
  if length be =? nth bn bsizes 0
  then mkLoop (upd part (S bn) (vstart st)) (upd part [] (belems st)) (upd bn be (newset st))
  else mkLoop (vstart st) (upd part be (belems st)) (newset st).

Definition cv_loop (bsizes starts : list nat) (k : nat) (steps : list (nat * nat)) : cvloop :=
  fold_left (cv_step bsizes) steps (mkLoop starts (repeat [] k) (repeat [] (length bsizes))).

(* the (source, fold) sequences of the three constructors *)
Definition steps_indexed (idx : list nat) : list (nat * nat) := combine (seq 0 (length idx)) idx.
Definition steps_fully (first second : list nat) : list (nat * nat) := combine first second.
(* fold = (fold + 1) % numberOfPartitions, started at 0, running on across the classes *)
Definition steps_balanced (members : list (list nat)) (k : nat) : list (nat * nat) :=
  let s := concat members in combine s (map (fun t => t mod k) (seq 0 (length s))).

(* detail::complement(set, n, comp): parentSet = 0..n-1; setCopy = sorted copy; std::set_difference *)
Fixpoint insert_sorted (x : nat) (l : list nat) : list nat :=
  match l with
  | [] => [x]
  | y :: r => if x <=? y then x :: l else y :: insert_sorted x r
  end.
Definition sort_nat (l : list nat) : list nat := fold_right insert_sorted [] l.

(* std::set_difference(first1, last1, first2, last2, out) on sorted ranges (x = element at first1, y = element at first2):
     while first1 != last1: if first2 == last2, copy the rest and stop;
       if x < y then output x and advance first1; else (if not y < x then advance first1); advance first2 *)
Fixpoint set_difference (fuel : nat) (a b : list nat) : list nat :=
  match fuel with
  | 0 => []
  | S f =>
    match a, b with
    | [], _ => []
    | _, [] => a
    | x :: a', y :: b' =>
      if x <? y then x :: set_difference f a' b
      else if y <? x then set_difference f a b'
      else set_difference f a' b'
    end
  end.
Definition complement_sd (idx : list nat) (n : nat) : list nat :=
  set_difference (n + length idx) (seq 0 n) (sort_nat idx).

Section Poly.
Context {A : Type}.
Variable dflt : A.

(* subBatch(view, indices): createBatch(subset(view, indices)) — the elements are read through the index triples *)
Definition sub_batch (d : @data A) (idxs : list nat) : option (list A) :=
  match view_subset (view_of d) idxs with
  | Some v => all_some (map (view_get d) v)
  | None => None
  end.

Definition build_set (d : @data A) (pos_batches : list (list nat)) : option (@data A) :=
  all_some (map (sub_batch d) pos_batches).

(* the three constructors through the loop; CVFolds(set, partitionStart) = folds_from_starts *)
Definition cv_by_loop (steps : list (nat * nat)) (psizes : list nat) (k m : nat) (d : @data A) : option (@cv A) :=
  match batch_partitioning psizes m 0 with
  | None => None
  | Some (starts, bs) =>
    match build_set d (newset (cv_loop bs starts k steps)) with
    | Some d2 => Some (mkCV d2 (folds_from_starts starts (length d2)))
    | None => None
    end
  end.

Definition cv_indexed_loop (idx : list nat) (k m : nat) (d : @data A) : option (@cv A) :=
  if negb (length idx =? nelems d) || negb (forallb (fun i => i <? k) idx) then None else
  (* validationSize[indices[input]]++ *)
  cv_by_loop (steps_indexed idx) (map (count_eq idx) (seq 0 k)) k m d.

Definition cv_fully_indexed_loop (first second : list nat) (k m : nat) (d : @data A) : option (@cv A) :=
  if negb (length first =? nelems d) || negb (length second =? nelems d)
     || negb (forallb (fun i => i <? k) second) || negb (forallb (fun i => i <? nelems d) first) then None else
  cv_by_loop (steps_fully first second) (map (count_eq second) (seq 0 k)) k m d.

Definition cv_balanced_loop (members : list (list nat)) (k m : nat) (d : @data A) : option (@cv A) :=
  let s := concat members in
  if (k =? 0) || negb (length s =? nelems d) || negb (forallb (fun i => i <? nelems d) s) then None else
  cv_by_loop (steps_balanced members k) (val_sizes (nelems d) k) k m d.

(* all constructors as one function of a request, the three loop-built ones through the loops *)
Definition cv_create_loop (r : cv_request) (d : @data A) : option (@cv A) :=
  match r with
  | ReqIndexed idx k m => cv_indexed_loop idx k m d
  | ReqIID draws k m => cv_indexed_loop draws k m d
  | ReqFullyIndexed first second k m => cv_fully_indexed_loop first second k m d
  | ReqBalanced members k m => cv_balanced_loop members k m d
  | _ => cv_create dflt r d
  end.

(* CVFolds::training(i) with trainingFoldIndices computed by detail::complement as written *)
Definition training_sd (c : @cv A) (p : nat) : option (@data A) :=
  indexed_subset (complement_sd (nth p (cv_folds c) []) (length (cv_set c))) (cv_set c).

Context {S : Type}.
Definition scv_create_loop (r : cv_request) (x : sdata A S) : option (scv A S) :=
  match cv_create_loop r (sd_data x) with
  | Some c => Some (mkSCV (mkSD (sd_shape x) (cv_set c)) (cv_folds c))
  | None => None
  end.
Definition s_training_sd (c : scv A S) (p : nat) : option (sdata A S) :=
  s_indexed_subset (complement_sd (nth p (scv_folds c) []) (length (sd_data (scv_set c)))) (scv_set c).

End Poly.
