(* C14 — proofs about the variation / mating-selection models of C14Var.v (axiom-free; rational instance).
     * SimulatedBinaryCrossover, PolynomialMutator: for EVERY sequence of draws, every std::pow / std::abs
       (arbitrary functions), every crossover probability and distribution index: children of parents inside
       the box [lower, upper] lie inside the box; a coordinate the operators recompute lies inside the box even
       if the parent's coordinate did not (the clipping "from Deb's implementation");
     * TournamentSelection<RankOrdering>: the result is one of the drawn individuals and no drawn individual has a
       smaller rank (the first drawn one among those of least rank);
     * ElitistSelection: exactly mu individuals are selected and no unselected individual precedes a selected one in
       the ordering, for every sort routine returning a key-ordered permutation. *)
From Coq Require Import List Arith Bool Lia ZArith QArith Qabs Permutation Sorted Lqa.
From SharkV Require Import ListAux C14Model C14Proofs C14Var C14CrowdProofs.
Import ListNotations.
Close Scope Q_scope.

Fixpoint in_box (lower upper p : list Q) : Prop :=
  match p, lower, upper with
  | x :: p', lo :: l', hi :: u' => (lo <= x)%Q /\ (x <= hi)%Q /\ in_box l' u' p'
  | [], [], [] => True
  | _, _, _ => False
  end.

Fixpoint box_ok (lower upper : list Q) : Prop :=
  match lower, upper with
  | lo :: l', hi :: u' => (lo <= hi)%Q /\ box_ok l' u'
  | [], [] => True
  | _, _ => False
  end.

Section VarQ.
  Variables two half tol nexpp iexpp nm1 inm1 : Q.
  Variable abs : Q -> Q.
  Variable pow : Q -> Q -> Q.
  (* the division is an ARBITRARY function in these theorems: they do not lean on Q's total division (x/0 = 0).
     Before /repo commit c8cdcf67 the rational instance of PolynomialMutator evaluated 0/0 = 0 on a degenerate
     coordinate and the clipping made the statement true, while the C++ produced 0/0 = NaN, which the clipping does
     not catch: the Q-model hid the defect.  The repaired code (and this model) takes an explicit branch there
     (pm_degenerate_coordinate_unchanged), and tools/c14.py checks finiteness on the C++ output independently. *)
  Variable dv : Q -> Q -> Q.

  Notation smaxq := (smax Q qltb).
  Notation sminq := (smin Q qltb).
  Notation sbxc := (sbx_coord Q 0%Q 1%Q two half tol Qplus Qminus Qmult dv abs pow qltb nexpp iexpp).
  Notation sbxq := (sbx Q 0%Q 1%Q two half tol Qplus Qminus Qmult dv abs pow qltb nexpp iexpp).
  Notation pmc := (pm_coord Q 0%Q 1%Q two half Qplus Qminus Qmult dv pow qltb nm1 inm1 Qeq_bool).
  Notation pmq := (pm Q 0%Q 1%Q two half Qplus Qminus Qmult dv pow qltb nm1 inm1 Qeq_bool).

  Lemma clip_in (lo hi p : Q) : (lo <= hi)%Q -> (lo <= sminq (smaxq p lo) hi)%Q /\ (sminq (smaxq p lo) hi <= hi)%Q.
  Proof.
    intros H. unfold smin, smax.
    destruct (qltb p lo) eqn:C1.
    - destruct (qltb hi lo) eqn:C2; [apply qltb_true in C2; lra|]. split; lra.
    - apply qltb_false in C1. destruct (qltb hi p) eqn:C2.
      + split; lra.
      + apply qltb_false in C2. split; lra.
  Qed.

  (* one coordinate of the crossover: each child coordinate is the parent's or a clipped value *)
  Lemma sbx_coord_cases prob lo hi x1 x2 us :
    let r := sbxc prob lo hi x1 x2 us in
    (fst (fst r) = x1 /\ snd (fst r) = x2) \/
    (exists a b, fst (fst r) = sminq (smaxq a lo) hi /\ snd (fst r) = sminq (smaxq b lo) hi).
  Proof.
    cbn zeta. unfold sbx_coord, draw. cbn [fst snd].
    destruct (negb (qltb (hd 0%Q us) prob)); [left; auto|].
    destruct (qltb (abs _) tol); [left; auto|]. right. eexists. eexists. cbn [fst snd]. split; reflexivity.
  Qed.

  Lemma sbx_coord_in_box prob lo hi x1 x2 us : (lo <= hi)%Q ->
    (lo <= x1 <= hi)%Q -> (lo <= x2 <= hi)%Q ->
    let r := sbxc prob lo hi x1 x2 us in
    (lo <= fst (fst r) <= hi)%Q /\ (lo <= snd (fst r) <= hi)%Q.
  Proof.
    intros H H1 H2. cbn zeta. destruct (sbx_coord_cases prob lo hi x1 x2 us) as [[-> ->]|[a [b [-> ->]]]]; auto.
    split; apply clip_in; auto.
  Qed.

  Theorem sbx_in_box prob : forall lower upper p1 p2 us,
    box_ok lower upper -> in_box lower upper p1 -> in_box lower upper p2 ->
    let r := sbxq prob lower upper p1 p2 us in
    in_box lower upper (fst (fst r)) /\ in_box lower upper (snd (fst r)).
  Proof.
    induction lower as [|lo lower IH]; intros upper p1 p2 us HB H1 H2; cbn zeta.
    - destruct upper; [|destruct HB]. destruct p1, p2; simpl in *; tauto.
    - destruct upper as [|hi upper]; [destruct HB|]. destruct HB as [Hlh HB].
      destruct p1 as [|x1 p1]; [destruct H1|]. destruct p2 as [|x2 p2]; [destruct H2|].
      destruct H1 as [A1 [B1 H1]]. destruct H2 as [A2 [B2 H2]].
      cbn [sbx].
      pose proof (sbx_coord_in_box prob lo hi x1 x2 us Hlh (conj A1 B1) (conj A2 B2)) as C. cbn zeta in C.
      destruct (sbxc prob lo hi x1 x2 us) as [[c1 c2] us']. cbn [fst snd] in C.
      specialize (IH upper p1 p2 us' HB H1 H2). cbn zeta in IH.
      destruct (sbxq prob lower upper p1 p2 us') as [[r1 r2] us'']. cbn [fst snd] in *.
      destruct C as [[C1 C2] [C3 C4]]. destruct IH as [I1 I2]. repeat split; auto.
  Qed.

  (* the coordinates that are recomputed are clipped: inside the box whatever the parents were *)
  Theorem sbx_recomputed_coordinate_in_box prob lo hi x1 x2 us : (lo <= hi)%Q ->
    let r := sbxc prob lo hi x1 x2 us in
    (fst (fst r) = x1 /\ snd (fst r) = x2) \/
    ((lo <= fst (fst r) <= hi)%Q /\ (lo <= snd (fst r) <= hi)%Q).
  Proof.
    intros H. cbn zeta. destruct (sbx_coord_cases prob lo hi x1 x2 us) as [E|[a [b [-> ->]]]]; [left; auto|right].
    split; apply clip_in; auto.
  Qed.

  (* ---- polynomial mutation *)
  Lemma pm_coord_in_box prob lo hi x us : (lo <= hi)%Q -> (lo <= x <= hi)%Q ->
    (lo <= fst (pmc prob lo hi x us) <= hi)%Q.
  Proof.
    intros H Hx. unfold pm_coord, draw. cbn [fst snd].
    destruct (qltb (hd 0%Q us) prob); [|cbn [fst]; auto].
    destruct (qltb x lo) eqn:C1; [apply qltb_true in C1; lra|].
    destruct (qltb hi x) eqn:C2; [apply qltb_true in C2; lra|]. cbn [orb].
    destruct (Qeq_bool hi lo); [cbn [fst]; auto|]. cbn [fst].
    match goal with |- context [if qltb ?y lo then lo else ?y] => set (yy := y) end.
    destruct (qltb yy lo) eqn:D1.
    - destruct (qltb hi lo) eqn:D2; [apply qltb_true in D2; lra|]. lra.
    - apply qltb_false in D1. destruct (qltb hi yy) eqn:D2; [lra|]. apply qltb_false in D2. lra.
  Qed.

  (* a mutated coordinate (coin toss true) lies in the box even if the parent's did not, for draws in [0,1] *)
  Theorem pm_mutated_coordinate_in_box prob lo hi x us : (lo <= hi)%Q ->
    qltb (hd 0%Q us) prob = true -> (0 <= hd 0%Q (tl us) <= 1)%Q ->
    (lo <= fst (pmc prob lo hi x us) <= hi)%Q.
  Proof.
    intros H HC HU. unfold pm_coord, draw. cbn [fst snd]. rewrite HC.
    destruct (qltb x lo || qltb hi x) eqn:OUT.
    - cbn [fst]. unfold uni. set (u := hd 0%Q (tl us)) in *. nra.
    - apply orb_false_iff in OUT. destruct OUT as [O1 O2]. apply qltb_false in O1, O2.
      destruct (Qeq_bool hi lo); [cbn [fst]; lra|]. cbn [fst].
      match goal with |- context [if qltb ?y lo then lo else ?y] => set (yy := y) end.
      destruct (qltb yy lo) eqn:D1.
      + destruct (qltb hi lo) eqn:D2; [apply qltb_true in D2; lra|]. lra.
      + apply qltb_false in D1. destruct (qltb hi yy) eqn:D2; [lra|]. apply qltb_false in D2. lra.
  Qed.

  (* the explicit branch of the repaired code: a coordinate with upper == lower that is in range keeps its value and
     consumes exactly the one draw of the coin toss -- no quotient by the width is formed *)
  Theorem pm_degenerate_coordinate_unchanged prob lo hi x us : (lo == hi)%Q -> (lo <= x <= hi)%Q ->
    pmc prob lo hi x us = (x, tl us).
  Proof.
    intros E Hx. unfold pm_coord, draw. cbn [fst snd].
    destruct (qltb (hd 0%Q us) prob); [|reflexivity].
    destruct (qltb x lo) eqn:C1; [apply qltb_true in C1; lra|].
    destruct (qltb hi x) eqn:C2; [apply qltb_true in C2; lra|]. cbn [orb].
    assert (EB : Qeq_bool hi lo = true) by (apply Qeq_eq_bool; lra). now rewrite EB.
  Qed.

  (* whenever the mutation formulas (the only place that divides) are evaluated, the width is not zero *)
  Theorem pm_formula_branch_has_positive_width prob lo hi x us : (lo <= hi)%Q ->
    qltb (hd 0%Q us) prob = true -> (qltb x lo || qltb hi x) = false ->
    snd (pmc prob lo hi x us) <> tl us -> (0 < hi - lo)%Q.
  Proof.
    intros H HC OUT. unfold pm_coord, draw. cbn [fst snd]. rewrite HC, OUT.
    destruct (Qeq_bool hi lo) eqn:EB; [cbn [snd]; congruence|]. intros _.
    apply Qeq_bool_neq in EB. lra.
  Qed.

  Theorem pm_in_box prob : forall lower upper p us,
    box_ok lower upper -> in_box lower upper p -> in_box lower upper (fst (pmq prob lower upper p us)).
  Proof.
    clear abs tol nexpp iexpp.
    induction lower as [|lo lower IH]; intros upper p us HB H.
    - destruct upper; [|destruct HB]. destruct p; simpl in *; tauto.
    - destruct upper as [|hi upper]; [destruct HB|]. destruct HB as [Hlh HB].
      destruct p as [|x p]; [destruct H|]. destruct H as [A1 [B1 H]].
      cbn [pm].
      pose proof (pm_coord_in_box prob lo hi x us Hlh (conj A1 B1)) as C.
      destruct (pmc prob lo hi x us) as [c us']. cbn [fst] in C.
      specialize (IH upper p us' HB H).
      destruct (pmq prob lower upper p us') as [r us'']. cbn [fst] in *.
      destruct C. repeat split; auto.
  Qed.
End VarQ.

(* ------------------------------------------------------------------------------------------ *)
(* TournamentSelection<RankOrdering> *)
Lemma tournament_fold (key : nat -> nat) : forall rest d0,
  let r := fold_left (fun res d => if key d <? key res then d else res) rest d0 in
  In r (d0 :: rest) /\ forall d, In d (d0 :: rest) -> key r <= key d.
Proof.
  induction rest as [|a rest IH]; intros d0; cbn zeta; cbn [fold_left].
  - split; [left; auto|]. intros d [<-|[]]. lia.
  - destruct (IH (if key a <? key d0 then a else d0)) as [I M]. split.
    + destruct I as [E|I]; [|right; right; auto]. rewrite <- E. destruct (key a <? key d0); simpl; auto.
    + intros d [<-|[<-|Hd]].
      * specialize (M _ (or_introl eq_refl)). destruct (Nat.ltb_spec (key a) (key d0)); lia.
      * specialize (M _ (or_introl eq_refl)). destruct (Nat.ltb_spec (key a) (key d0)); lia.
      * apply M. right. auto.
Qed.

Theorem tournament_spec (key : nat -> nat) (drawn : list nat) : drawn <> [] ->
  let r := tournament (fun i j => key i <? key j) drawn in
  In r drawn /\ forall d, In d drawn -> key r <= key d.
Proof.
  destruct drawn as [|d0 rest]; [congruence|]. intros _. apply tournament_fold.
Qed.

(* ------------------------------------------------------------------------------------------ *)
(* ElitistSelection *)
Lemma nth_set_all l : forall s i,
  nth i (fold_left (fun s i => upd i true s) l s) false = (existsb (Nat.eqb i) l && (i <? length s)) || nth i s false.
Proof.
  induction l as [|k l IH]; intros s i; cbn [fold_left existsb]; [reflexivity|].
  rewrite IH, upd_length, nth_upd.
  destruct (Nat.eqb_spec k i) as [->|N].
  - rewrite Nat.eqb_refl. cbn [orb andb]. destruct (i <? length s); cbn [andb]; [now rewrite orb_true_r|].
    now rewrite andb_false_r.
  - destruct (Nat.eqb_spec i k); [congruence|]. reflexivity.
Qed.

Lemma nodup_app_l {A} (l1 l2 : list A) : NoDup (l1 ++ l2) -> NoDup l1.
Proof.
  induction l1 as [|x l1 IH]; intros H; [constructor|]. simpl in H. inversion H as [|? ? NI ND]; subst.
  constructor; auto. intros Hx. apply NI, in_or_app. auto.
Qed.

Section ElitistProofs.
  Variable key : nat -> nat.
  Variable sort : list nat -> list nat.
  Hypothesis sort_perm : forall l, Permutation (sort l) l.
  Hypothesis sort_sorted : forall l, StronglySorted (fun a b => key a <= key b) (sort l).

  Lemma elitist_nth n mu i : i < n ->
    nth i (elitist sort n mu) false = existsb (Nat.eqb i) (firstn mu (sort (seq 0 n))).
  Proof.
    intros Hi. unfold elitist. set (order := sort (seq 0 n)).
    change (fold_left (fun s i => upd i false s) (skipn mu order)) with (unset_all (skipn mu order)).
    rewrite nth_unset_all, nth_set_all, repeat_length.
    destruct (Nat.ltb_spec i n); [|lia]. rewrite andb_true_r.
    assert (NF : nth i (repeat false n) false = false) by (destruct (Nat.lt_ge_cases i n); [apply nth_repeat|apply nth_overflow; rewrite repeat_length; lia]).
    rewrite NF, orb_false_r.
    destruct (existsb (Nat.eqb i) (firstn mu order)) eqn:E1; [|now rewrite andb_false_r].
    rewrite andb_true_r.
    destruct (existsb (Nat.eqb i) (skipn mu order)) eqn:E2; auto. exfalso.
    apply existsb_exists in E1, E2. destruct E1 as [a [Ha Ea]]. destruct E2 as [b [Hb Eb]].
    apply Nat.eqb_eq in Ea, Eb. subst a b.
    assert (ND : NoDup order) by (eapply Permutation_NoDup; [apply Permutation_sym, sort_perm|apply seq_NoDup]).
    rewrite <- (firstn_skipn mu order) in ND. revert ND Ha Hb. generalize (firstn mu order), (skipn mu order). intros l1 l2 ND Ha Hb.
    induction l1 as [|x l1 IH]; [destruct Ha|]. simpl in ND. inversion ND as [|? ? NI ND']; subst.
    destruct Ha as [->|Ha]; [apply NI, in_or_app; auto|auto].
  Qed.

  Theorem elitist_spec n mu : mu <= n ->
    let sel := elitist sort n mu in
    length sel = n /\ count_true sel = mu /\
    forall i j, i < n -> j < n -> nth i sel false = true -> nth j sel false = false -> key i <= key j.
  Proof.
    intros Hmu. cbn zeta. set (order := sort (seq 0 n)).
    assert (PO : Permutation order (seq 0 n)) by apply sort_perm.
    assert (LO : length order = n) by (rewrite (Permutation_length PO); apply seq_length).
    assert (ND : NoDup order) by (eapply Permutation_NoDup; [apply Permutation_sym, PO|apply seq_NoDup]).
    assert (LS : length (elitist sort n mu) = n).
    { unfold elitist. fold order.
      change (fold_left (fun s i => upd i false s) (skipn mu order)) with (unset_all (skipn mu order)).
      rewrite unset_all_length.
      assert (G : forall l s, length (fold_left (fun s i => upd i true s) l s) = length s).
      { induction l as [|a l IH]; intros s; simpl; auto. now rewrite IH, upd_length. }
      rewrite G. apply repeat_length. }
    split; [exact LS|]. split.
    - (* the selected positions are exactly the first mu of the order *)
      assert (E : elitist sort n mu = map (fun i => existsb (Nat.eqb i) (firstn mu order)) (seq 0 n)).
      { apply (nth_ext _ _ false false); [now rewrite LS, map_length, seq_length|].
        intros i Hi. rewrite LS in Hi. rewrite elitist_nth by auto. fold order.
        rewrite (nth_indep _ false ((fun i => existsb (Nat.eqb i) (firstn mu order)) 0)) by (now rewrite map_length, seq_length).
        rewrite (map_nth (fun i => existsb (Nat.eqb i) (firstn mu order))). now rewrite seq_nth. }
      rewrite E, count_true_map.
      assert (PF : Permutation (filter (fun i => existsb (Nat.eqb i) (firstn mu order)) (seq 0 n)) (firstn mu order)).
      { apply NoDup_Permutation.
        - apply NoDup_filter, seq_NoDup.
        - assert (ND' : NoDup (firstn mu order ++ skipn mu order)) by (rewrite firstn_skipn; exact ND).
          now apply nodup_app_l in ND'.
        - intros x. rewrite filter_In, existsb_exists. split.
          + intros [_ [y [Hy Ey]]]. apply Nat.eqb_eq in Ey. rewrite Ey. exact Hy.
          + intros Hx. split.
            * apply (Permutation_in _ PO). rewrite <- (firstn_skipn mu order). apply in_or_app. left. exact Hx.
            * exists x. split; auto. apply Nat.eqb_refl. }
      rewrite (Permutation_length PF), firstn_length. lia.
    - intros i j Hi Hj Si Sj. rewrite elitist_nth in Si, Sj by auto. fold order in Si, Sj.
      apply existsb_exists in Si. destruct Si as [a [Ha Ea]]. apply Nat.eqb_eq in Ea. rewrite <- Ea in Ha. clear Ea a.
      assert (Hjs : In j (skipn mu order)).
      { assert (In j order) as Hjo by (apply (Permutation_in _ (Permutation_sym PO)), in_seq; lia).
        assert (Hjo' : In j (firstn mu order ++ skipn mu order)) by (rewrite firstn_skipn; exact Hjo).
        clear Hjo. rename Hjo' into Hjo. apply in_app_or in Hjo. destruct Hjo as [Hjf|]; auto.
        exfalso. assert (existsb (Nat.eqb j) (firstn mu order) = true); [|congruence].
        apply existsb_exists. exists j. split; auto. apply Nat.eqb_refl. }
      assert (SS : StronglySorted (fun a b => key a <= key b) (firstn mu order ++ skipn mu order))
        by (rewrite firstn_skipn; apply sort_sorted).
      revert SS Ha Hjs. generalize (firstn mu order), (skipn mu order). intros l1 l2 SS Ha Hjs.
      clear - SS Ha Hjs.
      induction l1 as [|x l1 IH]; [destruct Ha|]. simpl in SS. inversion SS as [|? ? SS' FA]; subst.
      destruct Ha as [->|Ha]; auto. rewrite Forall_forall in FA. apply FA. apply in_or_app. auto.
  Qed.
End ElitistProofs.

(* the model's insertion sort of positions is a key-ordered permutation *)
Lemma pos_insert_perm key x l : Permutation (pos_insert key x l) (x :: l).
Proof.
  induction l as [|y l IH]; simpl; auto. destruct (key x <? key y); auto. rewrite IH. apply perm_swap.
Qed.
Lemma pos_isort_perm key l : Permutation (pos_isort key l) l.
Proof.
  unfold pos_isort.
  assert (G : forall acc, Permutation (fold_left (fun acc x => pos_insert key x acc) l acc) (l ++ acc)).
  { induction l as [|x l IH]; intros acc; simpl; auto.
    rewrite IH. rewrite pos_insert_perm. symmetry. apply Permutation_middle. }
  rewrite G. now rewrite app_nil_r.
Qed.
Lemma pos_insert_sorted key x l : StronglySorted (fun a b => key a <= key b) l ->
  StronglySorted (fun a b => key a <= key b) (pos_insert key x l).
Proof.
  induction l as [|y l IH]; intros SS; simpl; [repeat constructor|].
  inversion SS as [|? ? SS' FA]; subst. destruct (Nat.ltb_spec (key x) (key y)).
  - constructor; auto. constructor; [lia|]. rewrite Forall_forall in *. intros z Hz. specialize (FA z Hz). lia.
  - constructor; auto. rewrite Forall_forall in *. intros z Hz.
    apply (Permutation_in _ (pos_insert_perm key x l)) in Hz. destruct Hz as [<-|Hz]; auto.
Qed.
Lemma pos_isort_sorted key l : StronglySorted (fun a b => key a <= key b) (pos_isort key l).
Proof.
  unfold pos_isort.
  assert (G : forall acc, StronglySorted (fun a b => key a <= key b) acc ->
              StronglySorted (fun a b => key a <= key b) (fold_left (fun acc x => pos_insert key x acc) l acc)).
  { induction l as [|x l IH]; intros acc SS; simpl; auto. apply IH. now apply pos_insert_sorted. }
  apply G. constructor.
Qed.

(* ------------------------------------------------------------------------------------------ *)
(* satisfiability / worked values (pow := first argument, abs := Qabs: the theorems hold for any such functions) *)
Example variation_example :
  let lower := [0; 0]%Q in let upper := [1; 1]%Q in
  box_ok lower upper /\ in_box lower upper [1 # 4; 1 # 2]%Q /\ in_box lower upper [3 # 4; 1 # 2]%Q /\
  (let r := sbx Q 0%Q 1%Q 2%Q (1 # 2)%Q (1 # 10000000)%Q Qplus Qminus Qmult Qdiv Qabs (fun x _ => x) qltb (-21)%Q (1 # 21)%Q
              1%Q lower upper [1 # 4; 1 # 2]%Q [3 # 4; 1 # 2]%Q [1 # 2; 1 # 4; 3 # 4; 1 # 8]%Q in
   in_box lower upper (fst (fst r)) /\ in_box lower upper (snd (fst r)) /\ length (snd r) = 0) /\
  tournament (fun i j => nth i [3; 1; 2; 1; 5] 0 <? nth j [3; 1; 2; 1; 5] 0) [0; 3; 1] = 3 /\
  elitist (pos_isort (fun i => nth i [3; 1; 2; 1; 5] 0)) 5 2 = [false; true; false; true; false].
Proof.
  cbv zeta. repeat split; try (vm_compute; (reflexivity || discriminate)).
Qed.
