(* C02 — semi-definite solver over Qc: a concrete rank-deficient run (A = 1 1^T of size 4, rank 1) showing that the hypotheses
   of the theorems of C02SemiProofs.v are satisfiable: pstrf returns rank 1 with an exact square root on the pivot met,
   potrf of L^T L succeeds with an exact square root (sqrt_exact_lower), the solve returns, and the result is the
   least-squares solution of minimal norm. *)
From Coq Require Import QArith Qcanon List Lia.
From SharkV Require Import C02Model C02Proofs C02BlkModel C02Q C02QProofs C02PstrfModel C02PstrfProofs C02PstrfQProofs C02SemiModel C02SemiProofs.
Import ListNotations.

Definition ex_ones : mat Qc := of_rows Qc ps_F (repeat (repeat (qc_make 1 1) 4) 4).
Definition ex_semi_b : vec Qc := of_list Qc ps_F [qc_make 4 1; Q2Qc 0; Q2Qc 0; Q2Qc 0].
Definition ex_semi_run := pstrf_full Qc ps_F qc_abs 20 4 ps_epsm ex_ones.
Definition ex_semi_L : mat Qc := snd (fst (fst ex_semi_run)).
Definition ex_semi_G : mat Qc := semi_gram Qc ps_F 4 1 ex_semi_L.

Example ex_semi_pstrf : fst (fst (fst ex_semi_run)) = 1%nat /\ qc_eq_list (snd ex_semi_run) [qc_make 1 1] = true /\
  qc_eq_list (tab Qc 4 (fun i => ex_semi_L i 0%nat)) [qc_make 1 1; qc_make 1 1; qc_make 1 1; qc_make 1 1] = true.
Proof. vm_compute. repeat split; reflexivity. Qed.
Example ex_semi_sq_ok : sq_ok Qc ps_F (snd ex_semi_run).
Proof.
  destruct ex_semi_pstrf as [_ [H _]]. apply qc_eq_list_eq in H. rewrite H.
  repeat constructor; apply Qc_is_canon; vm_compute; reflexivity.
Qed.
Example ex_semi_potrf :
  match potrf_rec Qc ps_F 32 32 1 1 0 1 ex_semi_G with BOk _ Lc => qc_eqb (Lc 0 0)%nat (qc_make 2 1) = true | _ => False end.
Proof. vm_compute. reflexivity. Qed.
Example ex_semi_sqrt_exact : sqrt_exact_lower Qc ps_F 1 1 ex_semi_G.
Proof.
  intros j L Hj H _. destruct j as [|j]; [|lia].
  cbn [potrf_lower] in H. inversion H; subst L. apply Qc_is_canon. vm_compute. reflexivity.
Qed.
Example ex_semi_solve :
  match semi_solve Qc ps_F qc_abs 20 32 32 RowMajor 4 ps_epsm ex_ones ex_semi_b with
  | Some x => qc_eq_list (tab Qc 4 x) [qc_make 1 4; qc_make 1 4; qc_make 1 4; qc_make 1 4] = true
  | None => False
  end.
Proof. vm_compute. reflexivity. Qed.

Lemma ex_semi_hypotheses_satisfiable :
  fst (fst (fst ex_semi_run)) = 1%nat /\ sq_ok Qc ps_F (snd ex_semi_run) /\
  (exists Lc, potrf_rec Qc ps_F 32 32 1 1 0 1 ex_semi_G = BOk Qc Lc) /\ sqrt_exact_lower Qc ps_F 1 1 ex_semi_G /\
  (exists x, semi_solve Qc ps_F qc_abs 20 32 32 RowMajor 4 ps_epsm ex_ones ex_semi_b = Some x).
Proof.
  split; [exact (proj1 ex_semi_pstrf)|]. split; [exact ex_semi_sq_ok|]. split; [|split; [exact ex_semi_sqrt_exact|]].
  - pose proof ex_semi_potrf as H. destruct (potrf_rec Qc ps_F 32 32 1 1 0 1 ex_semi_G) as [Lc| |]; [eauto|contradiction|contradiction].
  - pose proof ex_semi_solve as H. destruct (semi_solve Qc ps_F qc_abs 20 32 32 RowMajor 4 ps_epsm ex_ones ex_semi_b) as [x|]; [eauto|contradiction].
Qed.
