(* C05 — GaussianTaskKernel / MultiTaskKernel (model C05Task.v) are positive semi-definite over the real numbers.
   LimClos P: the closure of the kernels with finite non-negative feature maps under point-wise sequential limits (an
   inductive class; LimRepOn of C05GaussReal.v is its first level).  It is closed under sums, products, non-negative
   scaling, rescaling f(x) k(x,z) f(z), pull-backs, the mean over point sets, and under k |-> exp(c k), c >= 0
   (Taylor sums + products), hence under "Gaussian kernel in the feature space of k":
   exp(-g (k(x,x) + k(z,z) - 2 k(x,z))).  Every member is positive semi-definite.
   GaussianTaskKernel's table is that construction applied to the mean-embedding kernel of the input kernel, pulled back
   along task |-> examples of the task; MultiTaskKernel is a product of two pull-backs.
   Axioms: those of Coq's real numbers only. *)
From Coq Require Import List Arith Bool Lia Reals Lra.
From SharkV Require Import C03Model C05Model C05Proofs C05Aux C05PointSetProofs C05GaussReal C05Expr C05ExprProofs C05Task.
Import ListNotations.

(* ------------------------------------------------------------------ any ordered field: mean over point sets, empty sets allowed *)
Section PSet0.
Variable A : Type.
Variables (zero one : A) (add mul sub div : A -> A -> A) (opp inv : A -> A) (le : A -> A -> Prop).
Hypothesis OF : OrdField zero one add mul sub div opp inv le.
Definition FT6 := of_field _ _ _ _ _ _ _ _ _ OF.
Add Field Fts : FT6.
Notation lsumA := (lsum A zero add).
Notation ofnatA := (ofnat A zero one add).
Notation vec := (list A).
Notation GRep := (GramRepOn A zero add mul le).

Definition PSet0Dom (P : vec -> Prop) (S : list vec) : Prop := Forall P S /\ (S = [] \/ ofnatA (length S) <> zero).

Lemma lsum_zero_terms {T} (f : T -> A) l : (forall t, f t = zero) -> lsumA (map f l) = zero.
Proof. intros H. induction l; simpl; auto. rewrite H, IHl. ring. Qed.

Theorem gramrep_pset0 (P : vec -> Prop) (k : vec -> vec -> A) :
  GRep vec P k -> GRep (list vec) (PSet0Dom P) (k_pset0 A zero one add mul div k).
Proof.
  intros (fs & W & E).
  exists (map (fun wf => (fst wf, fun S : list vec =>
            match S with [] => zero | _ => mul (lsumA (map (snd wf) S)) (inv (ofnatA (length S))) end)) fs). split.
  - rewrite Forall_forall in *. intros wf Hwf. apply in_map_iff in Hwf. destruct Hwf as (w & <- & Hw). simpl. auto.
  - intros S T [HS NS] [HT NT]. unfold frep. rewrite map_map. cbn [fst snd].
    destruct S as [|x S]; [|destruct T as [|z T]].
    + simpl. symmetry. apply lsum_zero_terms. intros. ring.
    + simpl. symmetry. apply lsum_zero_terms. intros. ring.
    + destruct NS as [NS|NS]; [discriminate|]. destruct NT as [NT|NT]; [discriminate|].
      change (k_pset0 A zero one add mul div k (x :: S) (z :: T)) with (k_pset A zero one add mul div k (x :: S) (z :: T)).
      unfold C05Model.k_pset. rewrite Forall_forall in HS, HT.
      rewrite (lsum_map_ext A zero add _ (fun a => lsumA (map (fun b => frep A zero add mul vec fs a b) (z :: T))) (x :: S)).
      2:{ intros a Ha. apply (lsum_map_ext A zero add). intros b Hb. apply E; auto. }
      rewrite (sum_frep A zero one add mul sub div opp inv le OF vec fs (x :: S) (z :: T)).
      rewrite (Fdiv_def FT6).
      rewrite <- (lsum_map_mul_r A zero one add mul sub div opp inv le OF).
      apply (lsum_map_ext A zero add). intros wf _.
      apply (pset_alg A zero one add mul sub div opp inv le OF); auto.
Qed.
(* DiscreteKernel: a table that is a Gram matrix of rows of a factor a (table = a a^T) has a feature map *)
Lemma gramrep_disc_factor (a : list vec) (r : nat) (tbl : list (list A)) :
  (forall i j, k_disc A zero tbl i j = dot A zero add mul (nth i a []) (nth j a [])) ->
  GRep nat (fun i => length (nth i a []) = r) (k_disc A zero tbl).
Proof.
  intros E. apply (gramrep_ext A zero add mul le nat _ (k_pull A (fun i => nth i a []) (dot A zero add mul))).
  - intros i j _ _. symmetry. apply E.
  - apply (gramrep_pull A zero add mul le nat vec (fun i => nth i a []) (dimP A r)).
    apply (gramrep_lin A zero one add mul sub div opp inv le OF).
Qed.
End PSet0.

(* ------------------------------------------------------------------ the real numbers *)
Local Open Scope R_scope.

Inductive LimClos {X : Type} (P : X -> Prop) : (X -> X -> R) -> Prop :=
| LC_rep k : RGRep X P k -> LimClos P k
| LC_lim (kN : nat -> X -> X -> R) k :
    (forall N, LimClos P (kN N)) -> (forall x z, P x -> P z -> Un_cv (fun N => kN N x z) (k x z)) -> LimClos P k.

Section Clos.
Variable X : Type.
Variable P : X -> Prop.
Notation kernel := (X -> X -> R).

Lemma limclos_of_limrep k : LimRepOn X P k -> LimClos P k.
Proof. intros (kN & G & C). apply (LC_lim P kN); auto. intros N. apply LC_rep. auto. Qed.

Theorem limclos_psd k : LimClos P k -> RPSD X P k.
Proof.
  induction 1 as [k G|kN k _ IH C].
  - apply (gramrep_psd R 0 1 Rplus Rmult Rminus Rdiv Ropp Rinv Rle OFR). auto.
  - intros pts Hp. apply (cv_nonneg (fun N => Rqform X (kN N) pts)).
    + intros N. apply IH. auto.
    + apply qform_cv. rewrite Forall_forall in Hp. intros p q Hp1 Hq1. apply C; auto.
Qed.

Lemma limclos_ext k k' : (forall x z, P x -> P z -> k x z = k' x z) -> LimClos P k -> LimClos P k'.
Proof.
  intros E H. destruct H as [k G|kN k H C].
  - apply LC_rep. apply (gramrep_ext R 0 Rplus Rmult Rle X P k); auto.
  - apply (LC_lim P kN); auto. intros x z Hx Hz. rewrite <- E; auto.
Qed.

(* a binary operation that preserves feature maps and is continuous in both arguments preserves LimClos *)
Section Binary.
Variable op : R -> R -> R.
Hypothesis op_rep : forall k1 k2, RGRep X P k1 -> RGRep X P k2 -> RGRep X P (fun x z => op (k1 x z) (k2 x z)).
Hypothesis op_cv_l : forall a l b, Un_cv a l -> Un_cv (fun N => op (a N) b) (op l b).
Hypothesis op_cv_r : forall a b l, Un_cv b l -> Un_cv (fun N => op a (b N)) (op a l).

Lemma limclos_op_rep k1 k2 : RGRep X P k1 -> LimClos P k2 -> LimClos P (fun x z => op (k1 x z) (k2 x z)).
Proof.
  intros G1. induction 1 as [k2 G2|kN k2 _ IH C].
  - apply LC_rep. auto.
  - apply (LC_lim P (fun N x z => op (k1 x z) (kN N x z))); auto.
Qed.
Lemma limclos_op k1 k2 : LimClos P k1 -> LimClos P k2 -> LimClos P (fun x z => op (k1 x z) (k2 x z)).
Proof.
  intros H1 H2. induction H1 as [k1 G1|kN k1 _ IH C].
  - apply limclos_op_rep; auto.
  - apply (LC_lim P (fun N x z => op (kN N x z) (k2 x z))); auto.
Qed.
End Binary.

Lemma limclos_add k1 k2 : LimClos P k1 -> LimClos P k2 -> LimClos P (fun x z => k1 x z + k2 x z).
Proof.
  apply (limclos_op Rplus).
  - intros a b Ga Gb. apply (gramrep_add R 0 1 Rplus Rmult Rminus Rdiv Ropp Rinv Rle OFR X P a b); auto.
  - intros a l b H. apply (CV_plus a (fun _ => b)); auto. apply cv_const.
  - intros a b l H. apply (CV_plus (fun _ => a) b); auto. apply cv_const.
Qed.
Lemma limclos_mul k1 k2 : LimClos P k1 -> LimClos P k2 -> LimClos P (fun x z => k1 x z * k2 x z).
Proof.
  apply (limclos_op Rmult).
  - intros a b Ga Gb. apply (gramrep_mul R 0 1 Rplus Rmult Rminus Rdiv Ropp Rinv Rle OFR X P a b); auto.
  - intros a l b H. apply (CV_mult a (fun _ => b)); auto. apply cv_const.
  - intros a b l H. apply (CV_mult (fun _ => a) b); auto. apply cv_const.
Qed.
Lemma limclos_const c : 0 <= c -> LimClos P (fun _ _ => c).
Proof. intros H. apply LC_rep. apply (gramrep_const R 0 1 Rplus Rmult Rminus Rdiv Ropp Rinv Rle OFR X P c). auto. Qed.
Lemma limclos_scaled c k : 0 <= c -> LimClos P k -> LimClos P (fun x z => c * k x z).
Proof. intros Hc H. apply (limclos_mul (fun _ _ => c) k); auto. apply limclos_const; auto. Qed.
Lemma limclos_conj (f : X -> R) k : LimClos P k -> LimClos P (fun x z => f x * k x z * f z).
Proof.
  induction 1 as [k G|kN k _ IH C].
  - apply LC_rep. apply gramrep_conj. auto.
  - apply (LC_lim P (fun N x z => f x * kN N x z * f z)); auto. intros x z Hx Hz.
    apply (CV_mult (fun N => f x * kN N x z) (fun _ => f z)); [apply cv_scal; auto|apply cv_const].
Qed.
Lemma limclos_pow k d : LimClos P k -> LimClos P (fun x z => k x z ^ d).
Proof.
  intros H. induction d; simpl.
  - apply limclos_const. lra.
  - apply (limclos_mul k (fun x z => k x z ^ d)); auto.
Qed.
Lemma limclos_expN c k N : 0 <= c -> LimClos P k -> LimClos P (fun x z => expN N (c * k x z)).
Proof.
  intros Hc H. induction N.
  - apply (limclos_ext (fun _ _ => 1)); [|apply limclos_const; lra]. intros. unfold expN. simpl. field.
  - apply (limclos_ext (fun x z => expN N (c * k x z) + (/ INR (fact (S N)) * c ^ S N) * k x z ^ S N)).
    + intros. unfold expN. cbn [sum_f_R0]. rewrite Rpow_mult_distr. ring.
    + apply limclos_add; auto. apply limclos_scaled; [|apply limclos_pow; auto].
      apply Rmult_le_pos; [left; apply Rinv_0_lt_compat, INR_fact_lt_0|apply pow_le; auto].
Qed.
(* Schur: exp(c k) for c >= 0 *)
Theorem limclos_exp c k : 0 <= c -> LimClos P k -> LimClos P (fun x z => exp (c * k x z)).
Proof.
  intros Hc H. apply (LC_lim P (fun N x z => expN N (c * k x z))).
  - intros N. apply limclos_expN; auto.
  - intros x z _ _. apply expN_cv.
Qed.
(* the Gaussian kernel in the feature space of k *)
Theorem limclos_gauss_feature g k : 0 <= g -> LimClos P k ->
  LimClos P (fun x z => exp (- g * (k x x + k z z - 2 * k x z))).
Proof.
  intros Hg H.
  apply (limclos_ext (fun x z => exp (- g * k x x) * exp ((2 * g) * k x z) * exp (- g * k z z))).
  - intros. rewrite <- !exp_plus. f_equal. ring.
  - apply (limclos_conj (fun x => exp (- g * k x x))). apply limclos_exp; auto. lra.
Qed.
End Clos.

Lemma limclos_weaken {X} (P Q : X -> Prop) k : (forall x, Q x -> P x) -> LimClos P k -> LimClos Q k.
Proof.
  intros I. induction 1 as [k G|kN k _ IH C].
  - apply LC_rep. apply (gramrep_weaken R 0 Rplus Rmult Rle X P Q); auto.
  - apply (LC_lim Q kN); auto.
Qed.
Lemma limclos_pull {X Y} (f : X -> Y) (P : Y -> Prop) k : LimClos P k -> LimClos (fun x => P (f x)) (k_pull R f k).
Proof.
  induction 1 as [k G|kN k _ IH C].
  - apply LC_rep. apply (gramrep_pull R 0 Rplus Rmult Rle); auto.
  - apply (LC_lim _ (fun N => k_pull R f (kN N))); auto. intros x z Hx Hz. unfold C05Model.k_pull. auto.
Qed.

(* mean over point sets (empty sets allowed) *)
Notation Rk_pset0 := (k_pset0 R 0 1 Rplus Rmult Rdiv).
Lemma limclos_pset0 (P : Rvec -> Prop) k : LimClos P k -> LimClos (Forall P) (Rk_pset0 k).
Proof.
  induction 1 as [k G|kN k _ IH C].
  - apply LC_rep. apply (gramrep_weaken R 0 Rplus Rmult Rle (list Rvec) (PSet0Dom R 0 1 Rplus P)).
    + intros S HS. split; auto. destruct S; [left; reflexivity|right]. rewrite ofnat_INR. apply not_0_INR. simpl. discriminate.
    + apply (gramrep_pset0 R 0 1 Rplus Rmult Rminus Rdiv Ropp Rinv Rle OFR). auto.
  - apply (LC_lim _ (fun N => Rk_pset0 (kN N))); auto. intros S T HS HT.
    destruct S as [|x S]; [simpl; apply cv_const|]. destruct T as [|z T]; [simpl; apply cv_const|].
    change (Un_cv (fun N => k_pset R 0 1 Rplus Rmult Rdiv (kN N) (x :: S) (z :: T)) (k_pset R 0 1 Rplus Rmult Rdiv k (x :: S) (z :: T))).
    unfold C05Model.k_pset, Rdiv. rewrite Forall_forall in HS, HT.
    apply (CV_mult (fun N => Rlsum (map (fun a => Rlsum (map (fun b => kN N a b) (z :: T))) (x :: S)))
                   (fun _ => / (ofnat R 0 1 Rplus (length (x :: S)) * ofnat R 0 1 Rplus (length (z :: T))))).
    + apply (lsum_map_cv (fun N a => Rlsum (map (fun b => kN N a b) (z :: T))) (fun a => Rlsum (map (fun b => k a b) (z :: T)))).
      intros a Ha. apply (lsum_map_cv (fun N b => kN N a b) (fun b => k a b)). intros b Hb. auto.
    + apply cv_const.
Qed.

(* every admissible kernel expression is in the class *)
Lemma limclos_expr (sq : R -> R) e n : adm R 0 Rle n e -> LimClos (Rdim n) (den R 0 1 Rplus Rmult Rminus Rdiv Ropp sq exp e).
Proof. intros. apply limclos_of_limrep, limrep_expr. auto. Qed.

(* ------------------------------------------------------------------ GaussianTaskKernel *)
Section GTask.
Variable k : Rvec -> Rvec -> R.
Variable P : Rvec -> Prop.
Hypothesis ksym : forall x z, k x z = k z x.
Hypothesis kclos : LimClos P k.
Variable g : R.
Hypothesis gpos : 0 <= g.
Variable data : list (Rvec * nat).
Hypothesis dataP : Forall (fun e => P (fst e)) data.
Notation M := (gt_mean R 0 1 Rplus Rmult Rdiv k data).
Notation mem := (members R data).

Lemma members_P t : Forall P (mem t).
Proof.
  unfold members. rewrite Forall_forall in *. intros x Hx. apply in_map_iff in Hx. destruct Hx as (e & <- & He).
  apply filter_In in He. apply dataP. tauto.
Qed.

Lemma pset0_sym S T : Rk_pset0 k S T = Rk_pset0 k T S.
Proof.
  destruct S as [|x S], T as [|z T]; try reflexivity.
  change (k_pset R 0 1 Rplus Rmult Rdiv k (x :: S) (z :: T) = k_pset R 0 1 Rplus Rmult Rdiv k (z :: T) (x :: S)).
  apply (sym_pset R 0 1 Rplus Rmult Rminus Rdiv Ropp Rinv Rle OFR k). exact ksym.
Qed.

Lemma M_sym s t : M s t = M t s.
Proof. unfold gt_mean. apply pset0_sym. Qed.

(* every entry, diagonal included, is the Gaussian of the mean-embedding distance *)
Lemma gt_entry_gauss s t :
  gt_entry R 0 1 Rplus Rmult Rminus Rdiv Ropp exp k g data s t = exp (- g * (M s s + M t t - 2 * M s t)).
Proof.
  unfold gt_entry. destruct (Nat.eqb_spec s t) as [->|N].
  - replace (- g * (M t t + M t t - 2 * M t t)) with 0 by ring. rewrite exp_0. reflexivity.
  - cbv zeta. f_equal. unfold C05Model.two.
    destruct (Nat.max_spec s t) as [[L ->]|[L ->]]; [rewrite (Nat.min_l s t) by lia|rewrite (Nat.min_r s t) by lia].
    + rewrite (M_sym t s). ring.
    + ring.
Qed.

Lemma gt_matrix_entry nt s t : (s < nt)%nat -> (t < nt)%nat ->
  k_disc R 0 (gt_matrix R 0 1 Rplus Rmult Rminus Rdiv Ropp exp k g data nt) s t
  = gt_entry R 0 1 Rplus Rmult Rminus Rdiv Ropp exp k g data s t.
Proof.
  intros Hs Ht. unfold C05Model.k_disc, gt_matrix.
  rewrite (nth_indep _ [] (map (fun t0 => gt_entry R 0 1 Rplus Rmult Rminus Rdiv Ropp exp k g data 0 t0) (seq 0 nt)))
    by (rewrite map_length, seq_length; auto).
  rewrite (map_nth (fun s0 => map (fun t0 => gt_entry R 0 1 Rplus Rmult Rminus Rdiv Ropp exp k g data s0 t0) (seq 0 nt)) (seq 0 nt) 0%nat s).
  rewrite seq_nth by auto. simpl.
  rewrite (nth_indep _ 0 (gt_entry R 0 1 Rplus Rmult Rminus Rdiv Ropp exp k g data s 0)) by (rewrite map_length, seq_length; auto).
  rewrite (map_nth (fun t0 => gt_entry R 0 1 Rplus Rmult Rminus Rdiv Ropp exp k g data s t0) (seq 0 nt) 0%nat t).
  rewrite seq_nth by auto. reflexivity.
Qed.

Theorem limclos_gtask nt :
  LimClos (fun t => (t < nt)%nat) (k_disc R 0 (gt_matrix R 0 1 Rplus Rmult Rminus Rdiv Ropp exp k g data nt)).
Proof.
  apply (limclos_ext nat _ (k_pull R mem (fun S T => exp (- g * (Rk_pset0 k S S + Rk_pset0 k T T - 2 * Rk_pset0 k S T))))).
  - intros s t Hs Ht. rewrite gt_matrix_entry, gt_entry_gauss by auto. reflexivity.
  - apply (limclos_weaken (fun t => Forall P (mem t))).
    + intros t _. apply members_P.
    + apply (limclos_pull mem (Forall P)). apply limclos_gauss_feature; auto. apply limclos_pset0. exact kclos.
Qed.

Theorem psd_gtask nt :
  RPSD nat (fun t => (t < nt)%nat) (k_disc R 0 (gt_matrix R 0 1 Rplus Rmult Rminus Rdiv Ropp exp k g data nt)).
Proof. apply limclos_psd, limclos_gtask. Qed.

(* MultiTaskKernel: input kernel kin (any member of the class) times the task kernel *)
Theorem psd_mtask (kin : Rvec -> Rvec -> R) (Pin : Rvec -> Prop) nt : LimClos Pin kin ->
  RPSD (Rvec * nat) (fun e => Pin (fst e) /\ (snd e < nt)%nat)
       (k_mtask R 0 1 Rmult kin (gt_matrix R 0 1 Rplus Rmult Rminus Rdiv Ropp exp k g data nt)).
Proof.
  intros Hin. apply limclos_psd.
  apply (limclos_ext _ _ (fun x z => k_pull R fst kin x z * k_pull R snd (k_disc R 0 (gt_matrix R 0 1 Rplus Rmult Rminus Rdiv Ropp exp k g data nt)) x z)).
  - intros. unfold k_mtask. simpl. ring.
  - apply limclos_mul.
    + apply (limclos_weaken (fun e : Rvec * nat => Pin (fst e))); [tauto|]. apply (limclos_pull fst Pin). auto.
    + apply (limclos_weaken (fun e : Rvec * nat => (snd e < nt)%nat)); [tauto|]. apply (limclos_pull snd (fun t => (t < nt)%nat)). apply limclos_gtask.
Qed.
End GTask.

(* with kernel expressions as task-distance kernel and as input kernel (in Shark both are usually the same kernel) *)
Theorem psd_mtask_expr (sq : R -> R) e_t e_in n g data nt :
  adm R 0 Rle n e_t -> adm R 0 Rle n e_in -> 0 <= g -> Forall (fun e : Rvec * nat => Rdim n (fst e)) data ->
  RPSD (Rvec * nat) (fun e => Rdim n (fst e) /\ (snd e < nt)%nat)
       (k_mtask R 0 1 Rmult (den R 0 1 Rplus Rmult Rminus Rdiv Ropp sq exp e_in)
                (gt_matrix R 0 1 Rplus Rmult Rminus Rdiv Ropp exp (den R 0 1 Rplus Rmult Rminus Rdiv Ropp sq exp e_t) g data nt)).
Proof.
  intros Ht Hin Hg Hd.
  apply (psd_mtask (den R 0 1 Rplus Rmult Rminus Rdiv Ropp sq exp e_t) (Rdim n)); auto.
  - apply (den_sym R 0 1 Rplus Rmult Rminus Rdiv Ropp Rinv Rle sq exp OFR).
  - apply limclos_expr; auto.
  - apply limclos_expr; auto.
Qed.

Example task_hyps_example :
  let data := [([1; 2], 0%nat); ([0; 1], 2%nat); ([3; 1], 0%nat)] in
  adm R 0 Rle 2 (ERbf R 1) /\ Forall (fun e : Rvec * nat => Rdim 2 (fst e)) data /\ (forall x z : Rvec, Rk_gauss 1 x z = Rk_gauss 1 z x).
Proof.
  cbv zeta. split; [simpl; lra|]. split; [repeat constructor|].
  intros. apply (sym_gauss R 0 1 Rplus Rmult Rminus Rdiv Ropp Rinv Rle exp OFR).
Qed.
