(* C16 — executable model of one coordinate step (one example of an epoch) of Shark's linear multi-class SVM
   solvers QpMcLinear{WW,LLW,ATS,Reinforced,MMR,CS,ADM,ATM} (include/shark/Algorithms/QP/QpMcLinear.h: calcGradient,
   solveSub, updateWeightVectors as coded) and of one epoch of the binary solver QpBoxLinear (QpBoxLinear.h).
   Definitions only.  Vectors over the classes are functions nat -> A, loops run over c = 0 .. K-1 in this order.
   The inner products <w_c, x_i> are an INPUT of the step (the tie feeds the implementation's own values): what is
   modelled is the scalar arithmetic of the step and the update of the weight vectors. *)
From Coq Require Import Arith Bool List.
From SharkV Require Import C08Model.
Import ListNotations.

Inductive lkind := LWW | LLLW | LATS | LRI | LMMR | LCS | LADM | LATM.

Section Lin.
Variable A : Type.
Variable O : ops A.
Variable one : A.                     (* 1.0 *)
Variable K : nat.                     (* m_classes *)
Variable Kf : A.                      (* (double)m_classes *)
Variable C : A.
Local Notation zero := (o_zero O).
Local Notation add := (o_add O).
Local Notation sub := (o_sub O).
Local Notation mul := (o_mul O).
Local Notation div := (o_div O).
Local Notation ltb := (o_ltb O).
Local Notation eqb := (o_eqb O).
Local Notation half := (o_half O).
Local Notation two := (o_two O).
Local Notation big := (o_big O).

Definition skipy (k : lkind) : bool := match k with LWW | LLLW | LCS | LADM => true | _ => false end.
Definition is_simplex (k : lkind) : bool := match k with LCS | LADM | LATM => true | _ => false end.

(* gradient(c) as set by calcGradient *)
Definition gval (k : lkind) (wx : nat -> A) (y c : nat) : A :=
  match k with
  | LWW | LCS => if c =? y then zero else sub one (mul half (sub (wx y) (wx c)))
  | LLLW | LADM => if c =? y then zero else add one (wx c)
  | LATS | LATM => if c =? y then sub one (wx y) else add one (wx c)
  | LRI => if c =? y then sub (sub Kf one) (wx y) else add one (wx c)
  | LMMR => if c =? y then sub one (wx y) else zero
  end.

(* if (g > violation && alpha(c) < C) violation = g; else if (-g > violation && alpha(c) > 0.0) violation = -g; *)
Fixpoint viol_box (g al : nat -> A) (y : nat) (sk : bool) (m : nat) : A :=
  match m with
  | 0 => zero
  | S c =>
    let v := viol_box g al y sk c in
    if sk && (c =? y) then v
    else if ltb v (g c) && ltb (al c) C then g c
    else if ltb v (sub zero (g c)) && ltb zero (al c) then sub zero (g c) else v
  end.

(* alpha(m_classes) < C:  if (g > violation) violation = g; else if (-g > violation && alpha(c) > 0.0) violation = -g; *)
Fixpoint viol_free (g al : nat -> A) (y : nat) (sk : bool) (m : nat) : A :=
  match m with
  | 0 => zero
  | S c =>
    let v := viol_free g al y sk c in
    if sk && (c =? y) then v
    else if ltb v (g c) then g c
    else if ltb v (sub zero (g c)) && ltb zero (al c) then sub zero (g c) else v
  end.

(* alpha(m_classes) == C:  (kkt_up, kkt_down) from (0, 1e100) *)
Fixpoint viol_updown (g al : nat -> A) (y : nat) (sk : bool) (m : nat) : A * A :=
  match m with
  | 0 => (zero, big)
  | S c =>
    let r := viol_updown g al y sk c in
    if sk && (c =? y) then r
    else
      let up := if ltb (fst r) (g c) && ltb (al c) C then g c else fst r in
      let dn := if ltb (g c) (snd r) && ltb zero (al c) then g c else snd r in
      (up, dn)
  end.

(* calcGradient: the KKT violation (the gradient itself is gval) *)
Definition calc_viol (k : lkind) (g al : nat -> A) (y : nat) : A :=
  match k with
  | LMMR =>
    let gy := g y in let a := al 0 in
    if ltb zero gy then (if eqb a C then zero else gy)
    else (if eqb a zero then zero else sub zero gy)
  | LCS | LADM | LATM =>
    if ltb (al K) C then viol_free g al y (skipy k) K
    else let r := viol_updown g al y (skipy k) K in maxA O zero (sub (fst r) (snd r))
  | _ => viol_box g al y (skipy k) K
  end.

(* ---------------- solveSub ---------------- *)

(* qq *)
Definition qq_of (k : lkind) (q : A) : A :=
  match k with
  | LWW | LCS => mul half q
  | _ => mul (sub one (div one Kf)) q
  end.

(* gradient update after a step m on the single variable idx, and the gain of that step *)
Definition gupd1 (k : lkind) (g : nat -> A) (y idx : nat) (m g0 q qq : A) : (nat -> A) * A :=
  match k with
  | LWW | LCS =>
    let dg := mul (mul half m) qq in
    let g1 := fun c => if c <? K then sub (g c) dg else g c in
    (updf g1 idx (sub (g1 idx) dg), mul m (sub g0 dg))
  | LLLW | LADM =>
    let dg := mul m q in let dgc := div dg Kf in
    let g1 := fun c => if c <? K then add (g c) dgc else g c in
    (updf g1 idx (sub (g1 idx) dg), mul m (sub g0 (mul half (sub dg dgc))))
  | _ =>
    let dg := mul m q in let dgc := div dg Kf in
    if idx =? y then
      let g1 := fun c => if c <? K then sub (g c) dgc else g c in
      (updf g1 idx (sub (g1 idx) (sub dg (mul two dgc))), mul m (sub g0 (mul half (sub dg dgc))))
    else
      let g1 := fun c => if c <? K then (if c =? y then sub (g c) dgc else add (g c) dgc) else g c in
      (updf g1 idx (sub (g1 idx) dg), mul m (sub g0 (mul half (sub dg dgc))))
  end.

(* working set of the box-type solvers: (idx, kkt) *)
Fixpoint sel_box (g al : nat -> A) (y : nat) (sk : bool) (m : nat) : nat * A :=
  match m with
  | 0 => (0, zero)
  | S c =>
    let r := sel_box g al y sk c in
    if sk && (c =? y) then r
    else if ltb (snd r) (g c) && ltb (al c) C then (c, g c)
    else if ltb (snd r) (sub zero (g c)) && ltb zero (al c) then (c, sub zero (g c)) else r
  end.

Record lsub := mklsub { l_g : nat -> A; l_al : nat -> A; l_mu : nat -> A; l_gain : A }.

(* clipped Newton step on one box variable: (m, a_new) *)
Definition clip_box (a m0 : A) : A * A :=
  let a_new := add a m0 in
  if negb (ltb zero a_new) then (sub zero a, zero)
  else if negb (ltb a_new C) then (sub C a, C)
  else (m0, a_new).

(* for (iter < fuel): WW, LLW, ATS, Reinforced *)
Fixpoint sub_box (k : lkind) (fuel : nat) (eps q : A) (y : nat) (s : lsub) : lsub :=
  match fuel with
  | 0 => s
  | S f =>
    let r := sel_box (l_g s) (l_al s) y (skipy k) K in
    let idx := fst r in
    if ltb (snd r) eps then s
    else
      let qq := qq_of k q in
      let a := l_al s idx in
      let g0 := l_g s idx in
      let cm := clip_box a (div g0 qq) in
      let m := fst cm in
      let u := gupd1 k (l_g s) y idx m g0 q qq in
      sub_box k f eps q y
        (mklsub (fst u) (updf (l_al s) idx (snd cm)) (updf (l_mu s) idx (add (l_mu s idx) m)) (add (l_gain s) (snd u)))
  end.

(* MMR: one variable alpha(0) *)
Definition sub_mmr (eps q : A) (y : nat) (s : lsub) : lsub :=
  let qq := qq_of LMMR q in
  let g0 := l_g s y in
  let a := l_al s 0 in
  let kkt := if ltb zero g0 && ltb a C then g0
             else if ltb zero (sub zero g0) && ltb zero a then sub zero g0 else zero in
  if ltb kkt eps then mklsub (l_g s) (l_al s) (l_mu s) zero
  else
    let cm := clip_box a (div g0 qq) in
    let m := fst cm in
    mklsub (l_g s) (updf (l_al s) 0 (snd cm)) (updf (l_mu s) 0 m) (mul m (sub g0 (mul (mul half m) qq))).

(* simplex-type solvers, alpha(m_classes) == C: (kkt_up, idx_up, kkt_down, idx_down) from (-1e100, 0, 1e100, 0) *)
Fixpoint sel_updown (g al : nat -> A) (y : nat) (sk : bool) (m : nat) : (A * nat) * (A * nat) :=
  match m with
  | 0 => ((sub zero big, 0), (big, 0))
  | S c =>
    let r := sel_updown g al y sk c in
    if sk && (c =? y) then r
    else
      let up := if ltb (fst (fst r)) (g c) && ltb (al c) C then (g c, c) else fst r in
      let dn := if ltb (g c) (fst (snd r)) && ltb zero (al c) then (g c, c) else snd r in
      (up, dn)
  end.

(* alpha(m_classes) < C: if (g > kkt) {kkt = g; idx = c;} else if (-g > kkt && a > 0.0) {kkt = -g; idx = c;} *)
Fixpoint sel_free (g al : nat -> A) (y : nat) (sk : bool) (m : nat) : nat * A :=
  match m with
  | 0 => (0, zero)
  | S c =>
    let r := sel_free g al y sk c in
    if sk && (c =? y) then r
    else if ltb (snd r) (g c) then (c, g c)
    else if ltb (snd r) (sub zero (g c)) && ltb zero (al c) then (c, sub zero (g c)) else r
  end.

(* gradient update and gain of a step m from idx_down to idx_up *)
Definition gupd2 (k : lkind) (g : nat -> A) (y iu id : nat) (m grad q qq : A) : (nat -> A) * A :=
  match k with
  | LCS =>
    let dg := mul (mul half m) qq in
    let g1 := updf g iu (sub (g iu) dg) in
    (updf g1 id (add (g1 id) dg), mul m (sub grad (mul two dg)))
  | LADM =>
    let dg := mul m q in let dgc := div dg Kf in
    let g1 := updf g iu (sub (g iu) dg) in
    (updf g1 id (add (g1 id) dg), mul m (sub grad (sub dg dgc)))
  | _ =>
    let dg := mul m q in let dgc := div dg Kf in
    let gain := mul m (sub grad (sub dg dgc)) in
    if iu =? y then
      let g1 := fun c => if c <? K then sub (g c) dgc else g c in
      let g2 := updf g1 iu (sub (g1 iu) (sub dg (mul two dgc))) in
      (updf g2 id (add (g2 id) dg), gain)
    else if id =? y then
      let g1 := updf g iu (sub (g iu) dg) in
      (updf g1 id (add (g1 id) (sub dg (mul two dgc))), gain)
    else
      let g1 := updf g iu (sub (g iu) dg) in
      (updf g1 id (add (g1 id) dg), gain)
  end.

(* CS, ADM, ATM *)
Fixpoint sub_simplex (k : lkind) (fuel : nat) (eps q : A) (y : nat) (s : lsub) : lsub :=
  match fuel with
  | 0 => s
  | S f =>
    let g := l_g s in let al := l_al s in
    let qq := qq_of k q in
    let atC := eqb (al K) C in
    let ud := sel_updown g al y (skipy k) K in
    let kup := fst (fst ud) in let iup := snd (fst ud) in
    let kdn := fst (snd ud) in let idn := snd (snd ud) in
    let fr := sel_free g al y (skipy k) K in
    let size2 := atC && ltb zero kup in
    (* (idx, grad, kkt) of the one-variable step *)
    let idx := if atC then idn else fst fr in
    let grad := if atC then (if ltb zero kup then sub kup kdn else kdn) else g (fst fr) in
    let kkt := if atC then (if ltb zero kup then sub kup kdn else sub zero kdn) else snd fr in
    if ltb kkt eps then s
    else if size2 then
      let a_up := al iup in let a_dn := al idn in
      let m0 := match k with LCS => div grad qq | _ => div grad (mul two q) end in
      let dn0 := sub a_dn m0 in
      let m := if negb (ltb zero dn0) then a_dn else m0 in
      let up_new := add a_up m in
      let dn_new := if negb (ltb zero dn0) then zero else dn0 in
      let u := gupd2 k g y iup idn m grad q qq in
      let al1 := updf al iup up_new in
      let mu1 := updf (l_mu s) iup (add (l_mu s iup) m) in
      sub_simplex k f eps q y
        (mklsub (fst u) (updf al1 idn dn_new) (updf mu1 idn (sub (mu1 idn) m)) (add (l_gain s) (snd u)))
    else
      let a := al idx in let a_sum := al K in
      let m0 := div grad qq in
      let a_new0 := add a m0 in let s_new0 := add a_sum m0 in
      let r := if negb (ltb zero a_new0) then (sub zero a, zero, add a_sum (sub zero a))
               else if negb (ltb s_new0 C) then (sub C a_sum, add a (sub C a_sum), C)
               else (m0, a_new0, s_new0) in
      let m := fst (fst r) in
      let u := gupd1 k g y idx m grad q qq in
      sub_simplex k f eps q y
        (mklsub (fst u) (updf (updf al idx (snd (fst r))) K (snd r)) (updf (l_mu s) idx (add (l_mu s idx) m)) (add (l_gain s) (snd u)))
  end.

Definition solve_sub (k : lkind) (eps q : A) (y : nat) (g al : nat -> A) : lsub :=
  let s0 := mklsub g al (fun _ => zero) zero in
  match k with
  | LMMR => sub_mmr eps q y s0
  | LCS | LADM | LATM => sub_simplex k (10 * K) eps q y s0
  | _ => sub_box k (10 * K) eps q y s0
  end.

(* ---------------- updateWeightVectors: the step vector added to the rows of w ---------------- *)
Fixpoint vsum (f : nat -> A) (m : nat) : A :=
  match m with 0 => zero | S c => add (vsum f c) (f c) end.

Definition wstep (k : lkind) (mu : nat -> A) (y : nat) : nat -> A :=
  match k with
  | LWW =>
    let s := vsum mu K in
    fun c => if c =? y then mul half s else mul (sub zero half) (mu c)
  | LCS =>
    let s := vsum (fun c => if c =? y then zero else mu c) K in
    fun c => if c =? y then mul half s else mul (sub zero half) (mu c)
  | LLLW | LADM =>
    let mean := div (vsum mu K) Kf in
    fun c => sub mean (mu c)
  | LMMR =>
    let s := mu 0 in let sc := div (sub zero s) Kf in let sy := add s sc in
    fun c => if c =? y then sy else sc
  | _ =>
    (* mean = -2.0 * mu(y); for (c) mean += mu(c); mean /= K *)
    let mean := div ((fix go (m : nat) : A := match m with 0 => mul (sub zero two) (mu y) | S c => add (go c) (mu c) end) K) Kf in
    fun c => if c =? y then add (mu c) mean else sub mean (mu c)
  end.

(* for all c: row(w, c) += step(c) * x *)
Definition add_scaled (w : nat -> nat -> A) (step : nat -> A) (x : nat -> A) : nat -> nat -> A :=
  fun c d => if c <? K then add (w c d) (mul (step c) (x d)) else w c d.

Record lres := mklres { r_kkt : A; r_gain : A; r_al : nat -> A; r_mu : nat -> A; r_w : nat -> nat -> A }.

(* one example of the epoch loop of QpMcLinear::solve *)
Definition lin_step (k : lkind) (eps q : A) (y : nat) (wx : nat -> A) (al : nat -> A) (x : nat -> A) (w : nat -> nat -> A) : lres :=
  let g := fun c => gval k wx y c in
  let kkt := calc_viol k g al y in
  if ltb zero kkt then
    let s := solve_sub k (mul (div one (o_ten O)) eps) q y g al in
    mklres kkt (l_gain s) (l_al s) (l_mu s) (add_scaled w (wstep k (l_mu s) y) x)
  else mklres kkt zero al (fun _ => zero) w.

(* ---------------- QpBoxLinear: one variable of the epoch, one epoch over a schedule ---------------- *)
Fixpoint dot (w x : nat -> A) (d : nat) : A :=
  match d with 0 => zero | S k => add (dot w x k) (mul (w k) (x k)) end.

(* (alpha_i, w) -> (alpha_i', w') for label sign ys = +-1, bound, reg, offset; wyx = y_i * <w, x_i> is an input *)
Definition boxlin_var (bound reg offset ys wyx xsq : A) (a : A) : bool * (A * A) :=   (* (stepped, (mu, new_a)) *)
  let g := sub (sub (sub one (mul offset ys)) wyx) (mul reg a) in
  let pg := if eqb a zero && ltb g zero then zero else if eqb a bound && ltb zero g then zero else g in
  if eqb pg zero then (false, (zero, a))                          (* if (pg != 0.0) *)
  else
    let q := add xsq reg in
    let mu0 := div g q in
    let na := add a mu0 in
    if negb (ltb zero na) then (true, (sub zero a, zero))
    else if negb (ltb na bound) then (true, (sub bound a, bound))
    else (true, (mu0, na)).

Definition boxlin_step (dim : nat) (bound reg offset : A) (ys : nat -> A) (xs : nat -> nat -> A)
    (st : (nat -> A) * (nat -> A)) (i : nat) : (nat -> A) * (nat -> A) :=
  let al := fst st in let w := snd st in
  let x := xs i in
  let wyx := mul (ys i) (dot w x dim) in
  let r := boxlin_var bound reg offset (ys i) wyx (dot x x dim) (al i) in
  if fst r then
    (updf al i (snd (snd r)), fun d => if d <? dim then add (w d) (mul (mul (fst (snd r)) (ys i)) (x d)) else w d)
  else st.

Definition boxlin_epoch (dim : nat) (bound reg offset : A) (ys : nat -> A) (xs : nat -> nat -> A)
    (st : (nat -> A) * (nat -> A)) (schedule : list nat) : (nat -> A) * (nat -> A) :=
  fold_left (boxlin_step dim bound reg offset ys xs) schedule st.

End Lin.


Arguments gval {A}. Arguments viol_box {A}. Arguments viol_free {A}. Arguments viol_updown {A}. Arguments calc_viol {A}.
Arguments qq_of {A}. Arguments gupd1 {A}. Arguments sel_box {A}. Arguments mklsub {A}. Arguments l_g {A}. Arguments l_al {A}.
Arguments l_mu {A}. Arguments l_gain {A}. Arguments clip_box {A}. Arguments sub_box {A}. Arguments sub_mmr {A}.
Arguments sel_updown {A}. Arguments sel_free {A}. Arguments gupd2 {A}. Arguments sub_simplex {A}. Arguments solve_sub {A}.
Arguments vsum {A}. Arguments wstep {A}. Arguments add_scaled {A}. Arguments mklres {A}. Arguments r_kkt {A}.
Arguments r_gain {A}. Arguments r_al {A}. Arguments r_mu {A}. Arguments r_w {A}. Arguments lin_step {A}.
Arguments dot {A}. Arguments boxlin_var {A}. Arguments boxlin_step {A}. Arguments boxlin_epoch {A}.
