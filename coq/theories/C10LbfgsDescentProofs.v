(* C10 — LBFGS.cpp: multB (compact representation of the direct BFGS matrix B, as coded up to the cancelled square root)
   is a symmetric positive definite form whenever m_bdiag > 0 and every stored pair has y's > 0; hence the direction of
   getBoxConstrainedDirection is NEVER AN ASCENT direction, in each of its three branches
     full step:  g'd = -p0'H p0            (p0 = -g on the movable coordinates, 0 on the fixed ones)
     Cauchy:     g'd = -alpha |p0|^2 / p0'B p0,  alpha >= 0
     dog-leg:    a convex combination of the two,
   and every step of box-constrained L-BFGS is monotone.  Exact rationals.  Axiom-free. *)
From Coq Require Import List QArith Qreduction Qabs Bool Arith Lia Lqa Qfield Setoid Morphisms.
From SharkV Require Import C10Model C10Proofs C10LsModel C10LsProofs C10BfgsProofs C10Gen C10LbfgsModel C10LbfgsProofs
  C10LbfgsBoxProofs.
Import ListNotations.
Open Scope Q_scope.

(* ---------------- the form z' B v of the compact representation ---------------- *)
Definition row_y (r : g_row Q) : vec := fst (fst (fst r)).
Definition row_beta (r : g_row Q) : Q := snd (fst (fst r)).
Definition row_a (r : g_row Q) : vec := snd (fst r).
Definition row_nn (r : g_row Q) : Q := snd r.

Definition rowok (n : nat) (r : g_row Q) : Prop := length (row_y r) = n /\ length (row_a r) = n.

Definition ysum (proc : list (g_row Q)) (z v : vec) : Q :=
  fold_right (fun r acc => acc + dot z (row_y r) * (dot (row_y r) v / row_beta r)) 0 proc.
Definition asum (proc : list (g_row Q)) (z v : vec) : Q :=
  fold_right (fun r acc => acc + dot z (row_a r) * (dot (row_a r) v / row_nn r)) 0 proc.
Definition bform (b : Q) (proc : list (g_row Q)) (z v : vec) : Q := b * dot z v + ysum proc z v - asum proc z v.

Definition lb_yterms : list (g_row Q) -> vec -> vec -> vec := g_yterms Q QO.
Definition lb_aterms : list (g_row Q) -> vec -> vec -> vec := g_aterms Q QO.
Definition lb_bapply : Q -> list (g_row Q) -> vec -> vec := g_bapply Q QO.
Definition lb_build : Q -> list (vec * vec) -> list (g_row Q) -> list (g_row Q) := g_build Q QO.

Lemma yterms_cons : forall r proc v acc,
  lb_yterms (r :: proc) v acc = lb_yterms proc v (vadd acc (vscale (qdiv (dot (row_y r) v) (row_beta r)) (row_y r))).
Proof. intros [[[y beta] a] nn] proc v acc. reflexivity. Qed.
Lemma aterms_cons : forall r proc v acc,
  lb_aterms (r :: proc) v acc = lb_aterms proc v (vsub acc (vscale (qdiv (dot (row_a r) v) (row_nn r)) (row_a r))).
Proof. intros [[[y beta] a] nn] proc v acc. reflexivity. Qed.

Section Form.
  Variable n : nat.

  Lemma yterms_dot : forall proc v acc z, Forall (rowok n) proc -> length acc = n ->
    length (lb_yterms proc v acc) = n /\ dot z (lb_yterms proc v acc) == dot z acc + ysum proc z v.
  Proof.
    induction proc as [|r proc IH]; intros v acc z F La.
    - change (lb_yterms [] v acc) with acc. unfold ysum. cbn [fold_right]. split; [exact La | ring].
    - apply Forall_cons_iff in F. destruct F as [[Ly Lr] F]. rewrite yterms_cons.
      assert (length (vadd acc (vscale (qdiv (dot (row_y r) v) (row_beta r)) (row_y r))) = n) as L1
        by (rewrite vadd_length; rewrite ?vscale_length; congruence).
      destruct (IH v _ z F L1) as [A B]. split; [exact A|]. rewrite B.
      rewrite dot_vadd_r by (rewrite vscale_length; congruence). rewrite dot_vscale_r, qdiv_eq.
      unfold ysum. cbn [fold_right]. ring.
  Qed.

  Lemma aterms_dot : forall proc v acc z, Forall (rowok n) proc -> length acc = n ->
    length (lb_aterms proc v acc) = n /\ dot z (lb_aterms proc v acc) == dot z acc - asum proc z v.
  Proof.
    induction proc as [|r proc IH]; intros v acc z F La.
    - change (lb_aterms [] v acc) with acc. unfold asum. cbn [fold_right]. split; [exact La | ring].
    - apply Forall_cons_iff in F. destruct F as [[Ly Lr] F]. rewrite aterms_cons.
      assert (length (vsub acc (vscale (qdiv (dot (row_a r) v) (row_nn r)) (row_a r))) = n) as L1
        by (rewrite vsub_length; rewrite ?vscale_length; congruence).
      destruct (IH v _ z F L1) as [A B]. split; [exact A|]. rewrite B.
      rewrite dot_vsub_r by (rewrite vscale_length; congruence). rewrite dot_vscale_r, qdiv_eq.
      unfold asum. cbn [fold_right]. ring.
  Qed.

  (* z'(B v) as computed = the form *)
  Lemma bapply_dot : forall b proc v z, Forall (rowok n) proc -> length v = n ->
    length (lb_bapply b proc v) = n /\ dot z (lb_bapply b proc v) == bform b proc z v.
  Proof.
    intros b proc v z F Lv.
    change (lb_bapply b proc v) with (lb_aterms proc v (lb_yterms proc v (vscale b v))).
    destruct (yterms_dot proc v (vscale b v) z F ltac:(rewrite vscale_length; exact Lv)) as [A B].
    destruct (aterms_dot proc v _ z F A) as [C D]. split; [exact C|].
    rewrite D, B, dot_vscale_r. unfold bform. ring.
  Qed.

  Lemma ysum_app : forall p q z v, ysum (p ++ q) z v == ysum p z v + ysum q z v.
  Proof. induction p as [|r p IH]; intros; unfold ysum in *; cbn [app fold_right]; [ring|]. rewrite IH. ring. Qed.
  Lemma asum_app : forall p q z v, asum (p ++ q) z v == asum p z v + asum q z v.
  Proof. induction p as [|r p IH]; intros; unfold asum in *; cbn [app fold_right]; [ring|]. rewrite IH. ring. Qed.

  (* the form is symmetric and linear in its second argument, whatever the rows *)
  Lemma ysum_sym : forall proc z v, ysum proc z v == ysum proc v z.
  Proof.
    induction proc as [|r p IH]; intros; unfold ysum in *; cbn [fold_right]; [ring|]. rewrite IH.
    rewrite (dot_comm z (row_y r)), (dot_comm v (row_y r)). unfold Qdiv. ring.
  Qed.
  Lemma asum_sym : forall proc z v, asum proc z v == asum proc v z.
  Proof.
    induction proc as [|r p IH]; intros; unfold asum in *; cbn [fold_right]; [ring|]. rewrite IH.
    rewrite (dot_comm z (row_a r)), (dot_comm v (row_a r)). unfold Qdiv. ring.
  Qed.
  Lemma bform_sym : forall b proc z v, bform b proc z v == bform b proc v z.
  Proof. intros. unfold bform. rewrite ysum_sym, asum_sym, (dot_comm z v). ring. Qed.

  Lemma ysum_lin : forall proc z v w t, Forall (rowok n) proc -> length v = n -> length w = n ->
    ysum proc z (vsub v (vscale t w)) == ysum proc z v - t * ysum proc z w.
  Proof.
    induction proc as [|r p IH]; intros z v w t F Lv Lw; unfold ysum in *; cbn [fold_right]; [ring|].
    apply Forall_cons_iff in F. destruct F as [[Ly _] F].
    rewrite IH by assumption.
    rewrite dot_vsub_r by (rewrite vscale_length; congruence). rewrite dot_vscale_r. unfold Qdiv. ring.
  Qed.
  Lemma asum_lin : forall proc z v w t, Forall (rowok n) proc -> length v = n -> length w = n ->
    asum proc z (vsub v (vscale t w)) == asum proc z v - t * asum proc z w.
  Proof.
    induction proc as [|r p IH]; intros z v w t F Lv Lw; unfold asum in *; cbn [fold_right]; [ring|].
    apply Forall_cons_iff in F. destruct F as [[_ La] F].
    rewrite IH by assumption.
    rewrite dot_vsub_r by (rewrite vscale_length; congruence). rewrite dot_vscale_r. unfold Qdiv. ring.
  Qed.
  Lemma bform_lin : forall b proc z v w t, Forall (rowok n) proc -> length v = n -> length w = n ->
    bform b proc z (vsub v (vscale t w)) == bform b proc z v - t * bform b proc z w.
  Proof.
    intros. unfold bform. rewrite ysum_lin, asum_lin by assumption.
    rewrite dot_vsub_r by (rewrite vscale_length; congruence). rewrite dot_vscale_r. ring.
  Qed.

  (* ---- positive definiteness, row by row ---- *)
  Definition pinv (b : Q) (proc : list (g_row Q)) : Prop :=
    Forall (rowok n) proc /\ (forall x, length x = n -> 0 <= bform b proc x x) /\
    (forall x, length x = n -> ~ vzero x -> 0 < bform b proc x x).

  Lemma pinv_nil : forall b, 0 < b -> pinv b [].
  Proof.
    intros b Hb. split; [constructor|]. unfold bform, ysum, asum. cbn [fold_right]. split.
    - intros x _. pose proof (dot_self_nonneg x). nra.
    - intros x _ NZ. pose proof (dot_self_pos x NZ). nra.
  Qed.

  Lemma vzero_vsub_dot : forall y x w, length x = length w -> vzero (vsub x w) -> dot y x == dot y w.
  Proof.
    intros y x w L Z. pose proof (dot_zero_l _ y Z) as E. rewrite dot_comm, dot_vsub_r in E by exact L. lra.
  Qed.

  (* one more pair: F'(z,v) = F(z,v) + (y'z)(y'v)/(y's) - F(z,s)F(v,s)/F(s,s) *)
  Lemma pinv_snoc : forall b proc s y, pinv b proc -> length s = n -> length y = n -> 0 < dot y s ->
    pinv b (proc ++ [(y, dot y s, lb_bapply b proc s, dot s (lb_bapply b proc s))]).
  Proof.
    intros b proc s y (F & Nn & Pd) Ls Ly D.
    set (a := lb_bapply b proc s).
    assert (length a = n /\ forall z, dot z a == bform b proc z s) as [La Ea].
    { split; [apply (bapply_dot b proc s s F Ls) | intro z; apply (bapply_dot b proc s z F Ls)]. }
    assert (~ vzero s) as NZs by (intro Z; rewrite dot_comm, (dot_zero_l s y Z) in D; lra).
    pose proof (Pd s Ls NZs) as Fss.
    assert (forall x, length x = n ->
              bform b (proc ++ [(y, dot y s, a, dot s a)]) x x ==
              bform b proc x x + dot y x * dot y x / dot y s - bform b proc x s * bform b proc x s / bform b proc s s) as EX.
    { intros x Lx. unfold bform. rewrite ysum_app, asum_app. unfold ysum at 2, asum at 2. cbn [fold_right row_y row_beta row_a row_nn fst snd].
      rewrite (dot_comm a x), !Ea. fold (bform b proc x s) (bform b proc s s). rewrite (dot_comm x y).
      unfold bform. field. split; [unfold bform in Fss; lra | lra]. }
    split; [|split].
    - apply Forall_app. split; [exact F|]. constructor; [|constructor]. split; cbn [row_y row_a fst snd]; assumption.
    - intros x Lx. rewrite (EX x Lx).
      set (t := bform b proc x s / bform b proc s s).
      set (w := vsub x (vscale t s)).
      assert (length w = n) as Lw by (unfold w; rewrite vsub_length; rewrite ?vscale_length; congruence).
      assert (bform b proc w w == bform b proc x x - bform b proc x s * bform b proc x s / bform b proc s s) as EW.
      { unfold w. rewrite (bform_lin b proc _ x s t F Lx Ls).
        rewrite (bform_sym b proc _ x), (bform_sym b proc _ s).
        rewrite !(bform_lin b proc _ x s t F Lx Ls). rewrite (bform_sym b proc s x). unfold t. field. lra. }
      pose proof (Nn w Lw) as W0. rewrite EW in W0.
      assert (0 <= dot y x * dot y x / dot y s).
      { unfold Qdiv. apply mul_nonneg; [apply sq_nonneg | apply Qlt_le_weak, Qinv_lt_0_compat; exact D]. }
      lra.
    - intros x Lx NZ. rewrite (EX x Lx).
      set (t := bform b proc x s / bform b proc s s).
      set (w := vsub x (vscale t s)).
      assert (length w = n) as Lw by (unfold w; rewrite vsub_length; rewrite ?vscale_length; congruence).
      assert (bform b proc w w == bform b proc x x - bform b proc x s * bform b proc x s / bform b proc s s) as EW.
      { unfold w. rewrite (bform_lin b proc _ x s t F Lx Ls).
        rewrite (bform_sym b proc _ x), (bform_sym b proc _ s).
        rewrite !(bform_lin b proc _ x s t F Lx Ls). rewrite (bform_sym b proc s x). unfold t. field. lra. }
      assert (0 <= dot y x * dot y x / dot y s) as SQ.
      { unfold Qdiv. apply mul_nonneg; [apply sq_nonneg | apply Qlt_le_weak, Qinv_lt_0_compat; exact D]. }
      destruct (vzero_dec w) as [Zw|NZw].
      + (* x = t s: then y'x = t y's with t <> 0 *)
        assert (dot y x == t * dot y s) as Eyx.
        { rewrite (vzero_vsub_dot y x (vscale t s)); [apply dot_vscale_r | rewrite vscale_length; congruence | exact Zw]. }
        assert (~ t == 0) as Tn.
        { intro T0. apply NZ. unfold w in Zw.
          assert (forall a c, vzero (vsub a (vscale t c)) -> length a = length c -> vzero a) as HZ.
          { induction a0 as [|u a0 IHa]; intros [|c0 c] Zv Lc; try discriminate; [constructor|].
            cbn [vscale map vsub] in Zv. inversion Zv as [|? ? Hu Zr]; subst. constructor.
            - rewrite qsub_eq, qmul_eq, T0 in Hu. lra.
            - apply (IHa c); [exact Zr | simpl in Lc; lia]. }
          apply (HZ x s Zw). congruence. }
        pose proof (Nn w Lw) as W0. rewrite EW in W0.
        assert (0 < dot y x * dot y x / dot y s).
        { rewrite Eyx. assert (t * dot y s * (t * dot y s) / dot y s == t * t * dot y s) as E by (field; lra). rewrite E.
          assert (0 < t * t) by (destruct (Qlt_le_dec t 0); [nra | assert (0 < t) by (destruct (Qle_lt_or_eq _ _ q); [assumption | exfalso; apply Tn; symmetry; assumption]); nra]).
          nra. }
        lra.
      + pose proof (Pd w Lw NZw) as W0. rewrite EW in W0. lra.
  Qed.

  Lemma build_cons : forall b s y r proc,
    lb_build b ((s, y) :: r) proc = lb_build b r (proc ++ [(y, dot y s, lb_bapply b proc s, dot s (lb_bapply b proc s))]).
  Proof. reflexivity. Qed.

  Lemma pinv_build : forall b ps proc, Forall (pair_ok n) ps -> pinv b proc -> pinv b (lb_build b ps proc).
  Proof.
    intros b. induction ps as [|[s y] r IH]; intros proc F P; [exact P|].
    apply Forall_cons_iff in F. destruct F as [(Ls & Ly & D) F]. cbn [fst snd] in *.
    rewrite build_cons. apply IH; [exact F|]. apply pinv_snoc; assumption.
  Qed.

  (* multB is positive (semi)definite: x'(B x) >= 0, > 0 for x <> 0 *)
  Theorem mult_b_posdef : forall b ps x, 0 < b -> Forall (pair_ok n) ps -> length x = n ->
    0 <= dot x (lb_mult_b b ps x) /\ (~ vzero x -> 0 < dot x (lb_mult_b b ps x)).
  Proof.
    intros b ps x Hb F Lx.
    destruct (pinv_build b ps [] F (pinv_nil b Hb)) as (R & Nn & Pd).
    change (lb_mult_b b ps x) with (lb_bapply b (lb_build b ps []) x).
    destruct (bapply_dot b _ x x R Lx) as [_ E]. rewrite E. split; [apply Nn; exact Lx | apply Pd; exact Lx].
  Qed.
End Form.

(* ---------------- the box direction is never an ascent direction ---------------- *)
Lemma vmask_nil_l : forall v, vmask [] v = []. Proof. reflexivity. Qed.
Lemma vmask_nil_r : forall m, vmask m [] = []. Proof. destruct m; reflexivity. Qed.

Lemma dot_mask_neg : forall m g q, dot g (vmask m q) == - dot (vmask m (vneg g)) q.
Proof.
  induction m as [|b m IH]; intros g q.
  - rewrite !vmask_nil_l, dot_nil_r. cbn [dot]. ring.
  - destruct g as [|a g].
    + cbn [vneg map]. rewrite vmask_nil_r. cbn [dot]. ring.
    + destruct q as [|c q].
      * rewrite vmask_nil_r, !dot_nil_r. ring.
      * cbn [vneg map]. fold (vneg g). rewrite !vmask_cons. cbn [dot]. qn. rewrite IH. destruct b; ring.
Qed.

Lemma dot_mask_self : forall m g, dot g (vmask m (vneg g)) == - dot (vmask m (vneg g)) (vmask m (vneg g)).
Proof.
  induction m as [|b m IH]; intros g.
  - rewrite !vmask_nil_l, dot_nil_r. cbn [dot]. ring.
  - destruct g as [|a g].
    + cbn [vneg map]. rewrite vmask_nil_r. cbn [dot]. ring.
    + cbn [vneg map]. fold (vneg g). rewrite !vmask_cons. cbn [dot]. qn. rewrite IH. destruct b; ring.
Qed.

Lemma dot_vdiv_r' : forall z v b, dot z (vdiv v b) == dot z v / b.
Proof. exact dot_vdiv_r. Qed.

Theorem lb_box_dir_nonascent : forall n bdiag ps l u x g,
  0 < bdiag -> Forall (pair_ok n) ps -> length x = n -> length g = n -> length l = n -> length u = n ->
  dot g (lb_box_dir bdiag ps l u x g) <= 0.
Proof.
  intros n bdiag ps l u x g Hb F Lx Lg Ll Lu. rewrite lb_box_dir_eq. cbv zeta.
  set (m := lb_mask l u x (vneg g)).
  assert (length m = n) as Lm by (unfold m; rewrite lb_mask_length; rewrite ?vneg_length; congruence).
  set (p0 := vmask m (vneg g)).
  assert (length p0 = n) as Lp0 by (unfold p0; rewrite vmask_length; rewrite vneg_length; congruence).
  set (q := lb_mult_binv bdiag ps p0).
  assert (length q = n) as Lq by (apply mult_binv_length; assumption).
  set (step := vmask m q).
  assert (length step = n) as Lst by (unfold step; rewrite vmask_length; congruence).
  (* the full step *)
  assert (dot g step <= 0) as GS.
  { unfold step. rewrite dot_mask_neg. fold p0. unfold q.
    rewrite (two_loop_is_H n bdiag ps Hb F p0 p0 Lp0 Lp0).
    destruct (lb_H_ok n bdiag ps Hb F) as [_ _ _ HP]. pose proof (posdef_nonneg n _ HP p0 Lp0). lra. }
  destruct (lb_step_ok m l u x step); [exact GS|].
  set (den := dot p0 (lb_mult_b bdiag ps p0)).
  destruct (mult_b_posdef n bdiag ps p0 Hb F Lp0) as [D0 _]. fold den in D0.
  set (cauchy := vdiv p0 den).
  assert (length cauchy = n) as Lc by (unfold cauchy; rewrite vdiv_length; exact Lp0).
  assert (dot g cauchy <= 0) as GC.
  { unfold cauchy. rewrite dot_vdiv_r. unfold p0 at 1. rewrite dot_mask_self. fold p0.
    pose proof (dot_self_nonneg p0) as PP. unfold Qdiv.
    destruct (Qeq_dec den 0) as [Z|NZ]; [rewrite Z; cbn; lra|].
    assert (0 < / den) by (apply Qinv_lt_0_compat; lra). nra. }
  set (alpha := lb_ratio m l u x cauchy 1).
  assert (0 <= alpha /\ alpha <= 1) as [A0 A1] by (apply ratio_bounds; lra).
  destruct (qltb alpha 1).
  - rewrite dot_vscale_r. nra.
  - set (dir := vsub step cauchy).
    set (alpha2 := lb_ratio m l u (vadd x cauchy) dir 1).
    assert (0 <= alpha2 /\ alpha2 <= 1) as [B0 B1] by (apply ratio_bounds; lra).
    rewrite dot_vadd_r by (rewrite vscale_length; unfold dir; rewrite vsub_length; congruence).
    rewrite dot_vscale_r. unfold dir. rewrite dot_vsub_r by congruence. nra.
Qed.

(* ---------------- box-constrained L-BFGS: every step is monotone ---------------- *)
Section LbfgsBoxMonotone.
  Variable f : vec -> Q.
  Variable grad : vec -> vec.
  Variables l u : vec.
  Variable n : nat.
  Variable numhist : nat.
  Hypothesis grad_length : forall x, length x = n -> length (grad x) = n.
  Hypothesis Ll : length l = n.
  Hypothesis Lu : length u = n.

  Notation feas := (box_feasb_slack box_eps l u).
  Notation dirb := (lbfgs_dir_box l u).
  Notation step := (ls_step f grad lb_model dirb).
  Notation run := (ls_run f grad lb_model dirb).
  Notation init := (ls_init f grad feas lb_model (lb_init_model numhist)).

  Definition lbminv (s : ls_state lb_model) : Prop :=
    consistent f grad lb_model s /\ length (pt s) = n /\ length (sdir s) = n /\ lb_good n (extra s) /\
    0 <= step_len s /\ dot (der s) (sdir s) <= 0.

  Lemma lbminv_init : forall ty x0, length x0 = n -> lbminv (init ty x0).
  Proof.
    intros ty x0 L0. unfold lbminv. split; [apply init_consistent|].
    unfold ls_init. cbn [pt sdir extra step_len der]. split; [exact L0|]. split; [rewrite vneg_length; apply grad_length; exact L0|].
    split; [rewrite L0; apply init_model_good|]. split; [apply halve_feasible_nonneg_pre | apply dot_neg_nonpos].
  Qed.

  Lemma lbminv_step : forall s, lbminv s -> lbminv (step s).
  Proof.
    intros s (C & Lp & Ld & G & Ht & Hd).
    pose proof (step_consistent f grad lb_model dirb s C) as C'.
    destruct (step_via_mid f grad lb_model dirb s) as (A & B & D & E & T).
    set (mid := ls_mid f grad lb_model s) in *.
    assert (length (pt mid) = n /\ last_pt mid = pt s /\ last_der mid = der s /\ extra mid = extra s) as (Lm & Elp & Eld & Em).
    { unfold mid, ls_mid.
      pose proof (backtracking_cases f grad (pt s) (sdir s) (val s) (der s) (step_len s)) as H.
      destruct (backtracking _ _ _ _ _ _ _) as [[p' v'] g']. cbn [pt last_pt last_der extra]. repeat split.
      destruct H as [(P & _) | (t & P & _)]; rewrite P; [exact Lp|].
      rewrite vadd_length; [exact Lp | rewrite vscale_length; congruence]. }
    assert (der mid = grad (pt mid)) as Dm by (destruct C' as [_ Cd]; rewrite <- D, <- A; exact Cd).
    assert (length (der mid) = n) as Lg by (rewrite Dm; apply grad_length; exact Lm).
    assert (length (der s) = n) as Lgs by (destruct C as [_ Cd]; rewrite Cd; apply grad_length; exact Lp).
    assert (lb_good n (lbfgs_hist mid)) as G'.
    { unfold lbfgs_hist. apply update_hist_good; [| |rewrite Em; exact G]; rewrite vsub_length; congruence. }
    assert (extra (step s) = lbfgs_hist mid) as Ex.
    { unfold ls_step. fold mid. unfold mid, ls_mid. destruct (backtracking _ _ _ _ _ _ _) as [[p' v'] g']. reflexivity. }
    assert (sdir (step s) = lb_box_dir (lb_bdiag (lbfgs_hist mid)) (lb_pairs (lbfgs_hist mid)) l u (pt mid) (der mid)) as Sd
      by (rewrite E; reflexivity).
    destruct G' as [Gb Gt Gp Ga Gl] eqn:EG.
    unfold lbminv. split; [exact C'|]. split; [rewrite A; exact Lm|]. split.
    - rewrite Sd. rewrite lb_box_dir_eq. cbv zeta.
      set (m := lb_mask l u (pt mid) (vneg (der mid))).
      assert (length m = n) as Lmm by (unfold m; rewrite lb_mask_length; rewrite ?vneg_length; congruence).
      set (p0 := vmask m (vneg (der mid))).
      assert (length p0 = n) as Lp0 by (unfold p0; rewrite vmask_length; rewrite vneg_length; congruence).
      assert (length (vmask m (lb_mult_binv (lb_bdiag (lbfgs_hist mid)) (lb_pairs (lbfgs_hist mid)) p0)) = n) as Lst
        by (rewrite vmask_length; rewrite mult_binv_length with (n := n); congruence).
      destruct (lb_step_ok _ _ _ _ _); [exact Lst|].
      set (st := vmask m (lb_mult_binv (lb_bdiag (lbfgs_hist mid)) (lb_pairs (lbfgs_hist mid)) p0)) in *.
      set (cauchy := vdiv p0 (dot p0 (lb_mult_b (lb_bdiag (lbfgs_hist mid)) (lb_pairs (lbfgs_hist mid)) p0))).
      assert (length cauchy = n) as Lc by (unfold cauchy; rewrite vdiv_length; exact Lp0).
      assert (length (vsub st cauchy) = n) as Ldr by (rewrite vsub_length; congruence).
      destruct (qltb _ 1); [rewrite vscale_length; exact Lc|].
      rewrite vadd_length; [exact Lc | rewrite vscale_length; congruence].
    - split; [rewrite Ex; constructor; assumption|]. split; [rewrite T; lra|].
      rewrite D, Sd. apply (lb_box_dir_nonascent n); assumption.
  Qed.

  Lemma lbminv_run : forall k s, lbminv s -> lbminv (run k s).
  Proof. induction k; intros s H; cbn [ls_run]; auto. apply IHk. apply lbminv_step. exact H. Qed.

  (* the stored direction of box-constrained L-BFGS is never an ascent direction and every step is monotone: every
     objective, every m_numHist, every start (feasible or not) *)
  Theorem lbfgs_box_monotone : forall ty x0 k, length x0 = n ->
    let s := run k (init ty x0) in
    dot (der s) (sdir s) <= 0 /\ val (step s) <= val s /\ f (pt (step s)) <= f (pt s).
  Proof.
    intros ty x0 k L0 s.
    destruct (lbminv_run k _ (lbminv_init ty x0 L0)) as (C & _ & _ & _ & Ht & Hd). fold s in C, Ht, Hd.
    split; [exact Hd|]. split; [apply step_monotone; assumption | apply step_monotone_f; assumption].
  Qed.
End LbfgsBoxMonotone.
