(* C16 — executable STATE model of Shark's multi-class decomposition problems
   QpMcBoxDecomp / QpMcSimplexDecomp (include/shark/Algorithms/QP/QpMcBoxDecomp.h, QpMcSimplexDecomp.h),
   as coded.  Definitions only; proofs in C16GradProofs.v, C16SmoProofs.v, C16TablesProofs.v, ...

   What is modelled (every member the two classes keep):
     m_alpha, m_gradient, m_linear                      arrays by variable POSITION
     m_variables[v].{i|example, p, index, diagonal}     arrays by variable position
     m_examples[e].{index, y, active, var[], avar[], varsum, diagonal}   arrays by example POSITION
     m_activeEx, m_activeVar, bUnshrinked
     m_M (QpSparseArray: per row the explicit entries in storage order + default value), m_classes, m_cardP, m_C
     m_kernelMatrix: entry(a,b) under the example permutation = K0 (index of a) (index of b); this is what
       flipColumnsAndRows(e,j) maintains when deactivateExample swaps m_examples[e] and m_examples[j]
       (the `index` member travels with the example).
   Operations: gradientUpdate, updateSMO (both classes, all branches), updateVarsum (C16Model.upd_varsum),
     deactivateVariable, deactivateExample, shrink (both classes, incl. the one-time unshrink), unshrink,
     getSimplexMVP, checkKKT (simplex), addDeltaLinear, the constructor (init_state).
   Not modelled: selectWorkingSet / maxGainBox / maxGainSimplex (the working set is an input of the step).

   Arithmetic is the abstract record `ops` of C08Model (floats in the OCaml driver, Q in the proofs); every
   floating point expression is spelled with the association of the C++ source. *)
From Coq Require Import Arith Bool List.
From SharkV Require Import C08Model C16Model.
Import ListNotations.

Section State.
Variable A : Type.
Variable O : ops A.
Variable lowest : A.                  (* -DBL_MAX (triangle solver) *)
Variable tiny : A.                    (* 1e-14 (updateVarsum) *)
Variable P : nat.                     (* m_cardP *)
Variable ncl : nat.                   (* m_classes *)
Variable n : nat.                     (* m_numExamples *)
Variable C : A.                       (* m_C *)
Variable Mrow : nat -> list (nat * A).   (* m_M.row(r).entry[0..size) *)
Variable Mdef : nat -> A.             (* m_M.row(r).defaultvalue *)
Variable K0 : nat -> nat -> A.        (* kernel matrix over the data set indices *)
Local Notation zero := (o_zero O).
Local Notation add := (o_add O).
Local Notation sub := (o_sub O).
Local Notation mul := (o_mul O).
Local Notation ltb := (o_ltb O).
Local Notation eqb := (o_eqb O).
Local Notation ten := (o_ten O).
Local Notation big := (o_big O).

Record mst := mkst {
  malpha : nat -> A;                  (* m_alpha *)
  mgrad : nat -> A;                   (* m_gradient *)
  mlin : nat -> A;                    (* m_linear *)
  vex : nat -> nat;                   (* m_variables[v].i / .example : POSITION of the example *)
  vp : nat -> nat;                    (* m_variables[v].p *)
  vidx : nat -> nat;                  (* m_variables[v].index : slot in the example's avar list *)
  vdiag : nat -> A;                   (* m_variables[v].diagonal *)
  eorig : nat -> nat;                 (* m_examples[e].index : index in the data set *)
  ey : nat -> nat;                    (* m_examples[e].y *)
  eact : nat -> nat;                  (* m_examples[e].active *)
  evar : nat -> nat -> nat;           (* m_examples[e].var[p] *)
  eavar : nat -> nat -> nat;          (* m_examples[e].avar[b] *)
  evsum : nat -> A;                   (* m_examples[e].varsum   (simplex class only) *)
  ediag : nat -> A;                   (* m_examples[e].diagonal (simplex class only) *)
  actex : nat;                        (* m_activeEx *)
  actvar : nat;                       (* m_activeVar *)
  munshr : bool                       (* bUnshrinked *)
}.

Definition nvar : nat := P * n.       (* m_numVariables = m_cardP * m_numExamples *)

(* m_kernelMatrix.row(a, ..)[b] / entry(a, b) under the current example order *)
Definition kpos (s : mst) (a b : nat) : A := K0 (eorig s a) (eorig s b).
(* m_M(r, col) *)
Definition Mq (r col : nat) : A := sa_lookup (Mrow r) (Mdef r) col.

Definition set_ag (s : mst) (al g : nat -> A) : mst :=
  mkst al g (mlin s) (vex s) (vp s) (vidx s) (vdiag s) (eorig s) (ey s) (eact s) (evar s) (eavar s)
       (evsum s) (ediag s) (actex s) (actvar s) (munshr s).
Definition set_agv (s : mst) (al g : nat -> A) (vs : nat -> A) : mst :=
  mkst al g (mlin s) (vex s) (vp s) (vidx s) (vdiag s) (eorig s) (ey s) (eact s) (evar s) (eavar s)
       vs (ediag s) (actex s) (actvar s) (munshr s).
Definition set_unshr (s : mst) (b : bool) : mst :=
  mkst (malpha s) (mgrad s) (mlin s) (vex s) (vp s) (vidx s) (vdiag s) (eorig s) (ey s) (eact s) (evar s) (eavar s)
       (evsum s) (ediag s) (actex s) (actvar s) b.

(* ---------------- gradientUpdate(r, mu, q), q = row of example position i ---------------- *)

(* for (b < row.size) m_gradient(ex.var[row.entry[b].index]) -= mu * (row.entry[b].value - def) * k; *)
Fixpoint gu_entries (g : nat -> A) (var : nat -> nat) (es : list (nat * A)) (def mu k : A) : nat -> A :=
  match es with
  | [] => g
  | (ix, v) :: t =>
    let f := var ix in
    gu_entries (updf g f (sub (g f) (mul (mul mu (sub v def)) k))) var t def mu k
  end.

(* for (b < m) m_gradient(ex.avar[b]) -= upd; *)
Fixpoint gu_avar (g : nat -> A) (avar : nat -> nat) (upd : A) (m : nat) : nat -> A :=
  match m with
  | 0 => g
  | S b => let g' := gu_avar g avar upd b in updf g' (avar b) (sub (g' (avar b)) upd)
  end.

Definition gu_example (s : mst) (g : nat -> A) (r : nat) (mu : A) (i a : nat) : nat -> A :=
  let k := kpos s i a in
  let row := ncl * r + ey s a in
  let def := Mdef row in
  let g1 := gu_entries g (evar s a) (Mrow row) def mu k in
  if eqb def zero then g1                                     (* if (def != 0.0) *)
  else gu_avar g1 (eavar s a) (mul (mul mu def) k) (eact s a).

(* for (a < m) ... *)
Fixpoint gu_loop (s : mst) (g : nat -> A) (r : nat) (mu : A) (i m : nat) : nat -> A :=
  match m with
  | 0 => g
  | S a => gu_example s (gu_loop s g r mu i a) r mu i a
  end.

Definition grad_update (s : mst) (g : nat -> A) (r : nat) (mu : A) (i : nat) : nat -> A :=
  gu_loop s g r mu i (actex s).

(* ---------------- QpMcBoxDecomp::updateSMO(v, w) ---------------- *)

Definition box_smo (s : mst) (v w : nat) : mst :=
  if v =? w then
    let i := vex s v in
    let r := P * ey s i + vp s v in
    let a := malpha s v in
    let a' := solve_edge O a (mgrad s v) (vdiag s v) zero C in
    let mu := add (sub zero a) a' in
    set_ag s (updf (malpha s) v a') (grad_update s (mgrad s) r mu i)
  else
    let iv := vex s v in let iw := vex s w in
    let pv := vp s v in let pw := vp s w in
    let yv := ey s iv in let yw := ey s iw in
    let rv := P * yv + pv in let rw := P * yw + pw in
    let Qvv := vdiag s v in let Qww := vdiag s w in
    let Qvw := mul (Mq (ncl * rv + yw) pw) (kpos s iv iw) in
    let av := malpha s v in let aw := malpha s w in
    let r2 := solve_2d O av aw (mgrad s v) (mgrad s w) Qvv Qvw Qww zero C zero C in
    let muv := add (sub zero av) (fst r2) in
    let muw := add (sub zero aw) (snd r2) in
    let g1 := grad_update s (mgrad s) rv muv iv in
    let g2 := grad_update s g1 rw muw iw in
    set_ag s (updf (updf (malpha s) v (fst r2)) w (snd r2)) g2.

(* ---------------- QpMcSimplexDecomp::updateSMO(v, w) ---------------- *)

(* alpha seen through m_examples[e].var[p] - what updateVarsum sums *)
Definition valpha (s : mst) (al : nat -> A) : nat -> nat -> A := fun e p => al (evar s e p).

Definition simplex_smo (s : mst) (v w : nat) : mst :=
  if v =? w then
    let i := vex s v in
    let r := P * ey s i + vp s v in
    let a := malpha s v in
    let ub := add (sub C (evsum s i)) a in
    let a' := solve_edge O a (mgrad s v) (vdiag s v) zero ub in
    let mu := add (sub zero a) a' in
    let al' := updf (malpha s) v a' in
    let vs' := updf (evsum s) i (upd_varsum O tiny P C (evsum s i) (valpha s al') i mu) in
    set_agv s al' (grad_update s (mgrad s) r mu i) vs'
  else
    let iv := vex s v in let iw := vex s w in
    let pv := vp s v in let pw := vp s w in
    let yv := ey s iv in let yw := ey s iw in
    let rv := P * yv + pv in let rw := P * yw + pw in
    let Qvv := vdiag s v in let Qww := vdiag s w in
    let Qvw := mul (Mq (ncl * rv + yw) pw) (kpos s iv iw) in
    let av := malpha s v in let aw := malpha s w in
    let gv := mgrad s v in let gw := mgrad s w in
    if iv =? iw then
      let ub := add (add (sub C (evsum s iv)) av) aw in
      let r2 := solve_tri O lowest av aw gv gw Qvv Qvw Qww ub in
      let muv := add (sub zero av) (fst r2) in
      let muw := add (sub zero aw) (snd r2) in
      let al' := updf (updf (malpha s) v (fst r2)) w (snd r2) in
      let vs' := updf (evsum s) iv (upd_varsum O tiny P C (evsum s iv) (valpha s al') iv (add muv muw)) in
      let g1 := grad_update s (mgrad s) rv muv iv in
      let g2 := grad_update s g1 rw muw iw in
      set_agv s al' g2 vs'
    else
      let Uv := add (sub C (evsum s iv)) av in
      let Uw := add (sub C (evsum s iw)) aw in
      let r2 := solve_2d O av aw gv gw Qvv Qvw Qww zero Uv zero Uw in
      let muv := add (sub zero av) (fst r2) in
      let muw := add (sub zero aw) (snd r2) in
      let al' := updf (updf (malpha s) v (fst r2)) w (snd r2) in
      let vs1 := updf (evsum s) iv (upd_varsum O tiny P C (evsum s iv) (valpha s al') iv muv) in
      let vs' := updf vs1 iw (upd_varsum O tiny P C (evsum s iw) (valpha s al') iw muw) in
      let g1 := grad_update s (mgrad s) rv muv iv in
      let g2 := grad_update s g1 rw muw iw in
      set_agv s al' g2 vs'.

(* ---------------- deactivateVariable(v): the part shared by both classes ---------------- *)

Definition deact_var (s : mst) (v : nat) : mst :=
  let ev := vex s v in
  let iv := vidx s v in
  let pv := vp s v in
  let ih := eact s ev - 1 in
  let h := eavar s ev ih in
  (* m_variables[v].index = ih; m_variables[h].index = iv; *)
  let idx1 := updf (updf (vidx s) v ih) h iv in
  (* std::swap(exv->avar[iv], exv->avar[ih]); *)
  let avar1 := upd2 (upd2 (eavar s) ev iv (eavar s ev ih)) ev ih (eavar s ev iv) in
  (* iv = ih; exv->active--; *)
  let act1 := updf (eact s) ev (eact s ev - 1) in
  let j := actvar s - 1 in
  let ej := vex s j in
  let ij := idx1 j in
  let pj := vp s j in
  (* exchange entries in the lists *)
  let al2 := swapf (malpha s) v j in
  let g2 := swapf (mgrad s) v j in
  let ln2 := swapf (mlin s) v j in
  let vex2 := swapf (vex s) v j in
  let vp2 := swapf (vp s) v j in
  let idx2 := swapf idx1 v j in
  let dg2 := swapf (vdiag s) v j in
  (* m_variables[exv->avar[iv]].index = ij; m_variables[exj->avar[ij]].index = iv; *)
  let idx3 := updf idx2 (avar1 ev ih) ij in
  let idx4 := updf idx3 (avar1 ej ij) ih in
  (* exv->avar[iv] = j; exv->var[pv] = j; exj->avar[ij] = v; exj->var[pj] = v; *)
  let avar2 := upd2 avar1 ev ih j in
  let var2 := upd2 (evar s) ev pv j in
  let avar3 := upd2 avar2 ej ij v in
  let var3 := upd2 var2 ej pj v in
  mkst al2 g2 ln2 vex2 vp2 idx4 dg2 (eorig s) (ey s) act1 var3 avar3 (evsum s) (ediag s)
       (actex s) (actvar s - 1) (munshr s).

(* ---------------- deactivateExample(e) ---------------- *)

(* for (v < m) { m_variables[pe[v]].i = e; m_variables[pj[v]].i = j; } *)
Fixpoint relabel (f : nat -> nat) (pe pj : nat -> nat) (e j m : nat) : nat -> nat :=
  match m with
  | 0 => f
  | S k => let f1 := relabel f pe pj e j k in updf (updf f1 (pe k) e) (pj k) j
  end.

Definition deact_ex (s : mst) (e : nat) : mst :=
  let j := actex s - 1 in
  if e =? j then
    mkst (malpha s) (mgrad s) (mlin s) (vex s) (vp s) (vidx s) (vdiag s) (eorig s) (ey s) (eact s) (evar s) (eavar s)
         (evsum s) (ediag s) j (actvar s) (munshr s)
  else
    (* std::swap(m_examples[e], m_examples[j]); flipColumnsAndRows(e, j) is the swap of eorig *)
    let var' := swapf (evar s) e j in
    mkst (malpha s) (mgrad s) (mlin s) (relabel (vex s) (var' e) (var' j) e j P) (vp s) (vidx s) (vdiag s)
         (swapf (eorig s) e j) (swapf (ey s) e j) (swapf (eact s) e j) var' (swapf (eavar s) e j)
         (swapf (evsum s) e j) (swapf (ediag s) e j) j (actvar s) (munshr s).

(* QpMcSimplexDecomp::deactivateVariable additionally removes an example without active variables *)
Definition sdeact_var (s : mst) (v : nat) : mst :=
  let ev := vex s v in
  let s1 := deact_var s v in
  if eact s1 ev =? 0 then deact_ex s1 ev else s1.

(* ---------------- unshrink() (identical in both classes) ---------------- *)

(* for (b < row.size) { f = ex.var[entry.index]; if (f >= m_activeVar) m_gradient(f) -= mu*(value - def)*k; } *)
Fixpoint us_entries (g : nat -> A) (var : nat -> nat) (actv : nat) (es : list (nat * A)) (def mu k : A) : nat -> A :=
  match es with
  | [] => g
  | (ix, v) :: t =>
    let f := var ix in
    us_entries (if actv <=? f then updf g f (sub (g f) (mul (mul mu (sub v def)) k)) else g) var actv t def mu k
  end.

(* for (b = from; b < from + cnt; b++) m_gradient(ex.avar[b]) -= upd; *)
Fixpoint us_avar (g : nat -> A) (avar : nat -> nat) (upd : A) (from cnt : nat) : nat -> A :=
  match cnt with
  | 0 => g
  | S c => let g' := us_avar g avar upd from c in
           let f := avar (from + c) in updf g' f (sub (g' f) upd)
  end.

Definition us_example (s : mst) (g : nat -> A) (r : nat) (mu : A) (i a : nat) : nat -> A :=
  let k := kpos s i a in
  let row := ncl * r + ey s a in
  let def := Mdef row in
  let g1 := us_entries g (evar s a) (actvar s) (Mrow row) def mu k in
  if eqb def zero then g1
  else us_avar g1 (eavar s a) (mul (mul mu def) k) (eact s a) (P - eact s a).

Fixpoint us_exloop (s : mst) (g : nat -> A) (r : nat) (mu : A) (i m : nat) : nat -> A :=
  match m with
  | 0 => g
  | S a => us_example s (us_exloop s g r mu i a) r mu i a
  end.

(* for (v < m) { mu = alpha(v); if (mu == 0.0) continue; ... } *)
Fixpoint us_varloop (s : mst) (g : nat -> A) (m : nat) : nat -> A :=
  match m with
  | 0 => g
  | S v =>
    let g' := us_varloop s g v in
    let mu := malpha s v in
    if eqb mu zero then g'
    else let iv := vex s v in us_exloop s g' (P * ey s iv + vp s v) mu iv n
  end.

Definition unshrink (s : mst) : mst :=
  if actvar s =? nvar then s
  else
    (* subrange(m_gradient, m_activeVar, m_numVariables) = subrange(m_linear, ...) *)
    let g0 := fun a => if (actvar s <=? a) && (a <? nvar) then mlin s a else mgrad s a in
    mkst (malpha s) (us_varloop s g0 nvar) (mlin s) (vex s) (vp s) (vidx s) (vdiag s) (eorig s) (ey s)
         (fun e => if e <? n then P else eact s e) (evar s) (eavar s) (evsum s) (ediag s) n nvar (munshr s).

(* ---------------- QpMcBoxDecomp::shrink(epsilon) ---------------- *)

Fixpoint box_largest (s : mst) (m : nat) : A :=
  match m with
  | 0 => zero
  | S a =>
    let l := box_largest s a in
    let l1 := if ltb (malpha s a) C then maxA O l (mgrad s a) else l in
    if ltb zero (malpha s a) then maxA O l1 (sub zero (mgrad s a)) else l1
  end.

(* (v == 0.0 && g <= 0.0) || (v == m_C && g >= 0.0) *)
Definition box_can_shrink (s : mst) (a : nat) : bool :=
  (eqb (malpha s a) zero && negb (ltb zero (mgrad s a))) || (eqb (malpha s a) C && negb (ltb (mgrad s a) zero)).

(* for (a = m_activeVar - 1; a >= 0; a--) *)
Fixpoint box_shrink_vars (a : nat) (st : mst * bool) : mst * bool :=
  match a with
  | 0 => st
  | S a' =>
    let s := fst st in
    box_shrink_vars a'
      (if box_can_shrink s a' then
         let e := vex s a' in
         let s' := deact_var s a' in
         (s', snd st || (eact s' e =? 0))
       else st)
  end.

(* for (a = m_activeEx - 1; a >= 0; a--) if (m_examples[a].active == 0) deactivateExample(a); *)
Fixpoint box_shrink_exs (a : nat) (s : mst) : mst :=
  match a with
  | 0 => s
  | S a' => box_shrink_exs a' (if eact s a' =? 0 then deact_ex s a' else s)
  end.

Definition box_shrink (shrinking : bool) (eps : A) (s : mst) : mst :=
  if negb shrinking then s
  else
    let s1 := if negb (munshr s) && ltb (box_largest s (actvar s)) (mul ten eps)
              then set_unshr (unshrink s) true else s in
    let r := box_shrink_vars (actvar s1) (s1, false) in
    if snd r then box_shrink_exs (actex (fst r)) (fst r) else fst r.

(* ---------------- QpMcSimplexDecomp: getSimplexMVP, checkKKT, shrink ---------------- *)

Fixpoint mvp_up (s : mst) (e m : nat) : A :=
  match m with
  | 0 => sub zero big
  | S b => let u := mvp_up s e b in
           let g := mgrad s (eavar s e b) in
           if ltb u g then g else u
  end.

Fixpoint mvp_down (s : mst) (e m : nat) : A :=
  match m with
  | 0 => big
  | S b => let d := mvp_down s e b in
           let v := eavar s e b in
           if ltb zero (malpha s v) && ltb (mgrad s v) d then mgrad s v else d
  end.

Fixpoint skkt (s : mst) (m : nat) : A :=
  match m with
  | 0 => zero
  | S i =>
    let r := skkt s i in
    let up := mvp_up s i (eact s i) in
    let down := mvp_down s i (eact s i) in
    let r1 := maxA O (sub zero down) r in
    let r2 := if ltb (evsum s i) C then maxA O up r1 else r1 in
    if eqb (evsum s i) C then maxA O (sub up down) r2 else r2
  end.

(* for (q = q1 - 1; q >= 0; --q) deactivateVariable(ex.avar[q]);   ex is a reference to m_examples[e] *)
Fixpoint sdeact_down (e q1 : nat) (s : mst) : mst :=
  match q1 with
  | 0 => s
  | S q => sdeact_down e q (sdeact_var s (eavar s e q))
  end.

(* case 1 of shrink(): for (p = pc - 1; p >= 0; --p) *)
Fixpoint sshrink_case1 (up down : A) (e p : nat) (s : mst) : mst :=
  match p with
  | 0 => s
  | S p' =>
    let v := eavar s e p' in
    let a := malpha s v in
    let g := mgrad s v in
    if eqb a zero && ltb (sub g down) zero then sshrink_case1 up down e p' (sdeact_var s v)
    else if eqb a C && ltb (sub up g) zero then
      (* for (q = (int)ex.active; q >= 0; --q) deactivateVariable(ex.avar[q]); p = 0;
         up >= g for every active variable of the example: this branch is never taken (sshrink_case1_dead) *)
      sdeact_down e (S (eact s e)) s
    else sshrink_case1 up down e p' s
  end.

Definition sshrink_example (s : mst) (e : nat) : mst :=
  let up := mvp_up s e (eact s e) in
  let down := mvp_down s e (eact s e) in
  if ltb zero down && eqb (evsum s e) C && ltb zero (sub up down) then sshrink_case1 up down e (eact s e) s
  else if eqb (evsum s e) zero && ltb up zero && ltb zero down then sdeact_down e (eact s e) s
  else s.

(* for (i = m_activeEx; i > 0; i--) { ex = m_examples[i-1]; ... } *)
Fixpoint sshrink_loop (i : nat) (s : mst) : mst :=
  match i with
  | 0 => s
  | S e => sshrink_loop e (sshrink_example s e)
  end.

Definition simplex_shrink (shrinking : bool) (eps : A) (s : mst) : mst :=
  if negb shrinking then s
  else
    let s1 := if negb (munshr s) && ltb (skkt s (actex s)) (mul ten eps)
              then set_unshr (unshrink s) true else s in
    sshrink_loop (actex s1) s1.

(* ---------------- addDeltaLinear(deltaLinear) ---------------- *)
(* for (v < m_numVariables) { p = m_variables[v].p; g(v) += d(originalIndex(v), p); lin(v) += ...; } *)
Definition add_delta_linear (s : mst) (d : nat -> nat -> A) : mst :=
  let dv := fun v => d (eorig s (vex s v)) (vp s v) in
  mkst (malpha s)
       (fun v => if v <? nvar then add (mgrad s v) (dv v) else mgrad s v)
       (fun v => if v <? nvar then add (mlin s v) (dv v) else mlin s v)
       (vex s) (vp s) (vidx s) (vdiag s) (eorig s) (ey s) (eact s) (evar s) (eavar s)
       (evsum s) (ediag s) (actex s) (actvar s) (munshr s).

(* ---------------- the constructor ---------------- *)
Definition init_state (y0 : nat -> nat) (lin0 : nat -> nat -> A) : mst :=
  let ex := fun v => v / P in
  let pp := fun v => v mod P in
  let l := fun v => lin0 (ex v) (pp v) in
  mkst (fun _ => zero) l l ex pp pp
       (fun v => mul (Mq (ncl * (y0 (ex v) * P + pp v) + y0 (ex v)) (pp v)) (K0 (ex v) (ex v)))
       (fun e => e) y0 (fun _ => P) (fun e p => P * e + p) (fun e p => P * e + p)
       (fun _ => zero) (fun e => K0 e e) n nvar false.

(* ---------------- histories ---------------- *)
Inductive mop := MSmo (v w : nat) | MShrink (eps : A) | MUnshrink | MAddLin (d : nat -> nat -> A).

(* simplex = true: QpMcSimplexDecomp, false: QpMcBoxDecomp; shrinking = m_useShrinking *)
Definition mstep (simplex shrinking : bool) (s : mst) (o : mop) : mst :=
  match o with
  | MSmo v w => if simplex then simplex_smo s v w else box_smo s v w
  | MShrink eps => if simplex then simplex_shrink shrinking eps s else box_shrink shrinking eps s
  | MUnshrink => unshrink s
  | MAddLin d => add_delta_linear s d
  end.

Definition mrun (simplex shrinking : bool) (s : mst) (ops : list mop) : mst :=
  fold_left (mstep simplex shrinking) ops s.

End State.

Arguments malpha {A}. Arguments mgrad {A}. Arguments mlin {A}. Arguments vex {A}. Arguments vp {A}.
Arguments vidx {A}. Arguments vdiag {A}. Arguments eorig {A}. Arguments ey {A}. Arguments eact {A}.
Arguments evar {A}. Arguments eavar {A}. Arguments evsum {A}. Arguments ediag {A}. Arguments actex {A}.
Arguments actvar {A}. Arguments munshr {A}. Arguments mkst {A}.
Arguments kpos {A}. Arguments Mq {A}. Arguments set_ag {A}. Arguments set_agv {A}. Arguments set_unshr {A}.
Arguments gu_entries {A}. Arguments gu_avar {A}. Arguments gu_example {A}. Arguments gu_loop {A}.
Arguments grad_update {A}. Arguments box_smo {A}. Arguments valpha {A}. Arguments simplex_smo {A}.
Arguments deact_var {A}. Arguments deact_ex {A}. Arguments sdeact_var {A}.
Arguments us_entries {A}. Arguments us_avar {A}. Arguments us_example {A}. Arguments us_exloop {A}.
Arguments us_varloop {A}. Arguments unshrink {A}. Arguments box_largest {A}. Arguments box_can_shrink {A}.
Arguments box_shrink_vars {A}. Arguments box_shrink_exs {A}. Arguments box_shrink {A}.
Arguments mvp_up {A}. Arguments mvp_down {A}. Arguments skkt {A}. Arguments sdeact_down {A}.
Arguments sshrink_case1 {A}. Arguments sshrink_example {A}. Arguments sshrink_loop {A}.
Arguments simplex_shrink {A}. Arguments add_delta_linear {A}. Arguments init_state {A}.
Arguments MSmo {A}. Arguments MShrink {A}. Arguments MUnshrink {A}. Arguments MAddLin {A}.
Arguments mstep {A}. Arguments mrun {A}.
