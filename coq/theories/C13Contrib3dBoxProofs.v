(* C13 — 3-D contributions, part 1: box lists.  Cell counts, areas and values of box lists; the effect of
   cutBoxesOnTheLeft / cutBoxesOnTheRight / the boxes created for a new point, cell by cell. *)
From Coq Require Import List ZArith Lia Bool Arith Sorted.
From SharkV Require Import ListAux C13Model C13Proofs C13WfgProofs C13HsspFrontProofs C13ContribMd C13Contrib3d.
Import ListNotations.
Local Open Scope Z_scope.

Definition b2z (b : bool) : Z := if b then 1 else 0.

Definition inb (b : Box) (v w : Z) : bool :=
  (lx b <=? v) && (v <? ux b) && (ly b <=? w) && (w <? uy b).
Definition cnt (bs : list Box) (v w : Z) : Z := fold_right (fun b s => b2z (inb b v w) + s) 0 bs.
Definition area (b : Box) : Z := (ux b - lx b) * (uy b - ly b).
Definition areas (bs : list Box) : Z := fold_right (fun b s => area b + s) 0 bs.
Definition val (bs : list Box) (z : Z) : Z := fold_right (fun b s => vol b z + s) 0 bs.

Lemma cnt_cons x a v w : cnt (x :: a) v w = b2z (inb x v w) + cnt a v w.
Proof. reflexivity. Qed.
Lemma val_cons x a z : val (x :: a) z = vol x z + val a z.
Proof. reflexivity. Qed.
Lemma areas_cons x a : areas (x :: a) = area x + areas a.
Proof. reflexivity. Qed.
Lemma cnt_app a b v w : cnt (a ++ b) v w = cnt a v w + cnt b v w.
Proof. induction a as [|x a IH]; [change (cnt b v w = 0 + cnt b v w); lia|]. rewrite <- app_comm_cons, !cnt_cons, IH. lia. Qed.
Lemma val_app a b z : val (a ++ b) z = val a z + val b z.
Proof. induction a as [|x a IH]; [change (val b z = 0 + val b z); lia|]. rewrite <- app_comm_cons, !val_cons, IH. lia. Qed.
Lemma cnt_rev a v w : cnt (rev a) v w = cnt a v w.
Proof. induction a as [|x a IH]; auto. cbn [rev]. rewrite cnt_app, IH, !cnt_cons. cbn. lia. Qed.
Lemma val_rev a z : val (rev a) z = val a z.
Proof. induction a as [|x a IH]; auto. cbn [rev]. rewrite val_app, IH, !val_cons. cbn. lia. Qed.

Lemma close_all_val bs z : close_all bs z = val bs z.
Proof.
  unfold close_all. assert (G : forall a, fold_left (fun a b => a + vol b z) bs a = a + val bs z).
  { induction bs as [|b bs IH]; intros a; [cbn; lia|]. cbn [fold_left]. rewrite IH, val_cons. lia. }
  rewrite G. lia.
Qed.

Lemma val_advance bs z z' : val bs z' = val bs z + (z' - z) * areas bs.
Proof.
  induction bs as [|b bs IH]; [cbn; lia|]. rewrite !val_cons, areas_cons, IH. unfold vol, area. lia.
Qed.

(* ---------------------------------------------------------------------------------------- *)
(* sums over cells *)
Definition sum2 (c0 b0 : Z) (f : Z -> Z -> Z) : Z := zsum b0 0 (fun w => zsum c0 0 (fun v => f v w)).

Lemma sum2_ext c0 b0 f g : (forall v w, c0 <= v < 0 -> b0 <= w < 0 -> f v w = g v w) -> sum2 c0 b0 f = sum2 c0 b0 g.
Proof. intros H. unfold sum2. apply zsum_ext. intros w Hw. apply zsum_ext. intros v Hv. auto. Qed.

Lemma sum2_plus c0 b0 f g : sum2 c0 b0 (fun v w => f v w + g v w) = sum2 c0 b0 f + sum2 c0 b0 g.
Proof.
  unfold sum2. rewrite <- zsum_plus. apply zsum_ext. intros w _. now rewrite <- zsum_plus.
Qed.

Lemma sum2_zero c0 b0 : sum2 c0 b0 (fun _ _ => 0) = 0.
Proof. unfold sum2. apply zsum_zero. intros. apply zsum_zero. auto. Qed.

Lemma zsum_interval lo hi a b : lo <= a -> a <= b -> b <= hi ->
  zsum lo hi (fun z => b2z ((a <=? z) && (z <? b))) = b - a.
Proof.
  intros H1 H2 H3. rewrite (zsum_split lo a hi) by lia. rewrite (zsum_split a b hi) by lia.
  rewrite (zsum_zero lo a), (zsum_zero b hi).
  - rewrite (zsum_ext a b _ (fun _ => 1)); [rewrite zsum_const; lia|].
    intros z Hz. destruct (Z.leb_spec a z), (Z.ltb_spec z b); cbn; lia.
  - intros z Hz. destruct (Z.leb_spec a z), (Z.ltb_spec z b); cbn; lia.
  - intros z Hz. destruct (Z.leb_spec a z), (Z.ltb_spec z b); cbn; lia.
Qed.

Lemma zsum_scale lo hi c f : zsum lo hi (fun z => c * f z) = c * zsum lo hi f.
Proof.
  unfold zsum. generalize (Z.to_nat (hi - lo)). intros n. revert lo.
  induction n as [|n IH]; intros lo; cbn [zsum_n]; [lia|]. rewrite IH. lia.
Qed.

Definition box_ok (c0 b0 : Z) (b : Box) : Prop :=
  c0 <= lx b /\ lx b <= ux b /\ ux b <= 0 /\ b0 <= ly b /\ ly b <= uy b /\ uy b <= 0.

Lemma sum2_box c0 b0 b : box_ok c0 b0 b -> sum2 c0 b0 (fun v w => b2z (inb b v w)) = area b.
Proof.
  intros (H1 & H2 & H3 & H4 & H5 & H6). unfold sum2, area.
  rewrite (zsum_ext b0 0 _ (fun w => b2z ((ly b <=? w) && (w <? uy b)) * (ux b - lx b))).
  - rewrite (zsum_ext b0 0 _ (fun w => (ux b - lx b) * b2z ((ly b <=? w) && (w <? uy b)))) by (intros; lia).
    rewrite zsum_scale, zsum_interval by lia. lia.
  - intros w Hw. rewrite <- (zsum_interval c0 0 (lx b) (ux b)) by lia.
    rewrite <- zsum_scale. apply zsum_ext. intros v Hv. unfold inb.
    destruct (lx b <=? v), (v <? ux b), (ly b <=? w), (w <? uy b); reflexivity.
Qed.

Lemma sum2_cnt c0 b0 bs : Forall (box_ok c0 b0) bs -> sum2 c0 b0 (cnt bs) = areas bs.
Proof.
  induction 1 as [|b bs Hb HF IH].
  - apply sum2_zero.
  - rewrite areas_cons, <- IH, <- (sum2_box c0 b0 b Hb), <- sum2_plus. apply sum2_ext. intros. reflexivity.
Qed.

(* ---------------------------------------------------------------------------------------- *)
(* structure of the box list of a front point with first / second objective (x, y) *)
Inductive chain : Z -> list Box -> Prop :=
| chain_nil x : chain x []
| chain_cons x b bs : lx b = x -> lx b <= ux b -> chain (ux b) bs -> chain x (b :: bs).

Definition SB (x y : Z) (bs : list Box) : Prop :=
  chain x bs /\ Forall (fun b => ly b = y /\ y <= uy b) bs /\ StronglySorted (fun b b' => uy b' <= uy b) bs.

Lemma chain_lx_ge x bs : chain x bs -> forall b, In b bs -> x <= lx b /\ lx b <= ux b.
Proof.
  induction 1 as [|x b bs E Hle Hc IH]; intros b' Hin; [destruct Hin|].
  destruct Hin as [<-|Hin]; [lia|]. specialize (IH b' Hin). lia.
Qed.

(* end of the chain: ux of the last box (x for the empty list) *)
Fixpoint chain_end (x : Z) (bs : list Box) : Z := match bs with [] => x | b :: t => chain_end (ux b) t end.

Lemma chain_end_ge x bs : chain x bs -> x <= chain_end x bs.
Proof. induction 1 as [|x b bs E Hle Hc IH]; cbn [chain_end]; lia. Qed.

Lemma chain_app x a b : chain x (a ++ b) <-> chain x a /\ chain (chain_end x a) b.
Proof.
  revert x. induction a as [|c a IH]; intros x; cbn [app chain_end].
  - split; [intros H; split; [constructor|auto]|tauto].
  - split.
    + intros H. inversion H; subst. apply IH in H5. destruct H5. split; auto. constructor; auto.
    + intros [H1 H2]. inversion H1; subst. constructor; auto. apply IH. auto.
Qed.

Lemma chain_end_app x a b : chain_end x (a ++ b) = chain_end (chain_end x a) b.
Proof. revert x. induction a as [|c a IH]; intros x; cbn [app chain_end]; auto. Qed.

(* a cell left of the start of a chain, or right of its end, is in none of its boxes *)
Lemma cnt_chain_out x bs v w : chain x bs -> (v < x \/ chain_end x bs <= v) -> cnt bs v w = 0.
Proof.
  induction 1 as [|x b bs E Hle Hc IH]; intros Hv; [reflexivity|]. rewrite cnt_cons. cbn [chain_end] in Hv.
  pose proof (chain_end_ge _ _ Hc). rewrite IH by lia. unfold inb.
  destruct (Z.leb_spec (lx b) v), (Z.ltb_spec v (ux b)); cbn; lia.
Qed.

(* ---------------------------------------------------------------------------------------- *)
(* cutBoxesOnTheLeft *)
Lemma cut_left_rev_val p : forall revl acc a r, cut_left_rev revl p acc = (a, r) ->
  a + val r (f3 p) = acc + val revl (f3 p).
Proof.
  induction revl as [|b t IH]; intros acc a r E; cbn [cut_left_rev] in E.
  - inversion E; subst. lia.
  - rewrite val_cons. destruct (f1 p <? lx b).
    + apply IH in E. lia.
    + destruct (f1 p <? ux b); inversion E; subst; rewrite ?val_cons; unfold vol; cbn [lx ly lz ux uy]; lia.
Qed.

Lemma cut_left_val l p a l' : cut_left l p = (a, l') -> a + val l' (f3 p) = val l (f3 p).
Proof.
  unfold cut_left. destruct (cut_left_rev (rev l) p 0) as [a0 r] eqn:E. intros H. inversion H; subst.
  apply cut_left_rev_val in E. rewrite val_rev in *. lia.
Qed.

(* on the reversed list: the boxes are chained backwards *)
Lemma cut_left_cells x y p : forall l a l', SB x y l -> cut_left l p = (a, l') -> x <= f1 p ->
  SB x y l' /\ forall v w, cnt l' v w = if v <? f1 p then cnt l v w else 0.
Proof.
  intros l. induction l as [|b l IH] using rev_ind; intros a l' HS E Hx.
  - cbn in E. inversion E; subst. split; auto. intros v w. destruct (v <? f1 p); reflexivity.
  - unfold cut_left in E. rewrite rev_app_distr in E. cbn [rev app cut_left_rev] in E.
    destruct HS as [Hc [Hf Hs]]. apply chain_app in Hc. destruct Hc as [Hc1 Hc2].
    inversion Hc2 as [|? ? ? Elx Hle Hc3]; subst. clear Hc3.
    apply Forall_app in Hf. destruct Hf as [Hf1 Hf2]. pose proof (Forall_inv Hf2) as [Hly Huy].
    apply C13HsspFrontProofs.SS_app in Hs. destruct Hs as [Hs1 [_ Hs12]].
    assert (HSl : SB x y l) by (split; auto).
    destruct (Z.ltb_spec (f1 p) (lx b)) as [Hlt|Hge].
    + (* the last box is completely covered: popped *)
      destruct (cut_left_rev (rev l) p (0 + vol b (f3 p))) as [a0 r] eqn:E0. inversion E as [[Ea Er]]. subst a l'.
      assert (E1 : cut_left l p = (a0 - vol b (f3 p), rev r)).
      { unfold cut_left. destruct (cut_left_rev (rev l) p 0) as [a1 r1] eqn:E1.
        pose proof (cut_left_rev_val p _ _ _ _ E0). pose proof (cut_left_rev_val p _ _ _ _ E1).
        assert (G : forall revl acc acc', snd (cut_left_rev revl p acc) = snd (cut_left_rev revl p acc')).
        { induction revl as [|c t IHt]; intros acc acc'; cbn [cut_left_rev]; auto.
          destruct (f1 p <? lx c); auto. destruct (f1 p <? ux c); auto. }
        pose proof (G (rev l) 0 (0 + vol b (f3 p))) as G1. rewrite E0, E1 in G1. cbn in G1. subst r1.
        f_equal. lia. }
      destruct (IH _ _ HSl E1 Hx) as [HS' Hcnt]. split; auto.
      intros v w. rewrite Hcnt, cnt_app, cnt_cons. cbn [cnt fold_right].
      destruct (Z.ltb_spec v (f1 p)); auto. unfold inb. destruct (Z.leb_spec (lx b) v); cbn; lia.
    + destruct (Z.ltb_spec (f1 p) (ux b)) as [Hlt2|Hge2]; inversion E as [[Ea Er]]; subst a l'.
      * (* partly covered: truncated *)
        cbn [rev]. rewrite rev_involutive. split.
        -- split; [|split].
           ++ apply chain_app. split; auto. constructor; cbn [lx ux]; auto; constructor.
           ++ apply Forall_app. split; auto.
           ++ apply C13HsspFrontProofs.SS_app. split; auto. split; [repeat constructor|].
              intros c c' Hc [<-|[]]. cbn [uy]. apply (Hs12 c b); auto. now left.
        -- intros v w. rewrite !cnt_app, !cnt_cons. cbn [cnt fold_right]. unfold inb. cbn [lx ly ux uy].
           destruct (Z.ltb_spec v (f1 p)).
           ++ destruct (Z.leb_spec (lx b) v), (Z.ltb_spec v (ux b)); cbn; try lia.
           ++ rewrite (cnt_chain_out x l v w Hc1) by lia.
              destruct (Z.leb_spec (lx b) v); cbn; lia.
      * (* uncovered *)
        cbn [rev]. rewrite rev_involutive. split; [split; [apply chain_app|]; auto|].
        { split; [apply Forall_app; auto|apply C13HsspFrontProofs.SS_app; split; auto; split; auto; repeat constructor]. }
        intros v w. destruct (Z.ltb_spec v (f1 p)); auto.
        rewrite cnt_app, cnt_cons. cbn [cnt fold_right]. rewrite (cnt_chain_out x l v w Hc1) by lia.
        unfold inb. destruct (Z.leb_spec (lx b) v), (Z.ltb_spec v (ux b)); cbn; lia.
Qed.

(* ---------------------------------------------------------------------------------------- *)
(* cutBoxesOnTheRight *)
Lemma cut_right_loop_spec p : forall l acc xr a xr' l', cut_right_loop l p acc xr = (a, xr', l') ->
  exists popped, l = popped ++ l' /\ a = acc + val popped (f3 p) /\ xr' = chain_end xr popped /\
    (forall b, In b popped -> f2 p < uy b) /\
    match l' with [] => True | b :: _ => uy b <= f2 p end.
Proof.
  induction l as [|b t IH]; intros acc xr a xr' l' E; cbn [cut_right_loop] in E.
  - inversion E; subst. exists []. cbn. repeat split; auto; try lia; intros b [].
  - destruct (Z.leb_spec (uy b) (f2 p)).
    + inversion E; subst. exists []. cbn. repeat split; auto; try lia; intros b0 [].
    + destruct (IH _ _ _ _ _ E) as [pp [E1 [E2 [E3 [E4 E5]]]]]. exists (b :: pp). subst.
      cbn [app chain_end]. rewrite val_cons. repeat split; auto; try lia. intros b0 [<-|Hb]; auto.
Qed.

(* the boxes of a chain that are all taller than the cell's second coordinate: one vertical strip *)
Lemma cnt_chain_tall x y bs v w : chain x bs -> (forall b, In b bs -> ly b = y /\ w < uy b) ->
  cnt bs v w = b2z ((x <=? v) && (v <? chain_end x bs) && (y <=? w)).
Proof.
  induction 1 as [x|x b bs E Hle Hc IH]; intros Hb.
  - cbn [cnt fold_right chain_end]. destruct (Z.leb_spec x v), (Z.ltb_spec v x); cbn; lia.
  - rewrite cnt_cons, IH by (intros; apply Hb; now right). cbn [chain_end].
    destruct (Hb b (or_introl eq_refl)) as [Hly Huy]. pose proof (chain_end_ge _ _ Hc).
    unfold inb. rewrite Hly, E.
    destruct (Z.leb_spec x v), (Z.ltb_spec v (ux b)), (Z.leb_spec y w), (Z.ltb_spec w (uy b)),
             (Z.leb_spec (ux b) v), (Z.ltb_spec v (chain_end (ux b) bs)); cbn; lia.
Qed.

Lemma cnt_short bs v w : (forall b, In b bs -> uy b <= w) -> cnt bs v w = 0.
Proof.
  induction bs as [|b bs IH]; intros H; [reflexivity|]. rewrite cnt_cons, IH by (intros; apply H; now right).
  pose proof (H b (or_introl eq_refl)). unfold inb. destruct (Z.ltb_spec w (uy b)); [lia|].
  now rewrite !andb_false_r.
Qed.

Lemma cut_right_val l p rgt a l' : cut_right l p rgt = (a, l') -> a + val l' (f3 p) = val l (f3 p).
Proof.
  unfold cut_right. destruct l as [|b0 t]; [intros E; inversion E; subst; cbn; lia|].
  destruct (cut_right_loop (b0 :: t) p 0 (f1 rgt)) as [[acc xr'] l1] eqn:E.
  destruct (cut_right_loop_spec p _ _ _ _ _ _ E) as [pp [E1 [E2 _]]]. rewrite E1, val_app.
  destruct (xr' =? f1 rgt); intros H; inversion H; subst; rewrite ?val_cons; unfold vol; cbn [lx ly lz ux uy]; lia.
Qed.

Lemma cut_right_cells l p rgt a l' : SB (f1 rgt) (f2 rgt) l -> f2 rgt <= f2 p -> cut_right l p rgt = (a, l') ->
  SB (f1 rgt) (f2 rgt) l' /\ forall v w, cnt l' v w = if w <? f2 p then cnt l v w else 0.
Proof.
  intros HS Hy. unfold cut_right. destruct l as [|b0 t] eqn:El.
  { intros E. inversion E; subst. split; auto. intros v w. destruct (w <? f2 p); reflexivity. }
  rewrite <- El in *. clear El b0 t.
  destruct (cut_right_loop l p 0 (f1 rgt)) as [[acc xr'] l1] eqn:E.
  destruct (cut_right_loop_spec p _ _ _ _ _ _ E) as [pp [E1 [E2 [E3 [E4 E5]]]]].
  destruct HS as [Hc [Hf Hs]]. rewrite E1 in Hc, Hf, Hs. apply chain_app in Hc. destruct Hc as [Hc1 Hc2].
  apply Forall_app in Hf. destruct Hf as [Hf1 Hf2]. apply C13HsspFrontProofs.SS_app in Hs. destruct Hs as [Hs1 [Hs2 Hs12]].
  rewrite <- E3 in Hc2. pose proof (chain_end_ge _ _ Hc1) as Hge. rewrite <- E3 in Hge.
  assert (Hshort : forall b, In b l1 -> uy b <= f2 p).
  { destruct l1 as [|b1 t1]; [intros b []|]. intros b [<-|Hb]; auto.
    apply StronglySorted_inv in Hs2. destruct Hs2 as [_ HF]. rewrite Forall_forall in HF. specialize (HF b Hb). lia. }
  assert (Hpp : forall v w, w < f2 p -> cnt pp v w = b2z ((f1 rgt <=? v) && (v <? xr') && (f2 rgt <=? w))).
  { intros v w Hw. rewrite E3. apply cnt_chain_tall; auto. intros b Hb. rewrite Forall_forall in Hf1.
    split; [apply Hf1; auto|]. specialize (E4 b Hb). lia. }
  destruct (Z.eqb_spec xr' (f1 rgt)) as [Heq|Hne]; intros H; inversion H; subst a l'.
  - split.
    + split; [|split]; auto. rewrite <- Heq. auto.
    + intros v w. rewrite E1, cnt_app. destruct (Z.ltb_spec w (f2 p)).
      * rewrite Hpp by auto. rewrite Heq. destruct (Z.leb_spec (f1 rgt) v), (Z.ltb_spec v (f1 rgt)); cbn; lia.
      * apply cnt_short. intros b Hb. specialize (Hshort b Hb). lia.
  - split.
    + split; [|split].
      * constructor; cbn [lx ux]; auto.
      * constructor; auto.
      * constructor; auto. apply Forall_forall. intros b Hb. cbn [uy]. auto.
    + intros v w. rewrite E1, cnt_app, cnt_cons. unfold inb at 1. cbn [lx ly ux uy].
      destruct (Z.ltb_spec w (f2 p)).
      * rewrite Hpp by auto.
        destruct (Z.leb_spec (f1 rgt) v), (Z.ltb_spec v xr'), (Z.leb_spec (f2 rgt) w); cbn; lia.
      * rewrite (cnt_short l1) by (intros b Hb; specialize (Hshort b Hb); lia).
        rewrite !andb_false_r. reflexivity.
Qed.

(* ---------------------------------------------------------------------------------------- *)
(* the boxes of a new point *)
Definition cov2b (d : P3) (v w : Z) : bool := (f1 d <=? v) && (f2 d <=? w).

Definition firstx (dom : list P3) (xr : Z) : Z := match dom with [] => xr | d :: _ => f1 d end.
Fixpoint tailb (p : P3) (dom : list P3) (xr : Z) : list Box :=
  match dom with
  | [] => []
  | d :: t => mkBox (f1 d) (f2 p) (f3 p) (firstx t xr) (f2 d) :: tailb p t xr
  end.
Definition mkboxes (p : P3) (x0 y0 : Z) (dom : list P3) (xr : Z) : list Box :=
  mkBox x0 (f2 p) (f3 p) (firstx dom xr) y0 :: tailb p dom xr.

Lemma mkboxes_cons p x0 y0 d t xr :
  mkboxes p x0 y0 (d :: t) xr = mkBox x0 (f2 p) (f3 p) (f1 d) y0 :: mkboxes p (f1 d) (f2 d) t xr.
Proof. reflexivity. Qed.

Fixpoint stairs (x0 y0 : Z) (dom : list P3) (xr : Z) : Prop :=
  match dom with
  | [] => x0 <= xr
  | d :: t => x0 <= f1 d /\ f2 d <= y0 /\ stairs (f1 d) (f2 d) t xr
  end.

Lemma stairs_bounds : forall dom x0 y0 xr, stairs x0 y0 dom xr ->
  x0 <= xr /\ forall d, In d dom -> x0 <= f1 d /\ f1 d <= xr /\ f2 d <= y0.
Proof.
  induction dom as [|d t IH]; intros x0 y0 xr H; cbn [stairs] in H.
  - split; auto. intros d [].
  - destruct H as [H1 [H2 H3]]. destruct (IH _ _ _ H3) as [H4 H5]. split; [lia|].
    intros e [<-|He]; [lia|]. specialize (H5 e He). lia.
Qed.

Lemma forallb_not_cov_left dom v w : (forall d, In d dom -> v < f1 d) ->
  forallb (fun d => negb (cov2b d v w)) dom = true.
Proof.
  intros H. apply forallb_forall. intros d Hd. specialize (H d Hd). unfold cov2b.
  destruct (Z.leb_spec (f1 d) v); [lia|reflexivity].
Qed.

Lemma mkboxes_cells p : forall dom x0 y0 xr, stairs x0 y0 dom xr -> forall v w,
  cnt (mkboxes p x0 y0 dom xr) v w =
  b2z ((x0 <=? v) && (v <? xr) && (f2 p <=? w) && (w <? y0) && forallb (fun d => negb (cov2b d v w)) dom).
Proof.
  induction dom as [|d t IH]; intros x0 y0 xr HS v w.
  - unfold mkboxes. cbn [tailb firstx forallb]. rewrite cnt_cons. cbn [cnt fold_right]. unfold inb. cbn [lx ly ux uy].
    rewrite andb_true_r. lia.
  - rewrite mkboxes_cons, cnt_cons. cbn [stairs] in HS. destruct HS as [H1 [H2 H3]].
    rewrite (IH _ _ _ H3). destruct (stairs_bounds _ _ _ _ H3) as [H4 H5].
    unfold inb. cbn [lx ly ux uy forallb]. unfold cov2b at 2.
    destruct (Z.ltb_spec v (f1 d)) as [Hv|Hv].
    + rewrite (forallb_not_cov_left t v w) by (intros e He; specialize (H5 e He); lia).
      destruct (Z.leb_spec (f1 d) v); [lia|]. cbn [andb negb].
      destruct (Z.leb_spec x0 v), (Z.ltb_spec v xr), (Z.leb_spec (f2 p) w), (Z.ltb_spec w y0); cbn; lia.
    + destruct (Z.leb_spec (f1 d) v); [|lia]. cbn [andb].
      destruct (Z.leb_spec x0 v); [|lia].
      destruct (Z.ltb_spec v xr), (Z.leb_spec (f2 p) w), (Z.ltb_spec w y0), (Z.ltb_spec w (f2 d)), (Z.leb_spec (f2 d) w);
        cbn; try lia; destruct (forallb _ t); cbn; lia.
Qed.

Lemma mkboxes_val p x0 y0 dom xr : val (mkboxes p x0 y0 dom xr) (f3 p) = 0.
Proof.
  unfold mkboxes. rewrite val_cons. unfold vol at 1. cbn [lz].
  assert (G : val (tailb p dom xr) (f3 p) = 0).
  { induction dom as [|d t IH]; [reflexivity|]. cbn [tailb]. rewrite val_cons, IH. unfold vol. cbn [lz]. lia. }
  rewrite G. lia.
Qed.

Lemma mkboxes_SB p : forall dom x0 y0 xr, stairs x0 y0 dom xr -> f2 p <= y0 -> (forall d, In d dom -> f2 p <= f2 d) ->
  SB x0 (f2 p) (mkboxes p x0 y0 dom xr) /\
  forall b, In b (mkboxes p x0 y0 dom xr) -> x0 <= lx b /\ ux b <= xr /\ uy b <= y0.
Proof.
  induction dom as [|d t IH]; intros x0 y0 xr HS Hy Hd.
  - cbn [stairs] in HS. unfold mkboxes. cbn [tailb firstx]. split.
    + split; [|split]; repeat constructor; cbn [lx ly ux uy]; auto.
    + intros b [<-|[]]. cbn [lx ux uy]. lia.
  - rewrite mkboxes_cons. cbn [stairs] in HS. destruct HS as [H1 [H2 H3]].
    destruct (IH _ _ _ H3 (Hd d (or_introl eq_refl)) (fun e He => Hd e (or_intror He))) as [[A [B C]] Dd].
    destruct (stairs_bounds _ _ _ _ H3) as [H4 _]. split.
    + split; [|split].
      * constructor; cbn [lx ux]; auto.
      * constructor; auto.
      * constructor; auto. apply Forall_forall. intros b Hb. cbn [uy]. specialize (Dd b Hb). lia.
    + intros b [<-|Hb]; [cbn [lx ux uy]; lia|]. specialize (Dd b Hb). lia.
Qed.

(* the loop over the dominated points builds exactly these boxes *)
Lemma dom_fold_boxes (pts : list P3) p boxlists : forall dom xr c nb,
  (forall d, In d dom -> f1 (nth (idx d) pts (mkP3 0 0 0 0)) = f1 d /\ f2 (nth (idx d) pts (mkP3 0 0 0 0)) = f2 d) ->
  let '(x, c', nb') := fold_left (dom_step pts p boxlists) (rev (map idx dom)) (xr, c, nb) in
  x = firstx dom xr /\ nb' = tailb p dom xr ++ nb /\
  c' = fold_left (fun c d => add_at d (close_all (nth d boxlists []) (f3 p)) c) (rev (map idx dom)) c.
Proof.
  induction dom as [|d t IH]; intros xr c nb Hc.
  - cbn. auto.
  - cbn [map rev]. rewrite !fold_left_app. cbn [fold_left].
    specialize (IH xr c nb (fun e He => Hc e (or_intror He))).
    destruct (fold_left (dom_step pts p boxlists) (rev (map idx t)) (xr, c, nb)) as [[x1 c1] nb1].
    destruct IH as [E1 [E2 E3]]. subst. unfold dom_step at 1.
    destruct (Hc d (or_introl eq_refl)) as [G1 G2]. rewrite G1, G2. cbn [tailb app firstx]. auto.
Qed.
