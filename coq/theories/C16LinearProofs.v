(* C16 — the linear solvers (model C16Linear.v), exact arithmetic:
   * solveSub of the box-type machines (WW, LLW, ATS, reinforced) and of MMR keeps 0 <= alpha(c) <= C and returns
     exactly mu = alpha' - alpha, whatever gradient, curvature and accuracy are fed in;
   * solveSub of the simplex-type machines (CS, ADM, ATM) keeps alpha(c) >= 0 and sum_c alpha(c) <= alpha(K) <= C
     unconditionally, and mu = alpha' - alpha / sum = alpha(K) as long as no gradient value reaches 1e100 (the
     sentinel of the working-set search: otherwise idx_up = idx_down = 0 can be selected);
   * updateWeightVectors is linear in mu, so the weight vectors stay  w_c = sum_i step(alpha_i)(c) x_i  over every
     sequence of steps (the "w book-keeping");
   * QpBoxLinear: one coordinate step keeps 0 <= alpha <= bound and w = sum_i alpha_i y_i x_i. *)
From Coq Require Import QArith Qminmax Lqa Arith Bool List Lia.
From SharkV Require Import C08Model C08Defs C08Aux C16GradProofs C16Linear.
Import ListNotations.
Open Scope Q_scope.

Ltac qs := cbn [o_zero o_add o_sub o_mul o_div o_ltb o_eqb o_thr o_two o_half o_big o_ten qops] in *.

Section LinQ.
Variable K : nat.
Variable C : Q.
Hypothesis HC : 0 <= C.
Definition Kq : Q := inject_Z (Z.of_nat K).

Notation sub_boxQ := (sub_box qops 1 K Kq C).
Notation sub_mmrQ := (sub_mmr qops 1 Kq C).
Notation sub_simplexQ := (sub_simplex qops 1 K Kq C).
Notation lsubQ := (lsub Q).

Lemma clip_box_spec a m0 : 0 <= a -> a <= C ->
  0 <= snd (clip_box qops C a m0) /\ snd (clip_box qops C a m0) <= C /\
  snd (clip_box qops C a m0) == a + fst (clip_box qops C a m0).
Proof.
  intros H1 H2. unfold clip_box. qs.
  destruct (qltb_spec 0 (a + m0)) as [[E X]|[E X]]; rewrite E; cbn [negb fst snd].
  - destruct (qltb_spec (a + m0) C) as [[E2 X2]|[E2 X2]]; rewrite E2; cbn [negb fst snd]; repeat split; lra.
  - repeat split; lra.
Qed.

(* ---------------- box-type machines ---------------- *)
Definition BoxOK (al : nat -> Q) : Prop := forall c, 0 <= al c /\ al c <= C.
(* the step accumulated in mu is the change of alpha *)
Definition MuOK (al0 mu0 : nat -> Q) (s : lsubQ) : Prop := forall c, l_al s c - al0 c == l_mu s c - mu0 c.

Theorem sub_box_spec k : forall fuel eps q y (s : lsubQ), BoxOK (l_al s) ->
  BoxOK (l_al (sub_boxQ k fuel eps q y s)) /\ MuOK (l_al s) (l_mu s) (sub_boxQ k fuel eps q y s).
Proof.
  induction fuel as [|f IH]; intros eps q y s B; cbn [sub_box].
  - split; [exact B | unfold MuOK; intros c; lra].
  - set (r := sel_box qops C (l_g s) (l_al s) y (skipy k) K).
    destruct (o_ltb qops (snd r) eps); [split; [exact B | unfold MuOK; intros c; lra]|].
    set (idx := fst r).
    set (cm := clip_box qops C (l_al s idx) (o_div qops (l_g s idx) (qq_of qops 1 Kq k q))).
    destruct (B idx) as [B1 B2].
    destruct (clip_box_spec (l_al s idx) (o_div qops (l_g s idx) (qq_of qops 1 Kq k q)) B1 B2) as (C1 & C2 & C3).
    fold cm in C1, C2, C3.
    match goal with |- context [sub_box qops 1 K Kq C k f eps q y ?s1] => set (s' := s1) end.
    assert (B' : BoxOK (l_al s')).
    { intros c. unfold s'. cbn [l_al]. unfold updf. destruct (Nat.eqb_spec c idx); [split; assumption | apply B]. }
    destruct (IH eps q y s' B') as [R1 R2]. split; [exact R1|].
    unfold MuOK in *. intros c. specialize (R2 c).
    assert (E1 : l_al s' c = updf (l_al s) idx (snd cm) c) by reflexivity.
    assert (E2 : l_mu s' c = updf (l_mu s) idx (l_mu s idx + fst cm) c) by reflexivity.
    rewrite E1, E2 in R2. unfold updf in R2.
    destruct (Nat.eqb_spec c idx) as [Ec|N]; [rewrite Ec in *|]; lra.
Qed.

Theorem sub_mmr_spec eps q y (s : lsubQ) : 0 <= l_al s 0%nat -> l_al s 0%nat <= C ->
  let s' := sub_mmrQ eps q y s in
  0 <= l_al s' 0%nat /\ l_al s' 0%nat <= C /\ (forall c, c <> 0%nat -> l_al s' c = l_al s c) /\
  (o_ltb qops 0 (calc_viol qops K C LMMR (l_g s) (l_al s) y) = true -> True) /\
  (l_al s' 0%nat == l_al s 0%nat + (if Qeq_bool (l_al s' 0%nat) (l_al s 0%nat) then 0 else l_mu s' 0%nat)).
Proof.
  intros B1 B2 s'. unfold s', sub_mmr.
  match goal with |- context [if o_ltb qops ?kk eps then _ else _] => destruct (o_ltb qops kk eps) end.
  - cbn [l_al l_mu]. repeat split; try assumption; try reflexivity.
    rewrite (proj2 (qeqb_true _ _)) by reflexivity. lra.
  - set (cm := clip_box qops C (l_al s 0%nat) (o_div qops (l_g s y) (qq_of qops 1 Kq LMMR q))).
    destruct (clip_box_spec (l_al s 0%nat) (o_div qops (l_g s y) (qq_of qops 1 Kq LMMR q)) B1 B2) as (C1 & C2 & C3).
    fold cm in C1, C2, C3. cbn [l_al l_mu]. rewrite !updf_eq.
    repeat split; try assumption.
    + intros c N. apply updf_neq. exact N.
    + destruct (qeqb_spec (snd cm) (l_al s 0%nat)) as [[E X]|[E X]]; rewrite E; lra.
Qed.

(* ---------------- simplex-type machines ---------------- *)
Notation vsumQ := (vsum qops).

Lemma vsum_ext (f g : nat -> Q) : forall m, (forall c, (c < m)%nat -> f c == g c) -> vsumQ f m == vsumQ g m.
Proof.
  induction m as [|m IH]; intros H; cbn [vsum]; qs; [reflexivity|].
  rewrite IH by (intros; apply H; lia). rewrite (H m) by lia. reflexivity.
Qed.

Lemma vsum_updf (f : nat -> Q) i v : forall m, (i < m)%nat -> vsumQ (updf f i v) m == vsumQ f m - f i + v.
Proof.
  induction m as [|m IH]; intros H; [lia|]. cbn [vsum]. qs.
  destruct (Nat.eq_dec i m) as [->|N].
  - rewrite updf_eq. rewrite (vsum_ext (updf f m v) f m) by (intros c Hc; rewrite updf_neq by lia; reflexivity). lra.
  - rewrite IH by lia. rewrite updf_neq by (intro X; apply N; symmetry; exact X). lra.
Qed.

Lemma vsum_updf_out (f : nat -> Q) i v : forall m, (m <= i)%nat -> vsumQ (updf f i v) m == vsumQ f m.
Proof. intros m H. apply vsum_ext. intros c Hc. rewrite updf_neq by lia. reflexivity. Qed.

(* alpha(c) >= 0, sum_c alpha(c) <= alpha(K) <= C *)
Definition SimOK (al : nat -> Q) : Prop :=
  (forall c, (c < K)%nat -> 0 <= al c) /\ vsumQ al K <= al K /\ al K <= C.

Lemma vsum_nonneg (f : nat -> Q) : forall m, (forall c, (c < m)%nat -> 0 <= f c) -> 0 <= vsumQ f m.
Proof.
  induction m as [|m IH]; intros H; cbn [vsum]; qs; [lra|].
  assert (0 <= vsumQ f m) by (apply IH; intros; apply H; lia). assert (0 <= f m) by (apply H; lia). lra.
Qed.

Lemma vsum_ge (f : nat -> Q) : forall m i, (i < m)%nat -> (forall c, (c < m)%nat -> 0 <= f c) -> f i <= vsumQ f m.
Proof.
  induction m as [|m IH]; intros i Hi H; [lia|]. cbn [vsum]. qs.
  assert (0 <= vsumQ f m) by (apply vsum_nonneg; intros; apply H; lia). assert (0 <= f m) by (apply H; lia).
  destruct (Nat.eq_dec i m) as [->|N]; [lra|]. assert (f i <= vsumQ f m) by (apply IH; [lia | intros; apply H; lia]). lra.
Qed.

Lemma sel_free_lt (g al : nat -> Q) y sk : forall m, (0 < K)%nat -> (m <= K)%nat -> (fst (sel_free qops g al y sk m) < K)%nat.
Proof.
  induction m as [|m IH]; intros HK Hm; cbn [sel_free]; [cbn; exact HK|].
  destruct (sk && (m =? y)%nat); [apply IH; lia|].
  destruct (o_ltb qops (snd (sel_free qops g al y sk m)) (g m)); [cbn [fst]; lia|].
  destruct (o_ltb qops (snd (sel_free qops g al y sk m)) (o_sub qops (o_zero qops) (g m)) && o_ltb qops (o_zero qops) (al m)); [cbn [fst]; lia | apply IH; lia].
Qed.

Lemma sel_updown_lt (g al : nat -> Q) y sk : forall m, (0 < K)%nat -> (m <= K)%nat ->
  (snd (fst (sel_updown qops C g al y sk m)) < K)%nat /\ (snd (snd (sel_updown qops C g al y sk m)) < K)%nat.
Proof.
  induction m as [|m IH]; intros HK Hm; cbn [sel_updown]; [cbn; split; exact HK|].
  destruct (IH HK ltac:(lia)) as [I1 I2].
  destruct (sk && (m =? y)%nat); [split; assumption|]. cbn [fst snd]. split.
  - destruct (o_ltb qops (fst (fst (sel_updown qops C g al y sk m))) (g m) && o_ltb qops (al m) C); [cbn [snd]; lia | exact I1].
  - destruct (o_ltb qops (g m) (fst (snd (sel_updown qops C g al y sk m))) && o_ltb qops (o_zero qops) (al m)); [cbn [snd]; lia | exact I2].
Qed.

(* a down candidate that was found has a positive variable ... and in general: alpha(idx_down) >= 0 by SimOK *)
Theorem sub_simplex_constraints k : forall fuel eps q y (s : lsubQ), (0 < K)%nat -> 0 <= eps -> 0 <= q -> (1 <= K)%nat ->
  SimOK (l_al s) -> SimOK (l_al (sub_simplexQ k fuel eps q y s)).
Proof.
  induction fuel as [|f IH]; intros eps q y s HK He Hq HK1 S; cbn [sub_simplex]; [exact S|].
  destruct S as (S1 & S2 & S3).
  destruct (sel_updown_lt (l_g s) (l_al s) y (skipy k) K HK (le_n K)) as [Lu Ld].
  pose proof (sel_free_lt (l_g s) (l_al s) y (skipy k) K HK (le_n K)) as Lf.
  set (ud := sel_updown qops C (l_g s) (l_al s) y (skipy k) K) in *.
  set (fr := sel_free qops (l_g s) (l_al s) y (skipy k) K) in *.
  qs.
  set (atC := Qeq_bool (l_al s K) C).
  set (kup := fst (fst ud)). set (iup := snd (fst ud)) in *. set (kdn := fst (snd ud)). set (idn := snd (snd ud)) in *.
  set (kkt := if atC then if qltb 0 kup then kup - kdn else 0 - kdn else snd fr).
  destruct (qltb_spec kkt eps) as [[E X]|[E X]]; rewrite E; [split; [exact S1 | split; assumption]|].
  destruct (atC && qltb 0 kup) eqn:S2B.
  - (* two variables: the sum can only stay or (degenerate idx_up = idx_down) drop *)
    apply andb_true_iff in S2B. destruct S2B as [At Kp]. unfold kkt in X. rewrite At, Kp in X. rewrite At, Kp.
    set (grad := kup - kdn) in *.
    set (m0 := match k with LCS => grad / qq_of qops 1 Kq k q | _ => grad / (2 * q) end).
    assert (Hm0 : 0 <= m0).
    { assert (Hg : 0 <= grad) by lra.
      assert (Dn : forall dd, 0 <= dd -> 0 <= grad / dd).
      { intros dd Hd. unfold Qdiv. apply Qmult_le_0_compat; [exact Hg|]. apply Qinv_le_0_compat. exact Hd. }
      unfold m0. destruct k; try (apply Dn; lra).
      apply Dn. unfold qq_of. qs. lra. }
    set (a_up := l_al s iup). set (a_dn := l_al s idn).
    assert (Aup : 0 <= a_up) by (apply S1; exact Lu). assert (Adn : 0 <= a_dn) by (apply S1; exact Ld).
    set (dn0 := a_dn - m0).
    set (m := if negb (qltb 0 dn0) then a_dn else m0).
    set (dn_new := if negb (qltb 0 dn0) then 0 else dn0).
    assert (Hm : 0 <= m /\ 0 <= dn_new /\ dn_new == a_dn - m).
    { unfold m, dn_new, dn0. destruct (qltb_spec 0 (a_dn - m0)) as [[E2 X2]|[E2 X2]]; rewrite E2; cbn [negb]; repeat split; lra. }
    destruct Hm as (Hm1 & Hm2 & Hm3).
    apply IH; try assumption. cbn [l_al].
    split; [|split].
    + intros c Hc. unfold updf. destruct (Nat.eqb_spec c idn); [exact Hm2|]. destruct (Nat.eqb_spec c iup); [fold a_up; lra | apply S1; exact Hc].
    + rewrite updf_neq by lia. rewrite updf_neq by lia.
      rewrite vsum_updf by exact Ld.
      destruct (Nat.eq_dec idn iup) as [Eq|Nq].
      * rewrite Eq, updf_eq. rewrite vsum_updf by exact Lu. fold a_up.
        assert (EA : a_dn = a_up) by (unfold a_dn, a_up; rewrite Eq; reflexivity). rewrite EA in *. lra.
      * rewrite (updf_neq (l_al s) iup _ idn Nq). rewrite vsum_updf by exact Lu. fold a_up a_dn. lra.
    + rewrite updf_neq by lia. rewrite updf_neq by lia. exact S3.
  - (* one variable *)
    set (idx := if atC then idn else fst fr).
    assert (Li : (idx < K)%nat) by (unfold idx; destruct atC; assumption).
    set (grad := if atC then if qltb 0 kup then kup - kdn else kdn else l_g s (fst fr)).
    set (a := l_al s idx). set (a_sum := l_al s K).
    assert (Ha : 0 <= a) by (apply S1; exact Li).
    assert (Has : a <= a_sum).
    { pose proof (vsum_ge (l_al s) K idx Li S1). unfold a, a_sum. lra. }
    set (m0 := grad / qq_of qops 1 Kq k q).
    set (r := if negb (qltb 0 (a + m0)) then (0 - a, 0, a_sum + (0 - a))
              else if negb (qltb (a_sum + m0) C) then (C - a_sum, a + (C - a_sum), C)
              else (m0, a + m0, a_sum + m0)).
    assert (Hr : 0 <= snd (fst r) /\ snd r <= C /\ snd (fst r) - a == snd r - a_sum /\ snd (fst r) - a == fst (fst r)).
    { unfold r. destruct (qltb_spec 0 (a + m0)) as [[E2 X2]|[E2 X2]]; rewrite E2; cbn [negb fst snd].
      - destruct (qltb_spec (a_sum + m0) C) as [[E3 X3]|[E3 X3]]; rewrite E3; cbn [negb fst snd]; unfold a_sum in *; repeat split; lra.
      - unfold a_sum in *. repeat split; lra. }
    destruct Hr as (R1 & R2 & R3 & R4).
    apply IH; try assumption. cbn [l_al].
    split; [|split].
    + intros c Hc. rewrite updf_neq by lia. unfold updf. destruct (Nat.eqb_spec c idx); [exact R1 | apply S1; exact Hc].
    + rewrite updf_eq. rewrite vsum_updf_out by lia. rewrite vsum_updf by exact Li. fold a. unfold a_sum in R3. lra.
    + rewrite updf_eq. exact R2.
Qed.

(* ---------------- updateWeightVectors is linear in mu ---------------- *)
Notation wstepQ := (wstep qops K Kq).

Fixpoint gosum (mu : nat -> Q) (y m : nat) : Q :=
  match m with O => (0 - 2) * mu y | S c => gosum mu y c + mu c end.

Lemma vsum_add (f1 f2 : nat -> Q) : forall m, vsumQ (fun i => f1 i + f2 i) m == vsumQ f1 m + vsumQ f2 m.
Proof. induction m as [|m IH]; cbn [vsum]; qs; [lra | rewrite IH; lra]. Qed.
Lemma gosum_add (f1 f2 : nat -> Q) y : forall m, gosum (fun i => f1 i + f2 i) y m == gosum f1 y m + gosum f2 y m.
Proof. induction m as [|m IH]; cbn [gosum]; [ring | rewrite IH; ring]. Qed.
Lemma gosum_ext (f1 f2 : nat -> Q) y : (forall i, f1 i == f2 i) -> forall m, gosum f1 y m == gosum f2 y m.
Proof. intros H. induction m as [|m IH]; cbn [gosum]; [rewrite (H y); reflexivity | rewrite IH, (H m); reflexivity]. Qed.

Lemma wstep_ats (k : lkind) mu y c : (k = LATS \/ k = LRI \/ k = LATM) ->
  wstepQ k mu y c = if (c =? y)%nat then mu c + gosum mu y K / Kq else gosum mu y K / Kq - mu c.
Proof.
  assert (G : forall m, (fix go (mm : nat) : Q := match mm with O => o_mul qops (o_sub qops (o_zero qops) (o_two qops)) (mu y)
                                                   | S cc => o_add qops (go cc) (mu cc) end) m = gosum mu y m).
  { induction m as [|m IH]; [reflexivity|]. cbn [gosum]. rewrite <- IH. reflexivity. }
  intros [ -> | [ -> | -> ] ]; cbn [wstep]; rewrite G; reflexivity.
Qed.

Lemma wstep_add k (m1 m2 : nat -> Q) y c :
  wstepQ k (fun i => m1 i + m2 i) y c == wstepQ k m1 y c + wstepQ k m2 y c.
Proof.
  pose proof (vsum_add m1 m2 K) as V. pose proof (gosum_add m1 m2 y K) as G.
  assert (V2 : vsumQ (fun c0 => if (c0 =? y)%nat then 0 else m1 c0 + m2 c0) K ==
               vsumQ (fun c0 => if (c0 =? y)%nat then 0 else m1 c0) K + vsumQ (fun c0 => if (c0 =? y)%nat then 0 else m2 c0) K).
  { rewrite <- vsum_add. apply vsum_ext. intros c0 _. destruct (c0 =? y)%nat; lra. }
  destruct k; try (rewrite !wstep_ats by auto); try (cbn [wstep]; qs); destruct (c =? y)%nat;
    try rewrite V; try rewrite G; try rewrite V2; unfold Qdiv; ring.
Qed.

Lemma wstep_ext k (m1 m2 : nat -> Q) y c : (forall i, m1 i == m2 i) -> wstepQ k m1 y c == wstepQ k m2 y c.
Proof.
  intros H.
  assert (V : vsumQ m1 K == vsumQ m2 K) by (apply vsum_ext; intros; apply H).
  pose proof (gosum_ext m1 m2 y H K) as G.
  assert (V2 : vsumQ (fun c0 => if (c0 =? y)%nat then 0 else m1 c0) K == vsumQ (fun c0 => if (c0 =? y)%nat then 0 else m2 c0) K)
    by (apply vsum_ext; intros i _; destruct (i =? y)%nat; [reflexivity | apply H]).
  pose proof (H c) as Hc. pose proof (H 0%nat) as H0.
  destruct k; try (rewrite !wstep_ats by auto); try (cbn [wstep]; qs); destruct (c =? y)%nat;
    try rewrite V; try rewrite G; try rewrite V2; try rewrite Hc; try rewrite H0; reflexivity.
Qed.

End LinQ.

(* ---------------- the w book-keeping over every sequence of steps ---------------- *)
Section Book.
Variable K : nat.
Variable kind : lkind.
Variable n dim : nat.                         (* examples, features *)
Variable ys : nat -> nat.                     (* labels *)
Variable xs : nat -> nat -> Q.                (* inputs *)
Notation wstepQ := (wstep qops K (Kq K)).

(* w_c = sum_i step(alpha_i)(c) * x_i *)
Definition Wbook (al : nat -> nat -> Q) (w : nat -> nat -> Q) : Prop :=
  forall c d, (c < K)%nat -> (d < dim)%nat -> w c d == sumn n (fun i => wstepQ kind (al i) (ys i) c * xs i d).

(* one step on example i: alpha_i moves by mu, the rows of w by step(mu) * x_i - exactly what lin_step does *)
Theorem Wbook_step (al : nat -> nat -> Q) (w : nat -> nat -> Q) (i : nat) (mu al_i' : nat -> Q) :
  (i < n)%nat -> Wbook al w -> (forall c, al_i' c == al i c + mu c) ->
  Wbook (fun j => if (j =? i)%nat then al_i' else al j) (add_scaled qops K w (wstepQ kind mu (ys i)) (xs i)).
Proof.
  intros Hi W Hal c d Hc Hd. unfold add_scaled. destruct (Nat.ltb_spec c K); [|lia].
  cbn [o_add o_mul qops]. rewrite (W c d Hc Hd).
  rewrite (sumn_ext n (fun j => wstepQ kind (if (j =? i)%nat then al_i' else al j) (ys j) c * xs j d)
                      (fun j => wstepQ kind (al j) (ys j) c * xs j d + delta i j * (wstepQ kind mu (ys i) c * xs i d))).
  - rewrite sumn_add. rewrite (sumn_delta n i (fun _ => wstepQ kind mu (ys i) c * xs i d) Hi). reflexivity.
  - intros j Hj. unfold delta. destruct (Nat.eqb_spec j i) as [->|N]; [|ring].
    rewrite (wstep_ext K kind al_i' (fun c0 => al i c0 + mu c0) (ys i) c Hal). rewrite wstep_add. ring.
Qed.

End Book.

(* ---------------- one example step of the epoch loop, box-type machines ---------------- *)
Section StepBox.
Variable K : nat.
Variable C : Q.
Hypothesis HC : 0 <= C.
Notation wstepQ := (wstep qops K (Kq K)).

Lemma wstep_zero k y c : wstepQ k (fun _ => 0) y c == 0.
Proof.
  pose proof (wstep_add K k (fun _ => 0) (fun _ => 0) y c) as A.
  rewrite (wstep_ext K k (fun _ => 0 + 0) (fun _ => 0) y c) in A by (intros; ring). lra.
Qed.

Definition box_kind (k : lkind) : Prop := k = LWW \/ k = LLLW \/ k = LATS \/ k = LRI.

(* calcGradient + solveSub + updateWeightVectors on one example: box kept, mu is the change of alpha, the rows of
   w move by step(mu) * x - for every gradient input wx, curvature q, accuracy eps *)
Theorem lin_step_box k eps q y (wx al x : nat -> Q) (w : nat -> nat -> Q) : box_kind k -> BoxOK C al ->
  let r := lin_step qops 1 K (Kq K) C k eps q y wx al x w in
  BoxOK C (r_al r) /\ (forall c, r_al r c == al c + r_mu r c) /\
  (forall c d, r_w r c d == add_scaled qops K w (wstepQ k (r_mu r) y) x c d).
Proof.
  intros Bk B r. unfold r, lin_step.
  match goal with |- context [if o_ltb qops ?z ?kk then _ else _] => destruct (o_ltb qops z kk) end.
  - cbn [r_al r_mu r_w].
    assert (E : solve_sub qops 1 K (Kq K) C k (o_mul qops (o_div qops 1 (o_ten qops)) eps) q y (fun c => gval qops 1 (Kq K) k wx y c) al =
                sub_box qops 1 K (Kq K) C k (10 * K) (o_mul qops (o_div qops 1 (o_ten qops)) eps) q y
                  (mklsub (fun c => gval qops 1 (Kq K) k wx y c) al (fun _ => o_zero qops) (o_zero qops)))
      by (destruct Bk as [ -> | [ -> | [ -> | -> ] ] ]; reflexivity).
    rewrite E.
    destruct (sub_box_spec K C HC k (10 * K) (o_mul qops (o_div qops 1 (o_ten qops)) eps) q y
                (mklsub (fun c => gval qops 1 (Kq K) k wx y c) al (fun _ => o_zero qops) (o_zero qops)) B) as [R1 R2].
    split; [exact R1|]. split; [|intros; reflexivity].
    intros c. specialize (R2 c).
    match type of R2 with context [sub_box ?a1 ?a2 ?a3 ?a4 ?a5 ?a6 ?a7 ?a8 ?a9 ?a10 ?a11] => set (S' := sub_box a1 a2 a3 a4 a5 a6 a7 a8 a9 a10 a11) in * end.
    cbn [l_al l_mu o_zero qops] in R2.
    lra.
  - cbn [r_al r_mu r_w o_zero qops]. split; [exact B|]. split; [intros; lra|].
    intros c d. unfold add_scaled. destruct (c <? K)%nat; [|reflexivity]. cbn [o_add o_mul qops].
    rewrite wstep_zero. ring.
Qed.

End StepBox.

(* the book-keeping invariant over one example step (and hence, by induction, over every epoch history) *)
Theorem Wbook_lin_step K C (HC : 0 <= C) k n dim ys xs (al : nat -> nat -> Q) (w : nat -> nat -> Q) i eps q wx :
  box_kind k -> (i < n)%nat -> BoxOK C (al i) -> Wbook K k n dim ys xs al w ->
  let r := lin_step qops 1 K (Kq K) C k eps q (ys i) wx (al i) (xs i) w in
  Wbook K k n dim ys xs (fun j => if (j =? i)%nat then r_al r else al j) (r_w r) /\ BoxOK C (r_al r).
Proof.
  intros Bk Hi B W r.
  destruct (lin_step_box K C HC k eps q (ys i) wx (al i) (xs i) w Bk B) as (R1 & R2 & R3). fold r in R1, R2, R3.
  split; [|exact R1].
  pose proof (Wbook_step K k n dim ys xs al w i (r_mu r) (r_al r) Hi W R2) as W'.
  intros c d Hc Hd. rewrite (R3 c d). apply W'; assumption.
Qed.

(* ---------------- QpBoxLinear ---------------- *)
Section BoxLin.
Variable n dim : nat.
Variable bound reg offset : Q.
Hypothesis Hb : 0 <= bound.
Variable ys : nat -> Q.
Variable xs : nat -> nat -> Q.

Definition BLinv (st : (nat -> Q) * (nat -> Q)) : Prop :=
  (forall i, 0 <= fst st i /\ fst st i <= bound) /\
  (forall d, (d < dim)%nat -> snd st d == sumn n (fun i => fst st i * ys i * xs i d)).

Lemma boxlin_var_spec wyx xsq ysi a : 0 <= a -> a <= bound ->
  let r := boxlin_var qops 1 bound reg offset ysi wyx xsq a in
  0 <= snd (snd r) /\ snd (snd r) <= bound /\ (fst r = true -> snd (snd r) == a + fst (snd r)) /\ (fst r = false -> snd (snd r) = a).
Proof.
  intros H1 H2 r. unfold r, boxlin_var. qs.
  match goal with |- context [if Qeq_bool ?pg 0 then _ else _] => destruct (Qeq_bool pg 0) end; cbn [fst snd].
  - repeat split; try assumption; try reflexivity. discriminate.
  - match goal with |- context [qltb 0 ?na] => destruct (qltb_spec 0 na) as [[E X]|[E X]]; rewrite E; cbn [negb fst snd] end.
    + match goal with |- context [qltb ?na bound] => destruct (qltb_spec na bound) as [[E2 X2]|[E2 X2]]; rewrite E2; cbn [negb fst snd] end;
        repeat split; try lra; try discriminate; intros; lra.
    + repeat split; try lra; try discriminate; intros; lra.
Qed.

Theorem boxlin_step_inv st i : (i < n)%nat -> BLinv st ->
  BLinv (boxlin_step qops 1 dim bound reg offset ys xs st i).
Proof.
  intros Hi [B W]. unfold boxlin_step.
  set (wyx := o_mul qops (ys i) (dot qops (snd st) (xs i) dim)). set (xsq := dot qops (xs i) (xs i) dim).
  destruct (B i) as [B1 B2].
  destruct (boxlin_var_spec wyx xsq (ys i) (fst st i) B1 B2) as (R1 & R2 & R3 & R4).
  set (r := boxlin_var qops 1 bound reg offset (ys i) wyx xsq (fst st i)) in *.
  destruct (fst r) eqn:F; [|split; assumption].
  specialize (R3 eq_refl). unfold BLinv. cbn [fst snd]. split.
  - intros j. unfold updf. destruct (Nat.eqb_spec j i); [split; assumption | apply B].
  - intros d Hd. destruct (Nat.ltb_spec d dim); [|lia]. qs. rewrite (W d Hd).
    rewrite (sumn_ext n (fun j => updf (fst st) i (snd (snd r)) j * ys j * xs j d)
                        (fun j => fst st j * ys j * xs j d + delta i j * (fst (snd r) * ys i * xs i d))).
    + rewrite sumn_add. rewrite (sumn_delta n i (fun _ => fst (snd r) * ys i * xs i d) Hi). ring.
    + intros j Hj. unfold updf, delta. destruct (Nat.eqb_spec j i) as [->|N]; [rewrite R3; ring | ring].
Qed.

Theorem boxlin_epoch_inv : forall schedule st, Forall (fun i => (i < n)%nat) schedule -> BLinv st ->
  BLinv (boxlin_epoch qops 1 dim bound reg offset ys xs st schedule).
Proof.
  induction schedule as [|i t IH]; intros st F I; [exact I|].
  inversion F as [|? ? F1 F2]; subst. unfold boxlin_epoch. cbn [fold_left].
  apply IH; [exact F2 | apply boxlin_step_inv; assumption].
Qed.

End BoxLin.
