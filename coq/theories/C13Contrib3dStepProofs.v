(* C13 — 3-D contributions, part 3: one iteration of the main loop of allContributions in decomposed form
   (which elements of the front are left neighbour / dominated / right neighbour, what the new front, box lists and
   contributions are), for a front that is a weak staircase between the two sentinels. *)
From Coq Require Import List ZArith Lia Bool Arith Permutation Sorted.
From SharkV Require Import ListAux C13Model C13Proofs C13ProofsContrib C13HsspFrontProofs.
From SharkV Require Import C13ContribMd C13Contrib3d C13Contrib3dBoxProofs C13Contrib3dSpecProofs.
Import ListNotations.
Local Open Scope Z_scope.

(* ---------------------------------------------------------------------------------------- *)
(* span *)
Lemma span_spec {A} (q : A -> bool) : forall l l1 l2, span q l = (l1, l2) ->
  l = l1 ++ l2 /\ (forall x, In x l1 -> q x = true) /\ match l2 with [] => True | x :: _ => q x = false end.
Proof.
  induction l as [|x t IH]; intros l1 l2 E; cbn [span] in E.
  - inversion E; subst. repeat split; auto; try (intros y []).
  - destruct (q x) eqn:Q.
    + destruct (span q t) as [a b] eqn:E2. inversion E; subst. destruct (IH _ _ eq_refl) as [H1 [H2 H3]].
      split; [cbn; now f_equal|]. split; auto. intros y [<-|Hy]; auto.
    + inversion E; subst. repeat split; auto; try (intros y []).
Qed.

Lemma span_app_stop {A} (q : A -> bool) x r : q x = false -> forall l,
  span q (l ++ x :: r) = (fst (span q l), snd (span q l) ++ x :: r).
Proof.
  intros Q. induction l as [|y t IH]; cbn [app span fst snd].
  - now rewrite Q.
  - destruct (q y); [|reflexivity]. rewrite IH. destruct (span q t); reflexivity.
Qed.

Lemma span_all_true {A} (q : A -> bool) l : (forall x, In x l -> q x = true) -> span q l = (l, []).
Proof.
  induction l as [|x t IH]; intros H; cbn [span]; auto.
  rewrite (H x (or_introl eq_refl)), IH; auto. intros y Hy. apply H. now right.
Qed.

(* a predicate that is antitone along a sorted list splits it into a true prefix and a false suffix *)
Lemma span_sorted {A} (R : A -> A -> Prop) (q : A -> bool) l l1 l2 :
  StronglySorted R l -> (forall a b, R a b -> q a = false -> q b = false) -> span q l = (l1, l2) ->
  l = l1 ++ l2 /\ (forall x, In x l1 -> q x = true) /\ (forall x, In x l2 -> q x = false).
Proof.
  intros HS Hanti E. destruct (span_spec q l l1 l2 E) as [H1 [H2 H3]]. split; auto. split; auto.
  destruct l2 as [|y t]; [intros x []|]. intros x [<-|Hx]; auto.
  rewrite H1 in HS. apply SS_app in HS. destruct HS as [_ [HS _]]. apply StronglySorted_inv in HS.
  destruct HS as [_ HF]. rewrite Forall_forall in HF. apply (Hanti y x); auto.
Qed.

Definition stw (a b : P3) : Prop := f1 a <= f1 b /\ f2 b <= f2 a.

Lemma last_cons_app {A} (x : A) l d : last (x :: l) d = last l x.
Proof. revert x. induction l as [|y t IH]; intros x; [reflexivity|]. cbn [last] in *. destruct t; auto. Qed.

Lemma rev_cons_last {A} : forall (l : list A) (x : A), exists r, rev (x :: l) = last l x :: r.
Proof.
  induction l as [|y t IH]; intros x.
  - exists []. reflexivity.
  - destruct (IH y) as [r Hr]. exists (r ++ [x]). change (rev (x :: y :: t)) with (rev (y :: t) ++ [x]).
    rewrite Hr. rewrite last_cons_app. reflexivity.
Qed.

(* ---------------------------------------------------------------------------------------- *)
Section Step.
Variable pts : list P3.
Variables ninf : Z.
Local Notation n := (length pts).

Definition sentL : P3 := mkP3 ninf 0 ninf n.
Definition sentR : P3 := mkP3 0 ninf ninf n.
Definition ip (k : nat) : P3 := let a := nth k pts d0 in mkP3 (f1 a) (f2 a) (f3 a) k.

Definition lft_of (F1 : list P3) : P3 := last F1 sentL.
Definition rgt_of (R2 : list P3) : P3 := match R2 with [] => sentR | e :: _ => e end.

(* the new state in decomposed form *)
Definition new_boxes (st : st3) (j : nat) (p lft rgt : P3) (D : list P3) : list (list Box) :=
  let '(aL, lL) := cut_left (nth (idx lft) (boxes st) []) p in
  let b1 := upd (idx lft) lL (boxes st) in
  let '(aR, lR) := cut_right (nth (idx rgt) b1 []) p rgt in
  let b2 := upd (idx rgt) lR b1 in
  upd j (mkboxes p (f1 p) (f2 lft) D (f1 rgt) ++ nth j b2 []) b2.

Definition new_contr (st : st3) (p lft rgt : P3) (D : list P3) : list Z :=
  let '(aL, lL) := cut_left (nth (idx lft) (boxes st) []) p in
  let b1 := upd (idx lft) lL (boxes st) in
  let '(aR, lR) := cut_right (nth (idx rgt) b1 []) p rgt in
  let b2 := upd (idx rgt) lR b1 in
  fold_left (fun c d => add_at d (close_all (nth d b2 []) (f3 p)) c) (rev (map idx D))
            (add_at (idx rgt) aR (add_at (idx lft) aL (contr st))).

Lemma step3_decomposed st j F Z0 :
  let p := nth j pts d0 in
  front st = sentL :: F ++ sentR :: Z0 ->
  StronglySorted stw F ->
  (forall e, In e F -> f1 e < 0 /\ ninf < f2 e) -> (forall e, In e Z0 -> f1 e = 0) ->
  (forall e, In e F -> f1 (nth (idx e) pts d0) = f1 e /\ f2 (nth (idx e) pts d0) = f2 e) ->
  ninf < f1 p -> f1 p <= 0 -> ninf < f2 p ->
  (f2 (lft_of (fst (span (fun e => f1 e <? f1 p) F))) <? f2 p) = false ->
  exists F1 D E G,
    F = F1 ++ D ++ E ++ G /\
    (forall e, In e F1 -> f1 e < f1 p) /\ (forall e, In e (D ++ E ++ G) -> f1 p <= f1 e) /\
    (forall e, In e D -> f2 p < f2 e) /\ (forall e, In e (E ++ G) -> f2 e <= f2 p) /\
    (forall e, In e E -> f1 e <= f1 p) /\ (forall e, In e G -> f1 p < f1 e) /\
    let lft := lft_of F1 in
    let rgt := rgt_of (E ++ G) in
    step3 pts st (j, p) =
      mkSt (if f1 p <? 0 then sentL :: F1 ++ E ++ ip j :: G ++ sentR :: Z0
            else sentL :: F1 ++ E ++ G ++ sentR :: Z0 ++ [ip j])
           (new_boxes st j p lft rgt D) (new_contr st p lft rgt D).
Proof.
  intros p Hfront HS HF HZ Hcrd Hp1 Hp1' Hp2 Hnskip.
  (* first span: elements with smaller first objective *)
  destruct (span (fun e => f1 e <? f1 p) F) as [F1 F2] eqn:E1.
  destruct (span_sorted stw (fun e => f1 e <? f1 p) F F1 F2 HS) as [EF [HF1 HF2]]; auto.
  { intros a b [Hab _] Ha. apply Z.ltb_ge in Ha. apply Z.ltb_ge. lia. }
  cbn [fst] in Hnskip.
  assert (HSF2 : StronglySorted stw F2).
  { rewrite EF in HS. apply SS_app in HS. tauto. }
  (* second span: dominated elements *)
  destruct (span (fun e => f2 p <? f2 e) F2) as [D R2] eqn:E2.
  destruct (span_sorted stw (fun e => f2 p <? f2 e) F2 D R2 HSF2) as [EF2 [HD HR2]]; auto.
  { intros a b [_ Hab] Ha. apply Z.ltb_ge in Ha. apply Z.ltb_ge. lia. }
  assert (HSR2 : StronglySorted stw R2).
  { rewrite EF2 in HSF2. apply SS_app in HSF2. tauto. }
  (* third span: elements with the same first objective *)
  destruct (span (fun e => f1 e <=? f1 p) R2) as [E G] eqn:E3.
  destruct (span_sorted stw (fun e => f1 e <=? f1 p) R2 E G HSR2) as [ER2 [HE HG]]; auto.
  { intros a b [Hab _] Ha. apply Z.leb_gt in Ha. apply Z.leb_gt. lia. }
  exists F1, D, E, G.
  assert (HinF : forall e, In e (F1 ++ D ++ E ++ G) -> In e F).
  { intros e He. rewrite EF, EF2, ER2. exact He. }
  split; [rewrite EF, EF2, ER2; reflexivity|].
  split; [intros e He; apply Z.ltb_lt; auto|].
  assert (HF2ge : forall e, In e F2 -> f1 p <= f1 e) by (intros e He; apply Z.ltb_ge; auto).
  split; [intros e He; apply HF2ge; rewrite EF2, ER2; exact He|].
  split; [intros e He; apply Z.ltb_lt; auto|].
  split; [intros e He; apply Z.ltb_ge, HR2; rewrite ER2; exact He|].
  split; [intros e He; apply Z.leb_le; auto|].
  split; [intros e He; apply Z.leb_gt; auto|].
  cbv zeta. unfold step3. rewrite Hfront.
  (* evaluate the three spans on the whole front *)
  assert (S1 : span (fun e => f1 e <? f1 p) (sentL :: F ++ sentR :: Z0) = (sentL :: F1, F2 ++ sentR :: Z0)).
  { cbn [span]. cbn [sentL f1]. destruct (Z.ltb_spec ninf (f1 p)); [|lia].
    rewrite span_app_stop by (cbn [sentR f1]; apply Z.ltb_ge; lia). rewrite E1. reflexivity. }
  rewrite S1. destruct (rev_cons_last F1 sentL) as [rr Hrr]. rewrite Hrr. fold (lft_of F1).
  rewrite Hnskip.
  assert (S2 : span (fun e => f2 p <? f2 e) (F2 ++ sentR :: Z0) = (D, R2 ++ sentR :: Z0)).
  { rewrite span_app_stop by (cbn [sentR f2]; apply Z.ltb_ge; lia). rewrite E2. reflexivity. }
  rewrite S2.
  assert (Hrest : R2 ++ sentR :: Z0 = rgt_of R2 :: tl (R2 ++ sentR :: Z0)) by (destruct R2; reflexivity).
  rewrite Hrest. rewrite <- Hrest. rewrite ER2 in Hrest |- *.
  destruct (Z.ltb_spec (f1 p) 0) as [Hneg|Hzero].
  - assert (S3 : span (fun e => f1 e <=? f1 p) ((E ++ G) ++ sentR :: Z0) = (E, G ++ sentR :: Z0)).
    { rewrite span_app_stop by (cbn [sentR f1]; apply Z.leb_gt; lia). rewrite <- ER2, E3. reflexivity. }
    rewrite S3. unfold new_boxes, new_contr.
    destruct (cut_left (nth (idx (lft_of F1)) (boxes st) []) p) as [aL lL].
    destruct (cut_right (nth (idx (rgt_of (E ++ G))) (upd (idx (lft_of F1)) lL (boxes st)) []) p (rgt_of (E ++ G))) as [aR lR].
    set (b2 := upd (idx (rgt_of (E ++ G))) lR (upd (idx (lft_of F1)) lL (boxes st))).
    pose proof (dom_fold_boxes pts p b2 D (f1 (rgt_of (E ++ G)))
                  (add_at (idx (rgt_of (E ++ G))) aR (add_at (idx (lft_of F1)) aL (contr st))) (nth j b2 [])) as HD'.
    destruct (fold_left (dom_step pts p b2) (rev (map idx D)) _) as [[xr c3] nb].
    destruct HD' as [X1 [X2 X3]].
    { intros d Hd. apply Hcrd. apply HinF. apply in_or_app. right. apply in_or_app. now left. }
    subst. f_equal.
  - assert (Hp0 : f1 p = 0) by lia.
    assert (HF2nil : F2 = []).
    { destruct F2 as [|e t]; auto. exfalso. pose proof (HF2ge e (or_introl eq_refl)).
      assert (In e F) by (rewrite EF; apply in_or_app; right; now left). specialize (HF e H0). lia. }
    subst F2. destruct D; [|discriminate]. destruct R2; [|discriminate]. destruct E; [|discriminate].
    destruct G; [|discriminate]. cbn [app].
    assert (S3 : span (fun e => f1 e <=? f1 p) (sentR :: Z0) = (sentR :: Z0, [])).
    { apply span_all_true. intros e [<-|He]; apply Z.leb_le; [cbn; lia|]. rewrite (HZ e He). lia. }
    rewrite S3. unfold new_boxes, new_contr. cbn [rgt_of app].
    destruct (cut_left (nth (idx (lft_of F1)) (boxes st) []) p) as [aL lL].
    destruct (cut_right (nth (idx sentR) (upd (idx (lft_of F1)) lL (boxes st)) []) p sentR) as [aR lR].
    cbn [map rev fold_left]. unfold mkboxes. cbn [tailb firstx app]. f_equal.
    all: try reflexivity.
    all: rewrite ?app_nil_r; cbn [app]; rewrite <- ?app_assoc; try reflexivity.
Qed.

End Step.
