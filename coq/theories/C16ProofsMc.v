(* C16 — step invariants of the multi-class decomposition solvers over exact rationals.

   QpMcSimplexDecomp::updateSMO (all three branches: one variable, two variables of the same
   example = triangle, two variables of different examples = box) together with updateVarsum keeps,
   for every example e,
       alpha(e,p) >= 0,   0 <= varsum(e) <= C,   -1e-14*C <= sum_p alpha(e,p) - varsum(e) <= 1e-14 .
   The last clause is the honest form of "inside the simplex": updateVarsum snaps a recomputed sum
   below 1e-14 to 0 and one within 1e-14*C of C to C, so the true per-example sum can exceed C by
   at most 1e-14 (simplex_sum_bound) - and it really can, see simplex_slack_witness.
   QpMcBoxDecomp::updateSMO keeps every variable in [0, C].
   Both hold for every sequence of steps whatever gradient / matrix numbers are fed in. *)
From Coq Require Import QArith Qminmax Lqa Arith Bool List Lia.
From SharkV Require Import C08Model C08Defs C08ProofsBox C16Model C16Proofs.
Import ListNotations. Open Scope Q_scope.

Notation asumQ := (asum qops).

Definition setr (r : nat -> Q) (p : nat) (x : Q) : nat -> Q :=
  fun q => if (q =? p)%nat then x else r q.

Lemma asum_ext : forall (f g : nat -> Q) m,
  (forall k, (k < m)%nat -> f k = g k) -> asumQ f m = asumQ g m.
Proof.
  induction m as [|m IH]; intros H; cbn [asum]; [reflexivity|].
  rewrite IH by (intros; apply H; lia). rewrite (H m) by lia. reflexivity.
Qed.

Lemma asum_nonneg : forall (f : nat -> Q) m, (forall k, (k < m)%nat -> 0 <= f k) -> 0 <= asumQ f m.
Proof.
  induction m as [|m IH]; intros H; cbn [asum o_add o_zero qops]; [lra|].
  assert (0 <= asumQ f m) by (apply IH; intros; apply H; lia).
  assert (0 <= f m) by (apply H; lia). lra.
Qed.

Lemma asum_setr : forall r p x m, (p < m)%nat -> asumQ (setr r p x) m == asumQ r m - r p + x.
Proof.
  induction m as [|m IH]; intros L; [lia|]. cbn [asum o_add qops].
  destruct (Nat.eq_dec p m) as [E|N].
  - subst p. unfold setr at 2. rewrite Nat.eqb_refl.
    rewrite (asum_ext (setr r m x) r m).
    + lra.
    + intros k Hk. unfold setr. destruct (Nat.eqb_spec k m); [lia|reflexivity].
  - rewrite IH by lia. unfold setr at 1. destruct (Nat.eqb_spec m p); [lia|]. lra.
Qed.

Lemma upd2_same : forall (f : nat -> nat -> Q) e p x q, upd2 f e p x e q = setr (f e) p x q.
Proof. intros. unfold upd2, setr. rewrite Nat.eqb_refl. reflexivity. Qed.

Lemma upd2_other : forall (f : nat -> nat -> Q) e p x e' q, e' <> e -> upd2 f e p x e' q = f e' q.
Proof. intros. unfold upd2. destruct (Nat.eqb_spec e' e); [contradiction|reflexivity]. Qed.

Definition wfop (P : nat) (o : mcop Q) : Prop :=
  match o with
  | Op1 e p _ _ => (p < P)%nat
  | Op2 e p e' p' _ _ _ _ _ => (p < P)%nat /\ (p' < P)%nat
  end.

Section Mc.
Variable P : nat.
Variable C : Q.
Hypothesis Cpos : 0 < C.

(* per-example invariant *)
Definition ExInv (a : nat -> Q) (V : Q) : Prop :=
  (forall p, (p < P)%nat -> 0 <= a p) /\ 0 <= V /\ V <= C /\
  - (qtiny * C) <= asumQ a P - V /\ asumQ a P - V <= qtiny.

Definition SInv (s : mcst Q) : Prop := forall e, ExInv (al s e) (vs s e).

Lemma ExInv_ext : forall a b V, (forall q, a q = b q) -> ExInv a V -> ExInv b V.
Proof.
  intros a b V H (A1 & A2 & A3 & A4 & A5). unfold ExInv.
  rewrite <- (asum_ext a b P) by (intros; apply H).
  repeat split; try assumption. intros p Hp. rewrite <- H. apply A1; exact Hp.
Qed.

(* updateVarsum: whatever branch is taken, the book-keeping stays within the snapping slack *)
Lemma upd_varsum_inv : forall (a : nat -> Q) V (al' : nat -> nat -> Q) e mu,
  ExInv a V ->
  (forall p, (p < P)%nat -> 0 <= al' e p) ->
  asumQ (al' e) P - asumQ a P == mu ->
  V + mu <= C ->
  ExInv (al' e) (upd_varsum qops qtiny P C V al' e mu).
Proof.
  intros a V al' e mu (A1 & A2 & A3 & A4 & A5) N D U.
  pose proof (asum_nonneg (al' e) P N) as S0.
  unfold ExInv, upd_varsum. cbn [o_ltb o_thr o_add o_sub o_mul o_zero qops].
  set (S' := asumQ (al' e) P) in *. set (S := asumQ a P) in *.
  split; [exact N|].
  unfold qthr, qtiny in *.
  qcase (1 # 1000000000000) (V + mu); cbn [andb].
  - qcase ((1 # 1000000000000) * C) (C - (V + mu)); cbn [andb].
    + repeat split; lra.
    + qcase S' (1 # 100000000000000).
      * qcase (C - 0) ((1 # 100000000000000) * C); repeat split; lra.
      * qcase (C - S') ((1 # 100000000000000) * C); repeat split; lra.
  - qcase S' (1 # 100000000000000).
    + qcase (C - 0) ((1 # 100000000000000) * C); repeat split; lra.
    + qcase (C - S') ((1 # 100000000000000) * C); repeat split; lra.
Qed.

Lemma updf_same : forall (f : nat -> Q) i v, updf f i v i = v.
Proof. intros. unfold updf. rewrite Nat.eqb_refl. reflexivity. Qed.
Lemma updf_other : forall (f : nat -> Q) i v a, a <> i -> updf f i v a = f a.
Proof. intros. unfold updf. destruct (Nat.eqb_spec a i); [contradiction|reflexivity]. Qed.

(* ---- one variable *)
Lemma simplex_step1_inv : forall s e p g Q, SInv s -> (p < P)%nat ->
  SInv (simplex_step1 qops qtiny P C s e p g Q).
Proof.
  intros s e p g Q I Lp e0. unfold simplex_step1. cbn [al vs].
  cbn [o_add o_sub o_zero qops].
  destruct (I e) as (A1 & A2 & A3 & A4 & A5).
  set (a := al s e p). set (ub := C - vs s e + a).
  assert (Ha : 0 <= a) by (apply A1; exact Lp).
  assert (Hub : 0 <= ub) by (unfold ub; lra).
  destruct (solve_edge_in_box a g Q 0 ub Hub) as [E1 E2].
  set (a' := solve_edge qops a g Q 0 ub) in *.
  destruct (Nat.eq_dec e0 e) as [->|N].
  - rewrite updf_same. apply (upd_varsum_inv (al s e) (vs s e)).
    + apply I.
    + intros q Hq. rewrite upd2_same. unfold setr.
      destruct (Nat.eqb_spec q p); [exact E1 | apply A1; exact Hq].
    + rewrite (asum_ext _ (setr (al s e) p a') P) by (intros; apply upd2_same).
      rewrite asum_setr by exact Lp. fold a. lra.
    + unfold ub in E2. lra.
  - rewrite updf_other by exact N.
    apply (ExInv_ext (al s e0)); [|apply I].
    intros q. symmetry. apply upd2_other. exact N.
Qed.

(* ---- two variables *)
Lemma simplex_step2_inv : forall s e p e' p' gv gw Qvv Qvw Qww, SInv s ->
  (p < P)%nat -> (p' < P)%nat ->
  SInv (simplex_step2 qops qlowest qtiny P C s e p e' p' gv gw Qvv Qvw Qww).
Proof.
  intros s e p e' p' gv gw Qvv Qvw Qww I Lp Lp'. unfold simplex_step2.
  destruct (Nat.eqb_spec e e') as [Ee|Ne].
  - subst e'. destruct (Nat.eqb_spec p p') as [Ep|Np].
    + apply simplex_step1_inv; assumption.
    + (* same example: triangle *)
      intros e0. cbn [al vs]. cbn [o_add o_sub o_zero qops].
      destruct (I e) as (A1 & A2 & A3 & A4 & A5).
      set (av := al s e p). set (aw := al s e p'). set (ub := C - vs s e + av + aw).
      assert (Hv : 0 <= av) by (apply A1; exact Lp).
      assert (Hw : 0 <= aw) by (apply A1; exact Lp').
      assert (Hub : 0 <= ub) by (unfold ub; lra).
      assert (Hsum : av + aw <= ub) by (unfold ub; lra).
      destruct (solve_tri_in_triangle_feasible av aw gv gw Qvv Qvw Qww ub Hv Hw Hsum) as (T1 & T2 & T3).
      set (r := solve_tri qops qlowest av aw gv gw Qvv Qvw Qww ub) in *.
      destruct (Nat.eq_dec e0 e) as [->|N].
      * rewrite updf_same. apply (upd_varsum_inv (al s e) (vs s e)).
        -- apply I.
        -- intros q Hq. rewrite upd2_same. unfold setr.
           destruct (Nat.eqb_spec q p'); [exact T2|].
           rewrite upd2_same. unfold setr.
           destruct (Nat.eqb_spec q p); [exact T1 | apply A1; exact Hq].
        -- rewrite (asum_ext _ (setr (setr (al s e) p (fst r)) p' (snd r)) P).
           2:{ intros k Hk. rewrite upd2_same. unfold setr.
               destruct (Nat.eqb_spec k p'); [reflexivity|].
               rewrite upd2_same. unfold setr. reflexivity. }
           rewrite asum_setr by exact Lp'. rewrite asum_setr by exact Lp.
           unfold setr at 1. destruct (Nat.eqb_spec p' p); [congruence|].
           fold av aw. lra.
        -- unfold ub in T3. lra.
      * rewrite updf_other by exact N.
        apply (ExInv_ext (al s e0)); [|apply I].
        intros q. symmetry. rewrite upd2_other by exact N. apply upd2_other. exact N.
  - (* different examples: box *)
    intros e0. cbn [al vs]. cbn [o_add o_sub o_zero qops].
    destruct (I e) as (A1 & A2 & A3 & A4 & A5).
    destruct (I e') as (B1 & B2 & B3 & B4 & B5).
    set (av := al s e p). set (aw := al s e' p').
    set (Uv := C - vs s e + av). set (Uw := C - vs s e' + aw).
    assert (Hv : 0 <= av) by (apply A1; exact Lp).
    assert (Hw : 0 <= aw) by (apply B1; exact Lp').
    assert (HUv : 0 <= Uv) by (unfold Uv; lra).
    assert (HUw : 0 <= Uw) by (unfold Uw; lra).
    pose proof (solve_2d_in_box av aw gv gw Qvv Qvw Qww 0 Uv 0 Uw HUv HUw) as R. cbv zeta in R.
    destruct R as (R1 & R2 & R3 & R4).
    set (r := solve_2d qops av aw gv gw Qvv Qvw Qww 0 Uv 0 Uw) in *.
    destruct (Nat.eq_dec e0 e') as [->|N'].
    + rewrite updf_same. apply (upd_varsum_inv (al s e') (vs s e')).
      * apply I.
      * intros q Hq. rewrite upd2_same. unfold setr.
        destruct (Nat.eqb_spec q p'); [exact R3|].
        rewrite upd2_other by (intro X; apply Ne; symmetry; exact X). apply B1; exact Hq.
      * rewrite (asum_ext _ (setr (al s e') p' (snd r)) P).
        2:{ intros k Hk. rewrite upd2_same. unfold setr.
            destruct (Nat.eqb_spec k p'); [reflexivity|].
            apply upd2_other. intro X; apply Ne; symmetry; exact X. }
        rewrite asum_setr by exact Lp'. fold aw. lra.
      * unfold Uw in R4. lra.
    + rewrite updf_other by exact N'.
      destruct (Nat.eq_dec e0 e) as [->|N].
      * rewrite updf_same. apply (upd_varsum_inv (al s e) (vs s e)).
        -- apply I.
        -- intros q Hq. rewrite upd2_other by exact Ne. rewrite upd2_same. unfold setr.
           destruct (Nat.eqb_spec q p); [exact R1 | apply A1; exact Hq].
        -- rewrite (asum_ext _ (setr (al s e) p (fst r)) P).
           2:{ intros k Hk. rewrite upd2_other by exact Ne. apply upd2_same. }
           rewrite asum_setr by exact Lp. fold av. lra.
        -- unfold Uv in R2. lra.
      * rewrite updf_other by exact N.
        apply (ExInv_ext (al s e0)); [|apply I].
        intros q. symmetry. rewrite upd2_other by exact N'. apply upd2_other. exact N.
Qed.

Lemma simplex_step_inv : forall s o, SInv s -> wfop P o ->
  SInv (simplex_step qops qlowest qtiny P C s o).
Proof.
  intros s [e p g Q | e p e' p' gv gw Qvv Qvw Qww] I W; cbn [simplex_step wfop] in *.
  - apply simplex_step1_inv; assumption.
  - destruct W. apply simplex_step2_inv; assumption.
Qed.

(* every history of updateSMO calls *)
Theorem simplex_run_inv : forall ops s, SInv s -> Forall (wfop P) ops ->
  SInv (simplex_run qops qlowest qtiny P C s ops).
Proof.
  induction ops as [|o t IH]; intros s I W; cbn [simplex_run fold_left]; [exact I|].
  inversion W; subst. apply IH; [apply simplex_step_inv; assumption | assumption].
Qed.

(* what the invariant means for the variables themselves *)
Lemma asum_ge_term : forall (f : nat -> Q) m p, (forall k, (k < m)%nat -> 0 <= f k) ->
  (p < m)%nat -> f p <= asumQ f m.
Proof.
  induction m as [|m IH]; intros p H L; [lia|]. cbn [asum o_add qops].
  assert (0 <= asumQ f m) by (apply asum_nonneg; intros; apply H; lia).
  assert (0 <= f m) by (apply H; lia).
  destruct (Nat.eq_dec p m) as [->|N]; [lra|].
  assert (f p <= asumQ f m) by (apply IH; [intros; apply H; lia | lia]). lra.
Qed.

Theorem simplex_sum_bound : forall s, SInv s -> forall e,
  (forall p, (p < P)%nat -> 0 <= al s e p /\ al s e p <= C + qtiny) /\
  asumQ (al s e) P <= C + qtiny.
Proof.
  intros s I e. destruct (I e) as (A1 & A2 & A3 & A4 & A5).
  assert (S : asumQ (al s e) P <= C + qtiny) by lra.
  split; [|exact S]. intros p Hp. split; [apply A1; exact Hp|].
  pose proof (asum_ge_term (al s e) P p A1 Hp). lra.
Qed.

(* the all-zero start of the solvers *)
Lemma SInv_zero : SInv (mkmc (fun _ _ => 0) (fun _ => 0)).
Proof.
  intros e. unfold ExInv. cbn [al vs].
  assert (Z : asumQ (fun _ : nat => 0) P == 0).
  { clear. induction P as [|m IH]; cbn [asum o_add o_zero qops]; [reflexivity|]. rewrite IH. lra. }
  unfold qtiny in *. repeat split; try lra. intros; lra.
Qed.

(* ---- QpMcBoxDecomp *)
Definition BInv (a : nat -> nat -> Q) : Prop := forall e p, 0 <= a e p /\ a e p <= C.

Lemma box_step_inv : forall a o, BInv a -> BInv (box_step qops C a o).
Proof.
  intros a o I.
  assert (C0 : 0 <= C) by lra.
  assert (U : forall e p x, 0 <= x /\ x <= C -> forall b, BInv b -> BInv (upd2 b e p x)).
  { intros e p x Hx b Ib e0 p0. unfold upd2.
    destruct ((e0 =? e)%nat && (p0 =? p)%nat); [exact Hx | apply Ib]. }
  destruct o as [e p g Q | e p e' p' gv gw Qvv Qvw Qww]; cbn [box_step o_zero qops].
  - apply U; [|exact I]. apply solve_edge_in_box; exact C0.
  - destruct ((e =? e')%nat && (p =? p')%nat).
    + apply U; [|exact I]. apply solve_edge_in_box; exact C0.
    + pose proof (solve_2d_in_box (a e p) (a e' p') gv gw Qvv Qvw Qww 0 C 0 C C0 C0) as R.
      cbv zeta in R. destruct R as (R1 & R2 & R3 & R4).
      apply U; [split; assumption|]. apply U; [split; assumption|]. exact I.
Qed.

Theorem box_run_inv : forall ops a, BInv a -> BInv (box_run qops C a ops).
Proof.
  induction ops as [|o t IH]; intros a I; cbn [box_run fold_left]; [exact I|].
  apply IH. apply box_step_inv. exact I.
Qed.

End Mc.

(* The slack is real: with C = 1, one example with two variables whose true sum is 1e-14/2 is
   book-kept as varsum = 0 after a recomputation; the next one-variable step may then raise a
   variable to C, and the true sum of the example exceeds C. *)
Example simplex_slack_witness :
  let C := 1 in
  let s0 := mkmc (fun (e p : nat) => if (p =? 1)%nat then (1 # 200000000000000) else 0) (fun _ => 0) in
  SInv 2 C s0 /\
  let s1 := simplex_step qops qlowest qtiny 2 C s0 (Op1 0%nat 0%nat 1 0) in
  C < asumQ (al s1 0%nat) 2.
Proof.
  cbv zeta. split.
  - intros e. unfold ExInv. cbn [al vs asum o_add o_zero qops Nat.eqb].
    repeat split; try qdec.
    intros p Hp. destruct p as [|[|p]]; [qdec | qdec | lia].
  - vm_compute. reflexivity.
Qed.

(* every history, and what the invariant means for the variables *)
Theorem mc_dual_in_constraints_simplex :
  forall (P : nat) (C : Q), 0 < C ->
  forall (ops : list (mcop Q)) (s : mcst Q),
  SInv P C s -> Forall (wfop P) ops ->
  let s' := simplex_run qops qlowest qtiny P C s ops in
  SInv P C s' /\
  forall e, (forall p, (p < P)%nat -> 0 <= al s' e p /\ al s' e p <= C + qtiny) /\
            asum qops (al s' e) P <= C + qtiny.
Proof.
  intros P C HC ops s I W s'.
  pose proof (simplex_run_inv P C HC ops s I W) as I'. split; [exact I'|].
  exact (simplex_sum_bound P C s' I').
Qed.

Example simplex_hyp_sat : 0 < 1 /\ SInv 3 1 (mkmc (fun _ _ => 0) (fun _ => 0)) /\
  Forall (wfop 3) [Op1 0%nat 2%nat 1 1; Op2 0%nat 0%nat 0%nat 1%nat 1 1 1 0 1; Op2 0%nat 0%nat 1%nat 1%nat 1 1 1 0 1].
Proof.
  split; [reflexivity|]. split; [apply SInv_zero; reflexivity|].
  repeat constructor.
Qed.

Example sparse_sorted_sat : sorted_from Q 0 [(0%nat, 5); (2%nat, 7)].
Proof. cbn. repeat split; auto with arith. Qed.

Theorem box2d_in_box_and_gain : forall ai aj gi gj Qii Qij Qjj Li Ui Lj Uj : Q,
  Li <= ai -> ai <= Ui -> Lj <= aj -> aj <= Uj -> 0 <= Qii -> 0 <= Qjj ->
  let r := solve_2d qops ai aj gi gj Qii Qij Qjj Li Ui Lj Uj in
  (Li <= fst r /\ fst r <= Ui /\ Lj <= snd r /\ snd r <= Uj) /\
  0 <= gain2 qops gi gj Qii Qij Qjj (fst r - ai) (snd r - aj).
Proof.
  intros ai aj gi gj Qii Qij Qjj Li Ui Lj Uj H1 H2 H3 H4 H5 H6 r. split.
  - apply solve_2d_in_box; [apply Qle_trans with ai | apply Qle_trans with aj]; assumption.
  - apply box2d_gain_nonneg; assumption.
Qed.
