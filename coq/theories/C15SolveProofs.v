(* C15 — LinearRegression::train and LDA::train as coded (model C15SolveModel.v): the solver step.
   Over an arbitrary field (Leibniz equality), through the imported theorem C02SemiProofs.semi_solve_rowmajor: every vector
   returned by solve(M, B, symm_semi_pos_def(), side) satisfies the normal equations M (M x - b) = 0, and M x = b whenever b is in
   the range of M, under the hypothesis [semi_exact] = the pivoted factorisation run by the constructor is exact (square root exact on
   the pivots met, zero Schur complement at the stop, the Cholesky factorisation of L^T L succeeds with exact roots). *)
From Coq Require Import List Arith Bool Lia Field.
From SharkV Require Import C02Model C02Proofs C02BlkModel C02LUProofs C02CholBlkProofs C02PstrfModel C02PstrfProofs C02RlModel C02SemiModel C02SemiProofs.
From SharkV Require Import C15SolveModel.
Import ListNotations.

Section SolveProofs.
Variable A : Type.
Variable F : ops A.
Variable fabs : A -> A.
Notation "0" := (fzero F) : F_scope.
Notation "1" := (fone F) : F_scope.
Infix "+" := (fadd F) : F_scope.
Infix "*" := (fmul F) : F_scope.
Infix "-" := (fsub F) : F_scope.
Infix "/" := (fdiv F) : F_scope.
Notation "- x" := (fopp F x) : F_scope.
Hypothesis Fth : field_theory (fzero F) (fone F) (fadd F) (fmul F) (fsub F) (fopp F) (fdiv F) (finv F) (@eq A).
Hypothesis feqb_spec : forall x y, feqb F x y = true <-> x = y.
Hypothesis fleb_00 : fleb F (fzero F) (fzero F) = true.
Add Field FfieldC15 : Fth.
Local Open Scope F_scope.
Notation mat := (mat A).
Notation vec := (vec A).
Notation sumr := (sumr A F).
Notation mv := (mv A F).

(* ---------- sums over lists ---------- *)
Lemma fold_acc {X} (f : X -> A) (b : list X) (a0 : A) : fold_left (fun a x => a + f x) b a0 = a0 + bsumF A F f b.
Proof.
  unfold bsumF. revert a0. induction b as [|x b IH]; intros a0; cbn [fold_left]; [ring|].
  rewrite IH, (IH (0 + f x)). ring.
Qed.
Lemma bsumF_nil {X} (f : X -> A) : bsumF A F f [] = 0.
Proof. reflexivity. Qed.
Lemma bsumF_cons {X} (f : X -> A) x b : bsumF A F f (x :: b) = f x + bsumF A F f b.
Proof. unfold bsumF at 1. cbn [fold_left]. rewrite fold_acc. ring. Qed.
Lemma bsumF_app {X} (f : X -> A) a b : bsumF A F f (a ++ b) = bsumF A F f a + bsumF A F f b.
Proof. induction a as [|x a IH]; cbn [app]; [rewrite bsumF_nil; ring|]. rewrite !bsumF_cons, IH. ring. Qed.
Lemma dsumF_concat {X} (f : X -> A) (D : list (list X)) : dsumF A F f D = bsumF A F f (concat D).
Proof.
  unfold dsumF. assert (H : forall a0, fold_left (fun a b => a + bsumF A F f b) D a0 = a0 + bsumF A F f (concat D)).
  { induction D as [|b D IH]; intros a0; cbn [fold_left concat]; [rewrite bsumF_nil; ring|]. rewrite IH, bsumF_app. ring. }
  rewrite H. ring.
Qed.
Lemma bsumF_ext {X} (f g : X -> A) l : (forall x, In x l -> f x = g x) -> bsumF A F f l = bsumF A F g l.
Proof.
  induction l as [|x l IH]; intros H; [reflexivity|]. rewrite !bsumF_cons, IH, (H x) by (intros; try apply H; simpl; auto). reflexivity.
Qed.
Lemma dsumF_ext {X} (f g : X -> A) D : (forall x, f x = g x) -> dsumF A F f D = dsumF A F g D.
Proof. intros H. rewrite !dsumF_concat. apply bsumF_ext. intros; apply H. Qed.
Lemma bsumF_nth {X} (f : X -> A) l (dflt : X) : bsumF A F f l = sumr 0 (length l) (fun i => f (nth i l dflt)).
Proof.
  induction l as [|x l IH] using rev_ind; [reflexivity|].
  rewrite bsumF_app, bsumF_cons, bsumF_nil, app_length. cbn [length]. rewrite Nat.add_1_r.
  rewrite (sumr_S A F) by lia. rewrite app_nth2, Nat.sub_diag by lia. cbn [nth]. rewrite IH.
  rewrite (sumr_ext A F 0 (length l) (fun i => f (nth i l dflt)) (fun i => f (nth i (l ++ [x]) dflt))).
  - ring.
  - intros i Hi. rewrite app_nth1 by lia. reflexivity.
Qed.

(* ---------- the solver ---------- *)
(* the run of the constructor of symm_pos_semi_definite_solver on M is exact *)
Definition semi_exact (n : nat) (epsm : A) (M : mat) : Prop :=
  match pstrf_full A F fabs 20 n epsm M with
  | (r, L, P, piv) =>
    fleb F 0 (pstrf_eps A F fabs n epsm M) = true /\ sq_ok A F piv /\
    (forall i j, (r <= i < n)%nat -> (r <= j < n)%nat ->
       M (perm_of P 0 n i) (perm_of P 0 n j) = sumr 0 r (fun u => L i u * L j u)) /\
    ((0 < r < n)%nat -> (exists Lc, potrf_rec A F 32 32 r r 0 r (semi_gram A F n r L) = BOk A Lc) /\
                        sqrt_exact_lower A F r r (semi_gram A F n r L))
  end.
(* x is what the solver may return for the right-hand side b *)
Definition semi_sol (n : nat) (M : mat) (b x : vec) : Prop :=
  (forall i, (i < n)%nat -> mv n M (fun k => mv n M x k - b k) i = 0) /\
  (forall w, (forall k, (k < n)%nat -> b k = mv n M w k) -> forall i, (i < n)%nat -> mv n M x i = b i).

Lemma map_opt_Forall2 {X Y} (f : X -> option Y) (P : X -> Y -> Prop) l r :
  (forall a y, f a = Some y -> P a y) -> map_opt f l = Some r -> Forall2 P l r.
Proof.
  intros H. revert r. induction l as [|a l IH]; intros r E; cbn [map_opt] in E.
  - inversion E. constructor.
  - destruct (f a) as [y|] eqn:Ea; [|discriminate]. destruct (map_opt f l) as [r'|]; [|discriminate].
    inversion E; subst. constructor; [apply H; exact Ea|apply IH; reflexivity].
Qed.

Theorem semi_solve_all_correct n epsm (M : mat) rhs xs : (forall i j, M i j = M j i) -> semi_exact n epsm M ->
  semi_solve_all A F fabs n epsm M rhs = Some xs -> Forall2 (semi_sol n M) rhs xs.
Proof.
  intros Sy Hex H. unfold semi_solve_all, semi_decompose in H. unfold semi_exact in Hex.
  destruct (pstrf_full A F fabs 20 n epsm M) as [[[r L] P] piv] eqn:Ep.
  destruct Hex as (He & Hsq & Hz & Hc). unfold pstrf_full in Ep.
  assert (Hgo : forall Lc, ((0 < r < n)%nat -> potrf_rec A F 32 32 r r 0 r (semi_gram A F n r L) = BOk A Lc) ->
            map_opt (semi_solve_with A F RowMajor n r L P Lc) rhs = Some xs -> Forall2 (semi_sol n M) rhs xs).
  { intros Lc HLc. apply map_opt_Forall2. intros b x Hs.
    destruct (semi_solve_rowmajor A F Fth feqb_spec fleb_00 (pstrf_eps A F fabs n epsm M) 20 32 32 n M L Lc r P piv b x
                He ltac:(lia) ltac:(lia) ltac:(lia) Sy Ep Hsq Hz) as [S1 S2].
    - intros Hr. split; [apply HLc; exact Hr|apply Hc; exact Hr].
    - exact Hs.
    - split; assumption. }
  destruct (Nat.eqb_spec r n) as [Er|Er].
  - cbn [sd_rank sd_factor sd_perm sd_chol] in H. apply (Hgo L); [intros; lia|exact H].
  - unfold potrf_blocked2 in H.
    destruct (potrf_rec A F 32 32 r r 0 r (semi_gram A F n r L)) as [Lc|k Lc|] eqn:Epot.
    + cbn [sd_rank sd_factor sd_perm sd_chol] in H. apply (Hgo Lc); [intros; reflexivity|exact H].
    + cbn [sd_rank sd_factor sd_perm sd_chol] in H.
      assert (Hr : (0 < r < n)%nat \/ r = O \/ (n < r)%nat) by lia.
      destruct Hr as [Hr|Hr].
      * destruct (Hc Hr) as [[Lc' E'] _]. congruence.
      * apply (Hgo Lc); [intros; lia|exact H].
    + discriminate.
Qed.

(* ---------- small sum lemmas ---------- *)
Notation sumr_ext := (sumr_ext A F).
Notation sumr_swap := (sumr_swap A F Fth).
Notation sumr_mul_l := (sumr_mul_l A F Fth).
Notation sumr_mul_r := (sumr_mul_r A F Fth).
Notation sumr_add := (sumr_add A F Fth).
Notation sumr_zero := (sumr_zero A F Fth).

Lemma sumr_sub2 lo hi f g : sumr lo hi (fun j => f j - g j) = sumr lo hi f - sumr lo hi g.
Proof.
  rewrite (sumr_ext lo hi (fun j => f j - g j) (fun j => f j + fopp F 1 * g j)) by (intros; ring).
  rewrite sumr_add, sumr_mul_l. ring.
Qed.
Lemma sumr_pick n j a (f : nat -> A) :
  sumr 0 n (fun k => (if Nat.eqb j k then a else 0) * f k) = if Nat.ltb j n then a * f j else 0.
Proof.
  induction n as [|n IH]; [reflexivity|]. rewrite (sumr_S A F) by lia. rewrite IH.
  destruct (Nat.eqb_spec j n) as [->|H3].
  - rewrite (proj2 (Nat.ltb_ge n n)) by lia. rewrite (proj2 (Nat.ltb_lt n (S n))) by lia. ring.
  - destruct (Nat.ltb_spec j n); destruct (Nat.ltb_spec j (S n)); try lia; ring.
Qed.
(* u^T (E^T E) w = (E u) . (E w) *)
Lemma gram_bilin N n (E : nat -> nat -> A) (u w : vec) :
  sumr 0 n (fun j => u j * sumr 0 n (fun k => sumr 0 N (fun i => E i j * E i k) * w k))
  = sumr 0 N (fun i => sumr 0 n (fun j => E i j * u j) * sumr 0 n (fun k => E i k * w k)).
Proof.
  rewrite (sumr_ext 0 n _ (fun j => sumr 0 N (fun i => (E i j * u j) * sumr 0 n (fun k => E i k * w k)))).
  2:{ intros j Hj. rewrite <- sumr_mul_l.
      rewrite (sumr_ext 0 n _ (fun k => sumr 0 N (fun i => u j * (E i j * (E i k * w k))))).
      2:{ intros k Hk. rewrite <- sumr_mul_r, <- sumr_mul_l. apply sumr_ext. intros; ring. }
      rewrite sumr_swap. apply sumr_ext. intros i Hi. rewrite <- sumr_mul_l. apply sumr_ext. intros; ring. }
  rewrite sumr_swap. apply sumr_ext. intros i Hi. rewrite <- sumr_mul_r. reflexivity.
Qed.

(* ---------- LDA ---------- *)
Lemma sub_outer_sym fac (mean : nat -> vec) K s s' j k : s = s' ->
  sub_outer A F fac mean K s j k = sub_outer A F fac mean K s' k j.
Proof. intros ->. induction K as [|K IH]; cbn [sub_outer]; [reflexivity|]. rewrite IH. ring. Qed.

Lemma ldac_cov_sym d K lam D j k : ldac_cov A F d K lam D j k = ldac_cov A F d K lam D k j.
Proof.
  unfold ldac_cov. rewrite !(memo2_eq A F). rewrite (Nat.eqb_sym k j). f_equal.
  apply sub_outer_sym. f_equal. apply dsumF_ext. intros; ring.
Qed.
Lemma ldaw_cov_sym d K lam D j k : ldaw_cov A F d K lam D j k = ldaw_cov A F d K lam D k j.
Proof.
  unfold ldaw_cov. rewrite !(memo2_eq A F). rewrite (Nat.eqb_sym k j). f_equal.
  apply sub_outer_sym. f_equal. apply dsumF_ext. intros; ring.
Qed.

Lemma lda_finish_correct half d K epsm means (C : mat) priors res : (forall j k, C j k = C k j) -> semi_exact d epsm C ->
  lda_finish A F fabs half d K epsm means C priors = Some res ->
  exists zs, Forall2 (semi_sol d C) means zs /\ res = mkLda A means C zs (map (fun mz => - half * sumr 0 d (fun j => fst mz j * snd mz j)) (combine means zs)) priors.
Proof.
  intros Sy Hex H. unfold lda_finish in H. destruct (semi_solve_all A F fabs d epsm C means) as [zs|] eqn:E; [|discriminate].
  exists zs. split; [exact (semi_solve_all_correct d epsm C means zs Sy Hex E)|]. inversion H. reflexivity.
Qed.

(* LDA::train, unweighted: the returned rows z_c solve the least-squares normal equations C (C z_c - m_c) = 0 for the class means
   and the pooled covariance as coded, and C z_c = m_c (<=> z_c C = m_c, C is symmetric) whenever m_c is in the range of C *)
Theorem ldac_train_correct half d K lam epsm D res : semi_exact d epsm (ldac_cov A F d K lam D) ->
  ldac_train A F fabs half d K lam epsm D = Some res ->
  let means := map (fun c => ldac_mean A F d c D) (seq 0 K) in
  let C := ldac_cov A F d K lam D in
  (forall c, (c < K)%nat -> ldac_num A c D <> O) /\ exists zs, Forall2 (semi_sol d C) means zs /\ res = mkLda A means C zs (map (fun mz => - half * sumr 0 d (fun j => fst mz j * snd mz j)) (combine means zs))
                (map (fun c => fofnatF A F (ldac_num A c D) / fofnatF A F (nelemsF D)) (seq 0 K)).
Proof.
  intros Hex H. unfold ldac_train in H.
  destruct (existsb (fun c => Nat.eqb (ldac_num A c D) O) (seq 0 K)) eqn:Ee; [discriminate|]. split.
  - intros c Hc Hz. assert (existsb (fun c => Nat.eqb (ldac_num A c D) O) (seq 0 K) = true); [|congruence].
    apply existsb_exists. exists c. split; [apply in_seq; lia|apply Nat.eqb_eq; exact Hz].
  - exact (lda_finish_correct half d K epsm _ _ _ res (ldac_cov_sym d K lam D) Hex H).
Qed.

Theorem ldaw_train_correct half d K lam epsm D res : semi_exact d epsm (ldaw_cov A F d K lam D) ->
  ldaw_train A F fabs half d K lam epsm D = Some res ->
  let means := map (fun c => ldaw_mean A F d c D) (seq 0 K) in
  let C := ldaw_cov A F d K lam D in
  (forall c, (c < K)%nat -> ldaw_cw A F c D <> 0) /\ exists zs, Forall2 (semi_sol d C) means zs /\ res = mkLda A means C zs (map (fun mz => - half * sumr 0 d (fun j => fst mz j * snd mz j)) (combine means zs))
                (map (fun c => ldaw_cw A F c D / ldaw_wsum A F D) (seq 0 K)).
Proof.
  intros Hex H. unfold ldaw_train in H.
  destruct (existsb (fun c => feqb F (ldaw_cw A F c D) 0) (seq 0 K)) eqn:Ee; [discriminate|]. split.
  - intros c Hc Hz. assert (existsb (fun c => feqb F (ldaw_cw A F c D) 0) (seq 0 K) = true); [|congruence].
    apply existsb_exists. exists c. split; [apply in_seq; lia|apply feqb_spec; exact Hz].
  - exact (lda_finish_correct half d K epsm _ _ _ res (ldaw_cov_sym d K lam D) Hex H).
Qed.

(* a regular matrix: every right-hand side is in the range, so the solver returns THE solution *)
Lemma semi_sol_regular n (M Mi : mat) b x :
  (forall i k, (i < n)%nat -> (k < n)%nat -> sumr 0 n (fun j => M i j * Mi j k) = if Nat.eqb i k then 1 else 0) ->
  semi_sol n M b x -> forall i, (i < n)%nat -> mv n M x i = b i.
Proof.
  intros Hinv [_ H]. apply (H (fun k => sumr 0 n (fun l => Mi k l * b l))).
  intros k Hk. unfold C02Proofs.mv.
  rewrite (sumr_ext 0 n _ (fun j => sumr 0 n (fun l => M k j * Mi j l * b l))).
  2:{ intros j Hj. rewrite <- sumr_mul_l. apply sumr_ext. intros; ring. }
  rewrite sumr_swap.
  rewrite (sumr_ext 0 n _ (fun l => (if Nat.eqb k l then 1 else 0) * b l)).
  2:{ intros l Hl. rewrite sumr_mul_r, Hinv by lia. reflexivity. }
  rewrite sumr_pick. destruct (Nat.ltb_spec k n); [ring|lia].
Qed.

(* the linear score z.x + bias_part is the exponent of the Gaussian with mean m and covariance C, up to the term -x.C^-1 x / 2
   that does not depend on the class (y stands for C^-1 x) *)
Theorem lda_bayes half d (C : mat) (m z x y : vec) : half + half = 1 -> (forall j k, C j k = C k j) ->
  (forall k, (k < d)%nat -> mv d C z k = m k) -> (forall k, (k < d)%nat -> mv d C y k = x k) ->
  - half * sumr 0 d (fun k => (x k - m k) * (y k - z k))
  = (sumr 0 d (fun k => z k * x k) + - half * sumr 0 d (fun j => m j * z j)) - half * sumr 0 d (fun k => x k * y k).
Proof.
  intros Hh Sy Hz Hy.
  assert (Hmy : sumr 0 d (fun k => m k * y k) = sumr 0 d (fun k => z k * x k)).
  { rewrite (sumr_ext 0 d _ (fun k => sumr 0 d (fun j => C k j * z j * y k))).
    2:{ intros k Hk. rewrite <- (Hz k) by lia. unfold C02Proofs.mv. rewrite sumr_mul_r. reflexivity. }
    rewrite sumr_swap. apply sumr_ext. intros j Hj. rewrite <- (Hy j) by lia. unfold C02Proofs.mv.
    rewrite <- sumr_mul_l. apply sumr_ext. intros k Hk. rewrite (Sy j k). ring. }
  rewrite (sumr_ext 0 d (fun k => (x k - m k) * (y k - z k)) (fun k => (x k * y k + m k * z k) - (z k * x k + m k * y k))) by (intros; ring).
  rewrite sumr_sub2, !sumr_add, Hmy.
  set (Sxy := sumr 0 d (fun k => x k * y k)). set (Smz := sumr 0 d (fun k => m k * z k)). set (Szx := sumr 0 d (fun k => z k * x k)).
  assert (E : Szx + - half * Smz - half * Sxy = (half + half) * Szx + - half * Smz - half * Sxy) by (rewrite Hh; ring).
  rewrite E. ring.
Qed.

(* ---------- LinearRegression ---------- *)
Lemma lrc_A_sym d lam D j k : lrc_A A F d lam D j k = lrc_A A F d lam D k j.
Proof.
  unfold lrc_A. rewrite !(memo2_eq A F). f_equal; [apply dsumF_ext; intros; ring|].
  destruct (Nat.eqb_spec j k) as [->|H]; [rewrite Nat.eqb_refl; reflexivity|].
  destruct (Nat.eqb_spec k j); [congruence|reflexivity].
Qed.

Theorem lrc_train_correct d o lam epsm D betas : semi_exact (S d) epsm (lrc_A A F d lam D) ->
  lrc_train A F fabs d o lam epsm D = Some betas ->
  Forall2 (semi_sol (S d) (lrc_A A F d lam D)) (map (lrc_T A F d D) (seq 0 o)) betas.
Proof. intros Hex H. exact (semi_solve_all_correct (S d) epsm _ _ betas (lrc_A_sym d lam D) Hex H). Qed.

(* ---------- LinearRegression: the returned weights have vanishing gradient ---------- *)
(* two order laws of the field (they hold over Qc: C15SolveQProofs.v): a sum of squares vanishes only if every term does, and for
   lam >= 0 the two non-negative parts of  |E g|^2 + lam |g_w|^2 = 0  vanish separately *)
Section Ordered.
Hypothesis sos : forall n (f : vec), sumr 0 n (fun i => f i * f i) = 0 -> forall i, (i < n)%nat -> f i = 0.
Hypothesis sos2 : forall n m (f g : vec) lam, fleb F 0 lam = true ->
  sumr 0 n (fun i => f i * f i) + lam * sumr 0 m (fun j => g j * g j) = 0 ->
  sumr 0 n (fun i => f i * f i) = 0 /\ lam * sumr 0 m (fun j => g j * g j) = 0.

Section Grad.
Variables (d : nat) (lam : A) (D : list (list (rsample A))) (c : nat) (beta : vec).
Hypothesis Hlam : fleb F 0 lam = true.
Let els := concat D.
Let N := length els.
Let dflt : rsample A := ([], []).
Let E (i k : nat) : A := extF A F d (fst (nth i els dflt)) k.
Let Y (i : nat) : A := nth c (snd (nth i els dflt)) 0.
Let Am := lrc_A A F d lam D.
Let T := lrc_T A F d D c.
Let reg (j k : nat) : A := if Nat.eqb j k && Nat.ltb j d then lam else 0.
Let pred (i : nat) : A := sumr 0 (S d) (fun k => E i k * beta k).

Lemma lrc_A_eq j k : Am j k = sumr 0 N (fun i => E i j * E i k) + reg j k.
Proof. unfold Am, lrc_A. rewrite (memo2_eq A F), dsumF_concat, (bsumF_nth _ _ dflt). reflexivity. Qed.
Lemma lrc_T_eq j : T j = sumr 0 N (fun i => E i j * Y i).
Proof. unfold T, lrc_T. rewrite (memo_eq A F), dsumF_concat, (bsumF_nth _ _ dflt). reflexivity. Qed.
Lemma lrc_halfgrad_eq j : lrc_halfgrad A F d lam D c beta j
  = sumr 0 N (fun i => (pred i - Y i) * E i j) + (if Nat.ltb j d then lam * beta j else 0).
Proof. unfold lrc_halfgrad. rewrite dsumF_concat, (bsumF_nth _ _ dflt). reflexivity. Qed.

Lemma reg_apply (w : vec) j : sumr 0 (S d) (fun k => reg j k * w k) = if Nat.ltb j d then lam * w j else 0.
Proof.
  unfold reg. destruct (Nat.ltb_spec j d) as [Hj|Hj].
  - rewrite (sumr_ext 0 (S d) _ (fun k => (if Nat.eqb j k then lam else 0) * w k)).
    2:{ intros k Hk. rewrite andb_true_r. reflexivity. }
    rewrite sumr_pick. destruct (Nat.ltb_spec j (S d)); [reflexivity|lia].
  - apply sumr_zero. intros k Hk. rewrite andb_false_r. ring.
Qed.

(* (A w)_j = sum_i E_ij (E_i . w) + reg *)
Lemma lrc_A_apply (w : vec) j : mv (S d) Am w j
  = sumr 0 N (fun i => E i j * sumr 0 (S d) (fun k => E i k * w k)) + (if Nat.ltb j d then lam * w j else 0).
Proof.
  unfold C02Proofs.mv.
  rewrite (sumr_ext 0 (S d) _ (fun k => sumr 0 N (fun i => E i j * (E i k * w k)) + reg j k * w k)).
  2:{ intros k Hk. rewrite lrc_A_eq.
      transitivity (sumr 0 N (fun i => E i j * E i k) * w k + reg j k * w k); [ring|]. rewrite <- sumr_mul_r.
      rewrite (sumr_ext 0 N (fun j0 => E j0 j * E j0 k * w k) (fun i => E i j * (E i k * w k))) by (intros; ring). reflexivity. }
  rewrite sumr_add, reg_apply, sumr_swap. f_equal. apply sumr_ext. intros i Hi. rewrite sumr_mul_l. reflexivity.
Qed.

Let g (j : nat) : A := mv (S d) Am beta j - T j.

(* the residual of the assembled system is half the gradient of the regularised squared error *)
Lemma lrc_residual_is_halfgrad j : g j = lrc_halfgrad A F d lam D c beta j.
Proof.
  unfold g. rewrite lrc_A_apply, lrc_T_eq, lrc_halfgrad_eq. fold (pred).
  rewrite (sumr_ext 0 N (fun i => (pred i - Y i) * E i j) (fun i => E i j * pred i - E i j * Y i)) by (intros; ring).
  rewrite sumr_sub2. unfold pred. ring.
Qed.

Lemma sumr_last_reg (u w : vec) :
  sumr 0 (S d) (fun j => u j * (if Nat.ltb j d then lam * w j else 0)) = lam * sumr 0 d (fun j => u j * w j).
Proof.
  rewrite (sumr_S A F) by lia. rewrite (proj2 (Nat.ltb_ge d d)) by lia.
  rewrite (sumr_ext 0 d _ (fun j => lam * (u j * w j))).
  2:{ intros j Hj. rewrite (proj2 (Nat.ltb_lt j d)) by lia. ring. }
  rewrite sumr_mul_l. ring.
Qed.

Theorem lrc_grad_zero : semi_sol (S d) Am T beta -> forall j, (j <= d)%nat -> lrc_halfgrad A F d lam D c beta j = 0.
Proof.
  intros [Hne _] j Hj.
  set (s := fun i => sumr 0 (S d) (fun k => E i k * g k)).
  (* step 1: g^T A g = |E g|^2 + lam |g_w|^2 = 0 *)
  assert (Hq : sumr 0 N (fun i => s i * s i) + lam * sumr 0 d (fun j => g j * g j) = 0).
  { assert (H0 : sumr 0 (S d) (fun j => g j * mv (S d) Am g j) = 0).
    { apply sumr_zero. intros k Hk. replace (mv (S d) Am g k) with 0 by (symmetry; apply Hne; lia). ring. }
    rewrite <- H0.
    rewrite (sumr_ext 0 (S d) (fun j => g j * mv (S d) Am g j)
              (fun j => sumr 0 N (fun i => (E i j * g j) * s i) + g j * (if Nat.ltb j d then lam * g j else 0))).
    2:{ intros k Hk. rewrite lrc_A_apply.
        transitivity (g k * sumr 0 N (fun i => E i k * s i) + g k * (if Nat.ltb k d then lam * g k else 0)); [unfold s; ring|].
        rewrite <- sumr_mul_l. f_equal. apply sumr_ext. intros; ring. }
    rewrite sumr_add, sumr_last_reg, sumr_swap. f_equal.
    apply sumr_ext. intros i Hi. rewrite sumr_mul_r. reflexivity. }
  destruct (sos2 N d s g lam Hlam Hq) as [Hs Hg].
  assert (Hs0 : forall i, (i < N)%nat -> s i = 0) by (apply sos; exact Hs).
  (* step 2: |g|^2 = lam * sum_{j<d} g_j beta_j = 0 *)
  assert (Hgg : sumr 0 (S d) (fun j => g j * g j) = lam * sumr 0 d (fun j => g j * beta j)).
  { rewrite (sumr_ext 0 (S d) (fun j => g j * g j)
              (fun j => sumr 0 N (fun i => (pred i - Y i) * (E i j * g j)) + g j * (if Nat.ltb j d then lam * beta j else 0))).
    2:{ intros k Hk. rewrite (lrc_residual_is_halfgrad k) at 2. rewrite lrc_halfgrad_eq.
        transitivity (g k * sumr 0 N (fun i => (pred i - Y i) * E i k) + g k * (if Nat.ltb k d then lam * beta k else 0)); [ring|].
        rewrite <- sumr_mul_l. f_equal. apply sumr_ext. intros; ring. }
    rewrite sumr_add, sumr_last_reg, sumr_swap.
    rewrite (sumr_zero 0 N).
    2:{ intros i Hi. rewrite sumr_mul_l. fold (s i). rewrite (Hs0 i) by lia. ring. }
    ring. }
  assert (Hz : sumr 0 (S d) (fun j => g j * g j) = 0).
  { rewrite Hgg. destruct (feqb F lam 0) eqn:El.
    - apply feqb_spec in El. rewrite El. ring.
    - assert (Hl : lam <> 0) by (intros Hc; apply feqb_spec in Hc; congruence).
      assert (Hg2 : sumr 0 d (fun j => g j * g j) = 0).
      { transitivity ((lam * sumr 0 d (fun j => g j * g j)) / lam); [field; exact Hl|]. rewrite Hg. field. exact Hl. }
      rewrite (sumr_zero 0 d); [ring|]. intros k Hk. rewrite (sos d g Hg2 k) by lia. ring. }
  rewrite <- lrc_residual_is_halfgrad. apply (sos (S d) g Hz). lia.
Qed.
End Grad.
End Ordered.
End SolveProofs.
