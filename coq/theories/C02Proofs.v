(* C02 — proofs about the model in C02Model.v, over an arbitrary field (record [ops A] + field_theory). *)
From Coq Require Import List Arith Bool Lia Field.
From SharkV Require Import C02Model.
Import ListNotations.

Declare Scope F_scope.
Delimit Scope F_scope with F.

Section Proofs.
Variable A : Type.
Variable F : ops A.
Notation "0" := (fzero F) : F_scope.
Notation "1" := (fone F) : F_scope.
Infix "+" := (fadd F) : F_scope.
Infix "*" := (fmul F) : F_scope.
Infix "-" := (fsub F) : F_scope.
Infix "/" := (fdiv F) : F_scope.
Notation "- x" := (fopp F x) : F_scope.

Hypothesis Fth : field_theory (fzero F) (fone F) (fadd F) (fmul F) (fsub F) (fopp F) (fdiv F) (finv F) (@eq A).
Hypothesis feqb_spec : forall x y, feqb F x y = true <-> x = y.
Add Field Ffield : Fth.

Local Open Scope F_scope.

Notation vec := (vec A).
Notation mat := (mat A).
Notation sumr := (sumr A F).
Notation upd := (upd A).

Lemma feqb_false : forall x y, feqb F x y = false <-> x <> y.
Proof.
  intros x y. destruct (feqb F x y) eqn:E.
  - apply feqb_spec in E. split; [discriminate | intros H; contradiction].
  - split; [|reflexivity]. intros _ H. apply feqb_spec in H. congruence.
Qed.

(* ---------- memo ---------- *)
Lemma nth_tab : forall n (x : vec) i, (i < n)%nat -> nth i (tab A n x) 0 = x i.
Proof.
  intros n x i H. unfold tab.
  rewrite (nth_indep _ 0 (x O)) by (rewrite map_length, seq_length; exact H).
  rewrite map_nth. rewrite seq_nth by exact H. reflexivity.
Qed.
Lemma memo_eq : forall n (x : vec) i, memo A F n x i = x i.
Proof.
  intros. unfold memo, memo_l. destruct (Nat.ltb i n) eqn:E; [|reflexivity].
  apply Nat.ltb_lt in E. apply nth_tab; exact E.
Qed.
Lemma memo2_eq : forall n (M : mat) i j, memo2 A F n M i j = M i j.
Proof.
  intros. unfold memo2, memo2_l. destruct (Nat.ltb i n) eqn:E; [|reflexivity].
  destruct (Nat.ltb j n) eqn:E2; [|reflexivity]. cbn [andb].
  apply Nat.ltb_lt in E. apply Nat.ltb_lt in E2.
  rewrite (nth_indep _ [] ((fun i => tab A n (M i)) O)) by (rewrite map_length, seq_length; exact E).
  rewrite (map_nth (fun i => tab A n (M i))). rewrite seq_nth by exact E. cbn [Nat.add].
  apply nth_tab; exact E2.
Qed.

(* ---------- finite sums ---------- *)
Lemma sumr_ext : forall lo hi f g, (forall j, (lo <= j < hi)%nat -> f j = g j) -> sumr lo hi f = sumr lo hi g.
Proof.
  intros lo hi. induction hi; intros f g H; cbn [C02Model.sumr]; [reflexivity|].
  destruct (Nat.leb lo hi) eqn:E; [|reflexivity]. apply Nat.leb_le in E.
  rewrite (IHhi f g) by (intros; apply H; lia). rewrite H by lia. reflexivity.
Qed.
Lemma sumr_empty : forall lo hi f, (hi <= lo)%nat -> sumr lo hi f = 0.
Proof.
  intros lo hi f H. destruct hi; cbn [C02Model.sumr]; [reflexivity|].
  destruct (Nat.leb lo hi) eqn:E; [|reflexivity]. apply Nat.leb_le in E. lia.
Qed.
Lemma sumr_S : forall lo h f, (lo <= h)%nat -> sumr lo (S h) f = sumr lo h f + f h.
Proof. intros lo h f H. cbn [C02Model.sumr]. apply Nat.leb_le in H. rewrite H. reflexivity. Qed.
Lemma sumr_split : forall lo mid hi f, (lo <= mid)%nat -> (mid <= hi)%nat ->
  sumr lo hi f = sumr lo mid f + sumr mid hi f.
Proof.
  intros lo mid hi f H1. induction hi; intros H2.
  - assert (mid = O) by lia. subst. rewrite !sumr_empty by lia. ring.
  - destruct (Nat.eq_dec mid (S hi)) as [->|N].
    + rewrite (sumr_empty (S hi) (S hi)) by lia. ring.
    + rewrite (sumr_S lo hi) by lia. rewrite (sumr_S mid hi) by lia. rewrite IHhi by lia. ring.
Qed.
Lemma sumr_one : forall lo f, sumr lo (S lo) f = f lo.
Proof. intros. rewrite sumr_S by lia. rewrite sumr_empty by lia. ring. Qed.
Lemma sumr_first : forall lo hi f, (lo < hi)%nat -> sumr lo hi f = f lo + sumr (S lo) hi f.
Proof. intros. rewrite (sumr_split lo (S lo) hi) by lia. rewrite sumr_one. reflexivity. Qed.
Lemma sumr_zero : forall lo hi f, (forall j, (lo <= j < hi)%nat -> f j = 0) -> sumr lo hi f = 0.
Proof.
  intros lo hi. induction hi; intros f H; cbn [C02Model.sumr]; [reflexivity|].
  destruct (Nat.leb lo hi) eqn:E; [|reflexivity]. apply Nat.leb_le in E.
  rewrite IHhi by (intros; apply H; lia). rewrite H by lia. ring.
Qed.
Lemma sumr_add : forall lo hi f g, sumr lo hi (fun j => f j + g j) = sumr lo hi f + sumr lo hi g.
Proof.
  intros lo hi f g. induction hi; cbn [C02Model.sumr]; [ring|].
  destruct (Nat.leb lo hi); [|ring]. rewrite IHhi. ring.
Qed.
Lemma sumr_mul_l : forall lo hi c f, sumr lo hi (fun j => c * f j) = c * sumr lo hi f.
Proof.
  intros lo hi c f. induction hi; cbn [C02Model.sumr]; [ring|].
  destruct (Nat.leb lo hi); [|ring]. rewrite IHhi. ring.
Qed.
Lemma sumr_mul_r : forall lo hi c f, sumr lo hi (fun j => f j * c) = sumr lo hi f * c.
Proof.
  intros lo hi c f. induction hi; cbn [C02Model.sumr]; [ring|].
  destruct (Nat.leb lo hi); [|ring]. rewrite IHhi. ring.
Qed.
Lemma sumr_swap : forall lo1 hi1 lo2 hi2 (f : nat -> nat -> A),
  sumr lo1 hi1 (fun i => sumr lo2 hi2 (fun j => f i j)) = sumr lo2 hi2 (fun j => sumr lo1 hi1 (fun i => f i j)).
Proof.
  intros lo1 hi1 lo2 hi2 f. induction hi1; cbn [C02Model.sumr].
  - symmetry. apply sumr_zero. reflexivity.
  - destruct (Nat.leb lo1 hi1).
    + rewrite IHhi1. rewrite <- sumr_add. reflexivity.
    + symmetry. apply sumr_zero. reflexivity.
Qed.
(* a mask selecting a sub-range *)
Lemma sumr_mask : forall lo hi a b f, (lo <= a)%nat -> (a <= b)%nat -> (b <= hi)%nat ->
  sumr lo hi (fun j => if Nat.leb a j && Nat.ltb j b then f j else 0) = sumr a b f.
Proof.
  intros lo hi a b f H1 H2 H3.
  rewrite (sumr_split lo a hi) by lia. rewrite (sumr_split a b hi) by lia.
  rewrite (sumr_zero lo a).
  2:{ intros j Hj. destruct (Nat.leb a j) eqn:E; [apply Nat.leb_le in E; lia|reflexivity]. }
  rewrite (sumr_zero b hi).
  2:{ intros j Hj. destruct (Nat.ltb j b) eqn:E; [apply Nat.ltb_lt in E; lia|]. rewrite andb_false_r. reflexivity. }
  rewrite (sumr_ext a b _ f).
  2:{ intros j Hj. assert (E1 : Nat.leb a j = true) by (apply Nat.leb_le; lia).
      assert (E2 : Nat.ltb j b = true) by (apply Nat.ltb_lt; lia). rewrite E1, E2. reflexivity. }
  ring.
Qed.

Lemma upd_same : forall (x : vec) i v, upd x i v i = v.
Proof. intros. unfold C02Model.upd. rewrite Nat.eqb_refl. reflexivity. Qed.
Lemma upd_other : forall (x : vec) i v k, k <> i -> upd x i v k = x k.
Proof. intros. unfold C02Model.upd. apply Nat.eqb_neq in H. rewrite H. reflexivity. Qed.

Definition dg (unit : bool) (T : mat) (i : nat) : A := if unit then 1 else T i i.
Definition diag_ok (unit : bool) (T : mat) (lo hi : nat) : Prop :=
  unit = true \/ forall i, (lo <= i < hi)%nat -> T i i <> 0.

(* ================= forward substitution, dot-product form (lower, row_major; trsm_block lower) ============ *)
Lemma fwd_row_inv : forall unit T s k b x, fwd_row A F unit T s k b = Some x ->
  (forall i, (s <= i < s + k)%nat -> sumr s i (fun j => T i j * x j) + dg unit T i * x i = b i) /\
  (forall i, ~ (s <= i < s + k)%nat -> x i = b i) /\
  (unit = false -> forall i, (s <= i < s + k)%nat -> T i i <> 0).
Proof.
  intros unit T s k. induction k; intros b x H.
  - cbn in H. inversion H; subst. split; [intros; lia|]. split; [reflexivity|intros; lia].
  - cbn [fwd_row] in H. destruct (fwd_row A F unit T s k b) as [x0|] eqn:E; [|discriminate].
    destruct (IHk b x0 E) as [I1 [I2 I3]]. clear IHk.
    set (i0 := (s + k)%nat) in *.
    assert (Hs : forall (x' : vec) i, (i <= i0)%nat -> (forall j, j <> i0 -> x' j = x0 j) ->
              sumr s i (fun j => T i j * x' j) = sumr s i (fun j => T i j * x0 j)).
    { intros x' i Hi Hx. apply sumr_ext. intros j Hj. rewrite Hx by lia. reflexivity. }
    destruct unit.
    + inversion H; subst x; clear H. split; [|split; [|discriminate]].
      * intros i Hi. destruct (Nat.eq_dec i i0) as [->|N].
        -- rewrite Hs by (auto; intros; apply upd_other; auto). rewrite upd_same.
           rewrite (I2 i0) by (unfold i0; lia). unfold dg. ring.
        -- rewrite Hs by (try (unfold i0; lia); intros; apply upd_other; auto).
           rewrite upd_other by auto. apply I1. unfold i0 in *; lia.
      * intros i Hi. rewrite upd_other by (unfold i0; lia). apply I2. lia.
    + destruct (feqb F (T i0 i0) 0) eqn:Ez; [discriminate|]. apply feqb_false in Ez.
      inversion H; subst x; clear H. split; [|split].
      * intros i Hi. destruct (Nat.eq_dec i i0) as [->|N].
        -- rewrite Hs by (auto; intros; apply upd_other; auto). rewrite upd_same.
           rewrite (I2 i0) by (unfold i0; lia). unfold dg. field. exact Ez.
        -- rewrite Hs by (try (unfold i0; lia); intros; apply upd_other; auto).
           rewrite upd_other by auto. apply I1. unfold i0 in *; lia.
      * intros i Hi. rewrite upd_other by (unfold i0; lia). apply I2. lia.
      * intros _ i Hi. destruct (Nat.eq_dec i i0) as [->|N]; [exact Ez|]. apply I3; [reflexivity|unfold i0 in *; lia].
Qed.

Lemma fwd_row_total : forall unit T s k b, diag_ok unit T s (s + k) -> exists x, fwd_row A F unit T s k b = Some x.
Proof.
  intros unit T s k b. induction k; intros D.
  - eexists; reflexivity.
  - destruct IHk as [x0 E].
    { destruct D as [D|D]; [left; exact D|right; intros; apply D; lia]. }
    cbn [fwd_row]. rewrite E. destruct unit; [eexists; reflexivity|].
    destruct D as [D|D]; [discriminate|].
    assert (N : T (s + k)%nat (s + k)%nat <> 0) by (apply D; lia).
    apply feqb_false in N. rewrite N. eexists; reflexivity.
Qed.

Lemma fwd_row_singular : forall T s k b i, (s <= i < s + k)%nat -> T i i = 0 -> fwd_row A F false T s k b = None.
Proof.
  intros T s k b i Hi Hz. destruct (fwd_row A F false T s k b) as [x|] eqn:E; [|reflexivity].
  apply fwd_row_inv in E. destruct E as [_ [_ E]]. exfalso. apply (E eq_refl i Hi Hz).
Qed.

(* ================= backward substitution, dot-product form (upper, row_major; trsm_block upper) ============ *)
Lemma bwd_row_inv : forall unit T s len k b x, (k <= len)%nat -> bwd_row A F unit T s len k b = Some x ->
  (forall i, (s + len - k <= i < s + len)%nat -> dg unit T i * x i + sumr (S i) (s + len) (fun j => T i j * x j) = b i) /\
  (forall i, ~ (s + len - k <= i < s + len)%nat -> x i = b i) /\
  (unit = false -> forall i, (s + len - k <= i < s + len)%nat -> T i i <> 0).
Proof.
  intros unit T s len k. induction k; intros b x Hk H.
  - cbn in H. inversion H; subst. split; [intros; lia|]. split; [reflexivity|intros; lia].
  - cbn [bwd_row] in H. destruct (bwd_row A F unit T s len k b) as [x0|] eqn:E; [|discriminate].
    destruct (IHk b x0 ltac:(lia) E) as [I1 [I2 I3]]. clear IHk.
    set (i0 := (s + len - 1 - k)%nat) in *.
    assert (Hi0 : (i0 = s + len - S k)%nat) by (unfold i0; lia).
    assert (Hs : forall (x' : vec) i, (i0 <= i)%nat -> (forall j, j <> i0 -> x' j = x0 j) ->
              sumr (S i) (s + len) (fun j => T i j * x' j) = sumr (S i) (s + len) (fun j => T i j * x0 j)).
    { intros x' i Hi Hx. apply sumr_ext. intros j Hj. rewrite Hx by lia. reflexivity. }
    destruct unit.
    + inversion H; subst x; clear H. split; [|split; [|discriminate]].
      * intros i Hi. destruct (Nat.eq_dec i i0) as [->|N].
        -- rewrite (Hs (upd x0 i0 _)) by (auto; intros; apply upd_other; auto). rewrite upd_same.
           rewrite (I2 i0) by lia. unfold dg. ring.
        -- rewrite (Hs (upd x0 i0 _)) by (try lia; intros; apply upd_other; auto).
           rewrite upd_other by auto. apply I1. lia.
      * intros i Hi. rewrite upd_other by lia. apply I2. lia.
    + destruct (feqb F (T i0 i0) 0) eqn:Ez; [discriminate|]. apply feqb_false in Ez.
      inversion H; subst x; clear H. split; [|split].
      * intros i Hi. destruct (Nat.eq_dec i i0) as [->|N].
        -- rewrite (Hs (upd x0 i0 _)) by (auto; intros; apply upd_other; auto). rewrite upd_same.
           rewrite (I2 i0) by lia. unfold dg. field. exact Ez.
        -- rewrite (Hs (upd x0 i0 _)) by (try lia; intros; apply upd_other; auto).
           rewrite upd_other by auto. apply I1. lia.
      * intros i Hi. rewrite upd_other by lia. apply I2. lia.
      * intros _ i Hi. destruct (Nat.eq_dec i i0) as [->|N]; [exact Ez|]. apply I3; [reflexivity|lia].
Qed.

Lemma bwd_row_total : forall unit T s len k b, (k <= len)%nat -> diag_ok unit T (s + len - k) (s + len) ->
  exists x, bwd_row A F unit T s len k b = Some x.
Proof.
  intros unit T s len k b. induction k; intros Hk D.
  - eexists; reflexivity.
  - destruct IHk as [x0 E]; [lia| |].
    { destruct D as [D|D]; [left; exact D|right; intros; apply D; lia]. }
    cbn [bwd_row]. rewrite E. destruct unit; [eexists; reflexivity|].
    destruct D as [D|D]; [discriminate|].
    assert (N : T (s + len - 1 - k)%nat (s + len - 1 - k)%nat <> 0) by (apply D; lia).
    apply feqb_false in N. rewrite N. eexists; reflexivity.
Qed.

(* ================= forward substitution, axpy form (lower, column_major) ============ *)
Lemma fwd_col_inv : forall unit T n k b x, (k <= n)%nat -> fwd_col A F unit T n k b = Some x ->
  (forall i, (i < k)%nat -> sumr 0 i (fun j => T i j * x j) + dg unit T i * x i = b i) /\
  (forall i, (k <= i < n)%nat -> x i = b i - sumr 0 k (fun j => T i j * x j)) /\
  (forall i, (n <= i)%nat -> x i = b i) /\
  (unit = false -> forall i, (i < k)%nat -> T i i <> 0).
Proof.
  intros unit T n k. induction k; intros b x Hk H.
  - cbn in H. inversion H; subst. split; [intros; lia|]. split; [|split; [reflexivity|intros; lia]].
    intros. rewrite sumr_empty by lia. ring.
  - cbn [fwd_col] in H. destruct (fwd_col A F unit T n k b) as [x0|] eqn:E; [|discriminate].
    destruct (IHk b x0 ltac:(lia) E) as [I1 [I2 [I3 I4]]]. clear IHk.
    destruct (negb unit && feqb F (T k k) 0) eqn:Ez; [discriminate|].
    set (xc := if unit then x0 k else x0 k / T k k) in *.
    assert (Hd : unit = false -> T k k <> 0).
    { intros ->. cbn in Ez. apply feqb_false in Ez. exact Ez. }
    assert (Hxc : dg unit T k * xc = x0 k).
    { unfold dg, xc. destruct unit; [ring|]. field. auto. }
    assert (F1 : x k = xc /\ (forall i, (i < k)%nat -> x i = x0 i) /\
                 (forall i, (k < i < n)%nat -> x i = x0 i - xc * T i k) /\ (forall i, (n <= i)%nat -> x i = x0 i)).
    { destruct (feqb F xc 0) eqn:Ex.
      - apply feqb_spec in Ex. inversion H; subst x; clear H. split; [apply upd_same|].
        split; [intros; apply upd_other; lia|]. split; [|intros; apply upd_other; lia].
        intros i Hi. rewrite upd_other by lia. rewrite Ex. ring.
      - inversion H; subst x; clear H. split; [|split; [|split]].
        + rewrite memo_eq. rewrite Nat.eqb_refl. reflexivity.
        + intros i Hi. rewrite memo_eq. assert (E1 : Nat.eqb i k = false) by (apply Nat.eqb_neq; lia).
          assert (E2 : Nat.ltb k i = false) by (apply Nat.ltb_ge; lia). rewrite E1, E2. reflexivity.
        + intros i Hi. rewrite memo_eq. assert (E1 : Nat.eqb i k = false) by (apply Nat.eqb_neq; lia).
          assert (E2 : Nat.ltb k i = true) by (apply Nat.ltb_lt; lia).
          assert (E3 : Nat.ltb i n = true) by (apply Nat.ltb_lt; lia). rewrite E1, E2, E3. cbn [andb]. ring.
        + intros i Hi. rewrite memo_eq. assert (E1 : Nat.eqb i k = false) by (apply Nat.eqb_neq; lia).
          assert (E3 : Nat.ltb i n = false) by (apply Nat.ltb_ge; lia). rewrite E1, E3, andb_false_r. reflexivity. }
    destruct F1 as [F1 [F2 [F3 F4]]]. clear H Ez.
    assert (Hs : forall i m, (m <= k)%nat -> sumr 0 m (fun j => T i j * x j) = sumr 0 m (fun j => T i j * x0 j)).
    { intros i m Hm. apply sumr_ext. intros j Hj. rewrite F2 by lia. reflexivity. }
    split; [|split; [|split]].
    + intros i Hi. destruct (Nat.eq_dec i k) as [->|N].
      * rewrite Hs by lia. rewrite F1, Hxc. rewrite (I2 k) by lia. ring.
      * rewrite Hs by lia. rewrite F2 by lia. apply I1. lia.
    + intros i Hi. rewrite sumr_S by lia. rewrite Hs by lia. rewrite F1. rewrite F3 by lia.
      rewrite (I2 i) by lia. ring.
    + intros i Hi. rewrite F4 by lia. apply I3. lia.
    + intros Hu i Hi. destruct (Nat.eq_dec i k) as [->|N]; [auto|]. apply I4; [exact Hu|lia].
Qed.

Lemma fwd_col_total : forall unit T n k b, diag_ok unit T 0 k -> exists x, fwd_col A F unit T n k b = Some x.
Proof.
  intros unit T n k b. induction k; intros D.
  - eexists; reflexivity.
  - destruct IHk as [x0 E].
    { destruct D as [D|D]; [left; exact D|right; intros; apply D; lia]. }
    cbn [fwd_col]. rewrite E.
    assert (Ez : negb unit && feqb F (T k k) 0 = false).
    { destruct D as [D|D]; [rewrite D; reflexivity|]. assert (N : T k k <> 0) by (apply D; lia).
      apply feqb_false in N. rewrite N. apply andb_false_r. }
    rewrite Ez. cbv zeta. match goal with |- context [if feqb F ?a 0 then Some _ else Some _] => destruct (feqb F a 0) end; eexists; reflexivity.
Qed.

(* ================= backward substitution, axpy form (upper, column_major) ============ *)
Lemma bwd_col_inv : forall unit T n k b x, (k <= n)%nat -> bwd_col A F unit T n k b = Some x ->
  (forall i, (n - k <= i < n)%nat -> dg unit T i * x i + sumr (S i) n (fun j => T i j * x j) = b i) /\
  (forall i, (i < n - k)%nat -> x i = b i - sumr (n - k) n (fun j => T i j * x j)) /\
  (forall i, (n <= i)%nat -> x i = b i) /\
  (unit = false -> forall i, (n - k <= i < n)%nat -> T i i <> 0).
Proof.
  intros unit T n k. induction k; intros b x Hk H.
  - cbn in H. inversion H; subst. split; [intros; lia|]. split; [|split; [reflexivity|intros; lia]].
    intros. rewrite sumr_empty by lia. ring.
  - cbn [bwd_col] in H. destruct (bwd_col A F unit T n k b) as [x0|] eqn:E; [|discriminate].
    destruct (IHk b x0 ltac:(lia) E) as [I1 [I2 [I3 I4]]]. clear IHk.
    set (c := (n - 1 - k)%nat) in *.
    assert (Hc1 : (n - S k = c)%nat) by (unfold c; lia).
    assert (Hc2 : (n - k = S c)%nat) by (unfold c; lia).
    assert (Hc3 : (c < n)%nat) by (unfold c; lia).
    rewrite Hc1. rewrite Hc2 in *. clearbody c.
    destruct (negb unit && feqb F (T c c) 0) eqn:Ez; [discriminate|].
    set (xc := if unit then x0 c else x0 c / T c c) in *.
    assert (Hd : unit = false -> T c c <> 0).
    { intros ->. cbn in Ez. apply feqb_false in Ez. exact Ez. }
    assert (Hxc : dg unit T c * xc = x0 c).
    { unfold dg, xc. destruct unit; [ring|]. field. auto. }
    assert (F1 : x c = xc /\ (forall i, (c < i)%nat -> x i = x0 i) /\
                 (forall i, (i < c)%nat -> x i = x0 i - xc * T i c)).
    { destruct (feqb F xc 0) eqn:Ex.
      - apply feqb_spec in Ex. inversion H; subst x; clear H. split; [apply upd_same|].
        split; [intros; apply upd_other; lia|].
        intros i Hi. rewrite upd_other by lia. rewrite Ex. ring.
      - inversion H; subst x; clear H. split; [|split].
        + rewrite memo_eq. rewrite Nat.eqb_refl. reflexivity.
        + intros i Hi. rewrite memo_eq. assert (E1 : Nat.eqb i c = false) by (apply Nat.eqb_neq; lia).
          assert (E2 : Nat.ltb i c = false) by (apply Nat.ltb_ge; lia). rewrite E1, E2. reflexivity.
        + intros i Hi. rewrite memo_eq. assert (E1 : Nat.eqb i c = false) by (apply Nat.eqb_neq; lia).
          assert (E2 : Nat.ltb i c = true) by (apply Nat.ltb_lt; lia). rewrite E1, E2. ring. }
    destruct F1 as [F1 [F2 F3]]. clear H Ez.
    assert (Hs : forall i m, (c < m)%nat -> sumr m n (fun j => T i j * x j) = sumr m n (fun j => T i j * x0 j)).
    { intros i m Hm. apply sumr_ext. intros j Hj. rewrite F2 by lia. reflexivity. }
    split; [|split; [|split]].
    + intros i Hi. destruct (Nat.eq_dec i c) as [->|N].
      * rewrite Hs by lia. rewrite F1, Hxc. rewrite (I2 c) by lia. ring.
      * rewrite Hs by lia. rewrite F2 by lia. apply I1. lia.
    + intros i Hi. rewrite (sumr_first c n) by lia. rewrite Hs by lia. rewrite F1. rewrite F3 by lia.
      rewrite (I2 i) by lia. ring.
    + intros i Hi. rewrite F2 by lia. apply I3. lia.
    + intros Hu i Hi. destruct (Nat.eq_dec i c) as [->|N]; [auto|]. apply I4; [exact Hu|lia].
Qed.

Lemma bwd_col_total : forall unit T n k b, (k <= n)%nat -> diag_ok unit T (n - k) n -> exists x, bwd_col A F unit T n k b = Some x.
Proof.
  intros unit T n k b. induction k; intros Hk D.
  - eexists; reflexivity.
  - destruct IHk as [x0 E]; [lia| |].
    { destruct D as [D|D]; [left; exact D|right; intros; apply D; lia]. }
    cbn [bwd_col]. rewrite E.
    assert (Ez : negb unit && feqb F (T (n - 1 - k)%nat (n - 1 - k)%nat) 0 = false).
    { destruct D as [D|D]; [rewrite D; reflexivity|].
      assert (N : T (n - 1 - k)%nat (n - 1 - k)%nat <> 0) by (apply D; lia).
      apply feqb_false in N. rewrite N. apply andb_false_r. }
    rewrite Ez. cbv zeta. match goal with |- context [if feqb F ?a 0 then Some _ else Some _] => destruct (feqb F a 0) end; eexists; reflexivity.
Qed.

(* ================= specification with full (masked) matrices ============ *)
(* the triangular matrix the solver reads: the named triangle of the stored matrix, unit diagonal if Unit *)
Definition tri (upper unit : bool) (T : mat) : mat := fun i j =>
  if Nat.eqb i j then dg unit T i
  else if (if upper then Nat.ltb i j else Nat.ltb j i) then T i j else 0.
Definition mv (n : nat) (M : mat) (x : vec) : vec := fun i => sumr 0 n (fun j => M i j * x j).
Definition vm (n : nat) (x : vec) (M : mat) : vec := fun j => sumr 0 n (fun i => x i * M i j).

Lemma mv_lower : forall n unit T x i, (i < n)%nat ->
  mv n (tri false unit T) x i = sumr 0 i (fun j => T i j * x j) + dg unit T i * x i.
Proof.
  intros n unit T x i Hi. unfold mv. rewrite (sumr_split 0 i n) by lia. rewrite (sumr_first i n) by lia.
  rewrite (sumr_zero (S i) n).
  2:{ intros j Hj. unfold tri. assert (E1 : Nat.eqb i j = false) by (apply Nat.eqb_neq; lia).
      assert (E2 : Nat.ltb j i = false) by (apply Nat.ltb_ge; lia). rewrite E1, E2. ring. }
  rewrite (sumr_ext 0 i _ (fun j => T i j * x j)).
  2:{ intros j Hj. unfold tri. assert (E1 : Nat.eqb i j = false) by (apply Nat.eqb_neq; lia).
      assert (E2 : Nat.ltb j i = true) by (apply Nat.ltb_lt; lia). rewrite E1, E2. reflexivity. }
  unfold tri at 1. rewrite Nat.eqb_refl. ring.
Qed.
Lemma mv_upper : forall n unit T x i, (i < n)%nat ->
  mv n (tri true unit T) x i = dg unit T i * x i + sumr (S i) n (fun j => T i j * x j).
Proof.
  intros n unit T x i Hi. unfold mv. rewrite (sumr_split 0 i n) by lia. rewrite (sumr_first i n) by lia.
  rewrite (sumr_zero 0 i).
  2:{ intros j Hj. unfold tri. assert (E1 : Nat.eqb i j = false) by (apply Nat.eqb_neq; lia).
      assert (E2 : Nat.ltb i j = false) by (apply Nat.ltb_ge; lia). rewrite E1, E2. ring. }
  rewrite (sumr_ext (S i) n _ (fun j => T i j * x j)).
  2:{ intros j Hj. unfold tri. assert (E1 : Nat.eqb i j = false) by (apply Nat.eqb_neq; lia).
      assert (E2 : Nat.ltb i j = true) by (apply Nat.ltb_lt; lia). rewrite E1, E2. reflexivity. }
  unfold tri at 1. rewrite Nat.eqb_refl. ring.
Qed.
Lemma tri_transp : forall upper unit T i j, tri (negb upper) unit (transp A T) i j = tri upper unit T j i.
Proof.
  intros. unfold tri, transp, dg. rewrite (Nat.eqb_sym j i). destruct (Nat.eqb i j) eqn:E.
  - apply Nat.eqb_eq in E. subst. reflexivity.
  - destruct upper; reflexivity.
Qed.
Lemma vm_transp : forall n upper unit T x j,
  vm n x (tri upper unit T) j = mv n (tri (negb upper) unit (transp A T)) x j.
Proof. intros. unfold vm, mv. apply sumr_ext. intros i _. rewrite tri_transp. ring. Qed.

(* ---- trsv<Triangular,left>: all four loops ---- *)
Theorem trsv_left_correct : forall upper unit o T n b x,
  trsv_left A F upper unit o T n b = Some x -> forall i, (i < n)%nat -> mv n (tri upper unit T) x i = b i.
Proof.
  intros upper unit o T n b x H i Hi. destruct upper, o; cbn [trsv_left] in H.
  - apply bwd_row_inv in H; [|lia]. destruct H as [H _]. rewrite mv_upper by exact Hi. apply (H i). lia.
  - apply bwd_col_inv in H; [|lia]. destruct H as [H _]. rewrite mv_upper by exact Hi. apply H. lia.
  - apply fwd_row_inv in H. destruct H as [H _]. rewrite mv_lower by exact Hi. apply (H i). lia.
  - apply fwd_col_inv in H; [|lia]. destruct H as [H _]. rewrite mv_lower by exact Hi. apply H. lia.
Qed.
Theorem trsv_correct : forall upper unit o left T n b x,
  trsv A F upper unit o left T n b = Some x ->
  forall i, (i < n)%nat -> (if left then mv n (tri upper unit T) x i else vm n x (tri upper unit T) i) = b i.
Proof.
  intros upper unit o left T n b x H i Hi. destruct left; cbn [trsv] in H.
  - eapply trsv_left_correct; eauto.
  - rewrite vm_transp. eapply trsv_left_correct; eauto.
Qed.
Theorem trsv_left_total : forall upper unit o T n b, diag_ok unit T 0 n -> exists x, trsv_left A F upper unit o T n b = Some x.
Proof.
  intros upper unit o T n b D. destruct upper, o; cbn [trsv_left].
  - apply bwd_row_total; [lia|]. replace (0 + n - n)%nat with O by lia. exact D.
  - apply bwd_col_total; [lia|]. replace (n - n)%nat with O by lia. exact D.
  - apply fwd_row_total. exact D.
  - apply fwd_col_total. exact D.
Qed.
Theorem trsv_total : forall upper unit o left T n b, diag_ok unit T 0 n -> exists x, trsv A F upper unit o left T n b = Some x.
Proof.
  intros upper unit o left T n b D. destruct left; cbn [trsv]; apply trsv_left_total; exact D.
Qed.
(* a zero pivot is reported (the exception), never divided by *)
Theorem trsv_left_singular : forall upper o T n b i, (i < n)%nat -> T i i = 0 -> trsv_left A F upper false o T n b = None.
Proof.
  intros upper o T n b i Hi Hz. destruct (trsv_left A F upper false o T n b) as [x|] eqn:E; [|reflexivity]. exfalso.
  destruct upper, o; cbn [trsv_left] in E.
  - apply bwd_row_inv in E; [|lia]. destruct E as [_ [_ E]]. apply (E eq_refl i); [lia|exact Hz].
  - apply bwd_col_inv in E; [|lia]. destruct E as [_ [_ [_ E]]]. apply (E eq_refl i); [lia|exact Hz].
  - apply fwd_row_inv in E. destruct E as [_ [_ E]]. apply (E eq_refl i); [lia|exact Hz].
  - apply fwd_col_inv in E; [|lia]. destruct E as [_ [_ [_ E]]]. apply (E eq_refl i); [lia|exact Hz].
Qed.
Theorem trsv_singular : forall upper o left T n b i, (i < n)%nat -> T i i = 0 -> trsv A F upper false o left T n b = None.
Proof.
  intros upper o left T n b i Hi Hz. destruct left; cbn [trsv]; eapply trsv_left_singular; eauto.
Qed.

(* ================= blocked recursion of trsm ============ *)
Definition win_lower (unit : bool) (T : mat) (s len : nat) (b x : vec) : Prop :=
  (forall i, (s <= i < s + len)%nat -> sumr s i (fun j => T i j * x j) + dg unit T i * x i = b i) /\
  (forall i, ~ (s <= i < s + len)%nat -> x i = b i).
Definition win_upper (unit : bool) (T : mat) (s len : nat) (b x : vec) : Prop :=
  (forall i, (s <= i < s + len)%nat -> dg unit T i * x i + sumr (S i) (s + len) (fun j => T i j * x j) = b i) /\
  (forall i, ~ (s <= i < s + len)%nat -> x i = b i).

Lemma split_le : forall bs len, (0 < bs)%nat -> ((len + bs - 1) / bs / 2 * bs <= len)%nat.
Proof.
  intros bs len Hb. set (q := ((len + bs - 1) / bs)%nat). set (h := (q / 2)%nat).
  assert (H1 : (bs * q <= len + bs - 1)%nat) by (apply Nat.mul_div_le; lia).
  assert (H2 : (2 * h <= q)%nat) by (apply Nat.mul_div_le; lia).
  destruct h as [|h']; [lia|]. nia.
Qed.

Lemma trsv_rec_lower : forall bs fuel unit T n s len b x, (0 < bs)%nat ->
  trsv_rec A F bs fuel false unit T n s len b = Some x -> win_lower unit T s len b x.
Proof.
  intros bs fuel unit T n. induction fuel; intros s len b x Hb H.
  - cbn [trsv_rec] in H. destruct (Nat.leb len bs); [|discriminate].
    apply fwd_row_inv in H. destruct H as [H1 [H2 _]]. split; assumption.
  - cbn [trsv_rec] in H. destruct (Nat.leb len bs).
    { apply fwd_row_inv in H. destruct H as [H1 [H2 _]]. split; assumption. }
    pose proof (split_le bs len Hb) as Hsp.
    set (split := ((len + bs - 1) / bs / 2 * bs)%nat) in *. clearbody split.
    destruct (trsv_rec A F bs fuel false unit T n s split b) as [x1|] eqn:E1; [|discriminate].
    apply IHfuel in E1; [|exact Hb]. apply IHfuel in H; [|exact Hb]. clear IHfuel.
    destruct E1 as [A1 A2]. destruct H as [B1 B2].
    replace (s + split + (len - split))%nat with (s + len)%nat in * by lia.
    assert (X2 : forall i, ~ (s + split <= i < s + len)%nat -> x i = x1 i).
    { intros i Hi. rewrite B2 by exact Hi. rewrite memo_eq.
      destruct (Nat.leb (s + split) i) eqn:E; [|reflexivity]. destruct (Nat.ltb i (s + len)) eqn:E'; [|reflexivity].
      apply Nat.leb_le in E. apply Nat.ltb_lt in E'. lia. }
    split.
    + intros i Hi. destruct (Nat.lt_ge_cases i (s + split)) as [Hlt|Hge].
      * rewrite (sumr_ext s i _ (fun j => T i j * x1 j)) by (intros j Hj; rewrite X2 by lia; reflexivity).
        rewrite X2 by lia. apply A1. lia.
      * rewrite (sumr_split s (s + split) i) by lia.
        rewrite (sumr_ext s (s + split) _ (fun j => T i j * x1 j)) by (intros j Hj; rewrite X2 by lia; reflexivity).
        pose proof (B1 i ltac:(lia)) as Bi. rewrite memo_eq in Bi.
        assert (E : Nat.leb (s + split) i = true) by (apply Nat.leb_le; lia).
        assert (E' : Nat.ltb i (s + len) = true) by (apply Nat.ltb_lt; lia).
        rewrite E, E' in Bi. cbn [andb] in Bi. rewrite (A2 i) in Bi by lia.
        match type of Bi with ?L = _ => match goal with |- ?G = _ => assert (Hx : G = L + sumr s (s + split) (fun j => T i j * x1 j)) by ring; rewrite Hx, Bi; ring end end.
    + intros i Hi. rewrite X2 by lia. apply A2. lia.
Qed.

Lemma trsv_rec_upper : forall bs fuel unit T n s len b x, (0 < bs)%nat ->
  trsv_rec A F bs fuel true unit T n s len b = Some x -> win_upper unit T s len b x.
Proof.
  intros bs fuel unit T n. induction fuel; intros s len b x Hb H.
  - cbn [trsv_rec] in H. destruct (Nat.leb len bs); [|discriminate].
    apply bwd_row_inv in H; [|lia]. destruct H as [H1 [H2 _]].
    replace (s + len - len)%nat with s in * by lia. split; assumption.
  - cbn [trsv_rec] in H. destruct (Nat.leb len bs).
    { apply bwd_row_inv in H; [|lia]. destruct H as [H1 [H2 _]].
      replace (s + len - len)%nat with s in * by lia. split; assumption. }
    pose proof (split_le bs len Hb) as Hsp.
    set (split := ((len + bs - 1) / bs / 2 * bs)%nat) in *. clearbody split.
    destruct (trsv_rec A F bs fuel true unit T n (s + split) (len - split) b) as [x1|] eqn:E1; [|discriminate].
    apply IHfuel in E1; [|exact Hb]. apply IHfuel in H; [|exact Hb]. clear IHfuel.
    destruct E1 as [A1 A2]. destruct H as [B1 B2].
    replace (s + split + (len - split))%nat with (s + len)%nat in * by lia.
    assert (X2 : forall i, ~ (s <= i < s + split)%nat -> x i = x1 i).
    { intros i Hi. rewrite B2 by exact Hi. rewrite memo_eq.
      destruct (Nat.leb s i) eqn:E; [|reflexivity]. destruct (Nat.ltb i (s + split)) eqn:E'; [|reflexivity].
      apply Nat.leb_le in E. apply Nat.ltb_lt in E'. lia. }
    split.
    + intros i Hi. destruct (Nat.lt_ge_cases i (s + split)) as [Hlt|Hge].
      * rewrite (sumr_split (S i) (s + split) (s + len)) by lia.
        rewrite (sumr_ext (s + split) (s + len) _ (fun j => T i j * x1 j)) by (intros j Hj; rewrite X2 by lia; reflexivity).
        pose proof (B1 i ltac:(lia)) as Bi. rewrite memo_eq in Bi.
        assert (E : Nat.leb s i = true) by (apply Nat.leb_le; lia).
        assert (E' : Nat.ltb i (s + split) = true) by (apply Nat.ltb_lt; lia).
        rewrite E, E' in Bi. cbn [andb] in Bi. rewrite (A2 i) in Bi by lia.
        match type of Bi with ?L = _ => match goal with |- ?G = _ => assert (Hx : G = L + sumr (s + split) (s + len) (fun j => T i j * x1 j)) by ring; rewrite Hx, Bi; ring end end.
      * rewrite (sumr_ext (S i) (s + len) _ (fun j => T i j * x1 j)) by (intros j Hj; rewrite X2 by lia; reflexivity).
        rewrite X2 by lia. apply A1. lia.
    + intros i Hi. rewrite X2 by lia. apply A2. lia.
Qed.

Theorem trsv_rec_correct : forall bs fuel upper unit T n b x, (0 < bs)%nat ->
  trsv_rec A F bs fuel upper unit T n 0 n b = Some x -> forall i, (i < n)%nat -> mv n (tri upper unit T) x i = b i.
Proof.
  intros bs fuel upper unit T n b x Hb H i Hi. destruct upper.
  - apply trsv_rec_upper in H; [|exact Hb]. destruct H as [H _]. rewrite mv_upper by exact Hi. apply (H i). lia.
  - apply trsv_rec_lower in H; [|exact Hb]. destruct H as [H _]. rewrite mv_lower by exact Hi. apply (H i). lia.
Qed.

Lemma map_opt_Forall2 : forall (X Y : Type) (f : X -> option Y) (P : X -> Y -> Prop),
  (forall a y, f a = Some y -> P a y) -> forall l r, map_opt f l = Some r -> Forall2 P l r.
Proof.
  intros X Y f P Hf. induction l; intros r H; cbn in H.
  - inversion H. constructor.
  - destruct (f a) eqn:E; [|discriminate]. destruct (map_opt f l) eqn:E2; [|discriminate].
    inversion H; subst. constructor; auto.
Qed.

(* trsm<Triangular,left>(T,B): every column of the result solves T x = b;  trsm<Triangular,right>: every row solves x T = b *)
Theorem trsm_left_correct : forall bs upper unit T n cols X, (0 < bs)%nat ->
  trsm A F bs upper unit true T n cols = Some X ->
  Forall2 (fun b x => forall i, (i < n)%nat -> mv n (tri upper unit T) x i = b i) cols X.
Proof.
  intros bs upper unit T n cols X Hb H. cbn [trsm] in H.
  eapply map_opt_Forall2; [|exact H]. intros b x E. eapply trsv_rec_correct; eauto.
Qed.
Theorem trsm_right_correct : forall bs upper unit T n rows X, (0 < bs)%nat ->
  trsm A F bs upper unit false T n rows = Some X ->
  Forall2 (fun b x => forall j, (j < n)%nat -> vm n x (tri upper unit T) j = b j) rows X.
Proof.
  intros bs upper unit T n rows X Hb H. cbn [trsm] in H.
  eapply map_opt_Forall2; [|exact H]. intros b x E j Hj. rewrite vm_transp. eapply trsv_rec_correct; eauto.
Qed.

(* ================= unblocked Cholesky kernels ============ *)
Hypothesis fleb_00 : fleb F 0 0 = true.

Definition pivot_lower (j : nat) (L : mat) : A := L j j - sumr 0 j (fun k => L j k * L j k).
(* the square root was exact on every pivot the run took it of (over Q: perfect-square pivots) *)
Definition sqrt_exact_lower (n k : nat) (M : mat) : Prop :=
  forall j L, (j < k)%nat -> potrf_lower A F n j M = POk A L -> fleb F (pivot_lower j L) 0 = false ->
    fsqrt F (pivot_lower j L) * fsqrt F (pivot_lower j L) = pivot_lower j L.
Definition sqrt_exact_upper (n k : nat) (M : mat) : Prop :=
  forall i U, (i < k)%nat -> potrf_upper A F n i M = POk A U -> fltb F (U i i) 0 = false ->
    fsqrt F (U i i) * fsqrt F (U i i) = U i i.

Definition lower_inv (n k : nat) (M L : mat) : Prop :=
  (forall c i, (c < k)%nat -> (c <= i < n)%nat -> sumr 0 (S c) (fun t => L i t * L c t) = M i c) /\
  (forall i c, (k <= c \/ i < c \/ n <= i)%nat -> L i c = M i c) /\
  (forall c, (c < k)%nat -> L c c <> 0).

Lemma potrf_lower_inv : forall n k M L, (k <= n)%nat -> sqrt_exact_lower n k M ->
  potrf_lower A F n k M = POk A L -> lower_inv n k M L.
Proof.
  intros n k M. induction k; intros L Hk Hsq H.
  - cbn in H. inversion H; subst. split; [intros; lia|]. split; [reflexivity|intros; lia].
  - cbn [potrf_lower] in H. destruct (potrf_lower A F n k M) as [L0| |] eqn:E; try discriminate.
    assert (I : lower_inv n k M L0).
    { apply IHk; [lia| |reflexivity]. intros j L1 Hj. apply Hsq. lia. }
    clear IHk. destruct I as [I1 [I2 I3]].
    pose proof (Hsq k L0 ltac:(lia) E) as Hd.
    unfold potrf_lower_col in H. fold (pivot_lower k L0) in H.
    set (s := pivot_lower k L0) in *.
    destruct (fleb F s 0) eqn:Es; [discriminate|]. specialize (Hd eq_refl).
    set (d := fsqrt F s) in *.
    assert (Hs0 : s <> 0) by (intros Z; rewrite Z in Es; rewrite fleb_00 in Es; discriminate).
    assert (Hd0 : d <> 0) by (intros Z; apply Hs0; rewrite <- Hd, Z; ring).
    inversion H; subst L; clear H.
    assert (Hoth : forall i c, c <> k -> memo2 A F n (fun i c => if Nat.eqb c k && Nat.leb k i && Nat.ltb i n
              then (if Nat.eqb i k then d else (L0 i k - sumr 0 k (fun t => L0 i t * L0 k t)) / d) else L0 i c) i c = L0 i c).
    { intros i c Hc. rewrite memo2_eq. apply Nat.eqb_neq in Hc. rewrite Hc. reflexivity. }
    assert (Hcol : forall i, (k <= i < n)%nat -> memo2 A F n (fun i c => if Nat.eqb c k && Nat.leb k i && Nat.ltb i n
              then (if Nat.eqb i k then d else (L0 i k - sumr 0 k (fun t => L0 i t * L0 k t)) / d) else L0 i c) i k
              = if Nat.eqb i k then d else (L0 i k - sumr 0 k (fun t => L0 i t * L0 k t)) / d).
    { intros i Hi. rewrite memo2_eq. rewrite Nat.eqb_refl.
      assert (E1 : Nat.leb k i = true) by (apply Nat.leb_le; lia).
      assert (E2 : Nat.ltb i n = true) by (apply Nat.ltb_lt; lia). rewrite E1, E2. reflexivity. }
    assert (Hunt : forall i, (i < k \/ n <= i)%nat -> memo2 A F n (fun i c => if Nat.eqb c k && Nat.leb k i && Nat.ltb i n
              then (if Nat.eqb i k then d else (L0 i k - sumr 0 k (fun t => L0 i t * L0 k t)) / d) else L0 i c) i k = L0 i k).
    { intros i Hi. rewrite memo2_eq. rewrite Nat.eqb_refl. destruct (Nat.leb k i) eqn:E1; [|reflexivity].
      destruct (Nat.ltb i n) eqn:E2; [|reflexivity]. apply Nat.leb_le in E1. apply Nat.ltb_lt in E2. lia. }
    set (L' := memo2 A F n _) in *. clearbody L'.
    split; [|split].
    + intros c i Hc Hi. destruct (Nat.eq_dec c k) as [->|N].
      * rewrite sumr_S by lia.
        rewrite (sumr_ext 0 k _ (fun t => L0 i t * L0 k t)) by (intros t Ht; rewrite !Hoth by lia; reflexivity).
        rewrite (Hcol i) by lia. rewrite (Hcol k) by lia. rewrite Nat.eqb_refl.
        destruct (Nat.eqb i k) eqn:Eik.
        -- apply Nat.eqb_eq in Eik. subst i. rewrite Hd. unfold s, pivot_lower. rewrite <- (I2 k k) by lia. ring.
        -- rewrite <- (I2 i k) by lia. field. exact Hd0.
      * rewrite (sumr_ext 0 (S c) _ (fun t => L0 i t * L0 c t)) by (intros t Ht; rewrite !Hoth by lia; reflexivity).
        apply I1; lia.
    + intros i c Hc. destruct (Nat.eq_dec c k) as [->|N].
      * rewrite Hunt by lia. apply I2. lia.
      * rewrite Hoth by exact N. apply I2. lia.
    + intros c Hc. destruct (Nat.eq_dec c k) as [->|N].
      * rewrite (Hcol k) by lia. rewrite Nat.eqb_refl. exact Hd0.
      * rewrite Hoth by exact N. apply I3. lia.
Qed.

Definition upper_inv (n k : nat) (M U : mat) : Prop :=
  (forall r c, (r < k)%nat -> (r <= c < n)%nat -> sumr 0 (S r) (fun t => U t r * U t c) = M r c) /\
  (forall r c, (k <= r)%nat -> (r <= c < n)%nat -> U r c = M r c - sumr 0 k (fun t => U t r * U t c)) /\
  (forall r c, (c < r \/ n <= c)%nat -> U r c = M r c).

Lemma potrf_upper_inv : forall n k M U, (k <= n)%nat -> sqrt_exact_upper n k M ->
  potrf_upper A F n k M = POk A U -> upper_inv n k M U.
Proof.
  intros n k M. induction k; intros U Hk Hsq H.
  - cbn in H. inversion H; subst. split; [intros; lia|]. split; [|reflexivity].
    intros. rewrite sumr_empty by lia. ring.
  - cbn [potrf_upper] in H. destruct (potrf_upper A F n k M) as [U0| |] eqn:E; try discriminate.
    assert (I : upper_inv n k M U0).
    { apply IHk; [lia| |reflexivity]. intros j L1 Hj. apply Hsq. lia. }
    clear IHk. destruct I as [I1 [I2 I3]].
    pose proof (Hsq k U0 ltac:(lia) E) as Hd.
    unfold potrf_upper_step in H.
    destruct (fltb F (U0 k k) 0) eqn:Es; [discriminate|]. specialize (Hd eq_refl).
    set (d := fsqrt F (U0 k k)) in *.
    destruct (feqb F d 0 && Nat.ltb (S k) n) eqn:Ez; [discriminate|].
    assert (Hd0 : (S k < n)%nat -> d <> 0).
    { intros Hlt. apply Nat.ltb_lt in Hlt. rewrite Hlt, andb_true_r in Ez. apply feqb_false in Ez. exact Ez. }
    inversion H; subst U; clear H Ez.
    match goal with |- upper_inv _ _ _ (memo2 A F n ?f) => set (g := f) end.
    assert (G : forall r c, memo2 A F n g r c = g r c) by (intros; apply memo2_eq).
    set (U' := memo2 A F n g) in *. clearbody U'.
    assert (Hrow : forall r c, (r < k)%nat -> U' r c = U0 r c).
    { intros r c Hr. rewrite G. unfold g. assert (E1 : Nat.eqb r k = false) by (apply Nat.eqb_neq; lia).
      assert (E2 : Nat.ltb k r = false) by (apply Nat.ltb_ge; lia). rewrite E1, E2. reflexivity. }
    assert (Hkk : U' k k = d) by (rewrite G; unfold g; rewrite !Nat.eqb_refl; reflexivity).
    assert (Hkc : forall c, (k < c < n)%nat -> U' k c = U0 k c / d).
    { intros c Hc. rewrite G. unfold g. rewrite Nat.eqb_refl.
      assert (E1 : Nat.eqb c k = false) by (apply Nat.eqb_neq; lia).
      assert (E2 : Nat.ltb k c = true) by (apply Nat.ltb_lt; lia).
      assert (E3 : Nat.ltb c n = true) by (apply Nat.ltb_lt; lia). rewrite E1, E2, E3. reflexivity. }
    assert (Htr : forall r c, (k < r)%nat -> (r <= c < n)%nat -> U' r c = U0 r c - (U0 k r / d) * (U0 k c / d)).
    { intros r c Hr Hc. rewrite G. unfold g. assert (E1 : Nat.eqb r k = false) by (apply Nat.eqb_neq; lia).
      assert (E2 : Nat.ltb k r = true) by (apply Nat.ltb_lt; lia).
      assert (E3 : Nat.leb r c = true) by (apply Nat.leb_le; lia).
      assert (E4 : Nat.ltb c n = true) by (apply Nat.ltb_lt; lia). rewrite E1, E2, E3, E4. reflexivity. }
    assert (Hunt : forall r c, (c < r \/ n <= c)%nat -> U' r c = U0 r c).
    { intros r c Hc. rewrite G. unfold g. destruct (Nat.eqb r k) eqn:E1.
      - apply Nat.eqb_eq in E1. subst r. assert (E2 : Nat.eqb c k = false) by (apply Nat.eqb_neq; lia). rewrite E2.
        destruct (Nat.ltb k c) eqn:E3; [|reflexivity]. destruct (Nat.ltb c n) eqn:E4; [|reflexivity].
        apply Nat.ltb_lt in E3. apply Nat.ltb_lt in E4. lia.
      - destruct (Nat.ltb k r) eqn:E2; [|reflexivity]. destruct (Nat.leb r c) eqn:E3; [|reflexivity].
        destruct (Nat.ltb c n) eqn:E4; [|reflexivity]. apply Nat.leb_le in E3. apply Nat.ltb_lt in E4. lia. }
    clear G. clearbody g.
    split; [|split].
    + intros r c Hr Hc. destruct (Nat.eq_dec r k) as [->|N].
      * rewrite sumr_S by lia.
        rewrite (sumr_ext 0 k _ (fun t => U0 t k * U0 t c)) by (intros t Ht; rewrite !Hrow by lia; reflexivity).
        rewrite Hkk. destruct (Nat.eq_dec c k) as [->|Nc].
        -- rewrite Hkk, Hd. rewrite (I2 k k) by lia. ring.
        -- rewrite Hkc by lia. rewrite (I2 k c) by lia. field. apply Hd0. lia.
      * rewrite (sumr_ext 0 (S r) _ (fun t => U0 t r * U0 t c)) by (intros t Ht; rewrite !Hrow by lia; reflexivity).
        apply I1; lia.
    + intros r c Hr Hc. rewrite sumr_S by lia.
      rewrite (sumr_ext 0 k _ (fun t => U0 t r * U0 t c)) by (intros t Ht; rewrite !Hrow by lia; reflexivity).
      rewrite Htr by lia. rewrite (Hkc r) by lia. rewrite (Hkc c) by lia. rewrite (I2 r c) by lia. ring.
    + intros r c Hc. rewrite Hunt by exact Hc. apply I3. exact Hc.
Qed.

(* ---- statements in the form "the factor reproduces the stored triangle" ---- *)
Theorem potrf_lower_correct : forall n M L, sqrt_exact_lower n n M -> potrf_lower A F n n M = POk A L ->
  (forall i c, (c <= i < n)%nat -> sumr 0 (S c) (fun t => L i t * L c t) = M i c) /\
  (forall c, (c < n)%nat -> L c c <> 0) /\
  (forall i c, (i < c)%nat -> L i c = M i c).
Proof.
  intros n M L Hsq H. apply potrf_lower_inv in H; [|lia|exact Hsq]. destruct H as [H1 [H2 H3]].
  split; [intros; apply H1; lia|]. split; [exact H3|]. intros; apply H2; lia.
Qed.
Theorem potrf_upper_correct : forall n M U, sqrt_exact_upper n n M -> potrf_upper A F n n M = POk A U ->
  (forall r c, (r <= c < n)%nat -> sumr 0 (S r) (fun t => U t r * U t c) = M r c) /\
  (forall r c, (c < r)%nat -> U r c = M r c).
Proof.
  intros n M U Hsq H. apply potrf_upper_inv in H; [|lia|exact Hsq]. destruct H as [H1 [H2 H3]].
  split; [intros; apply H1; lia|]. intros; apply H3; lia.
Qed.
(* a rejected pivot is reported with its 1-based index and is non-positive (lower) / negative (upper) *)
Theorem potrf_lower_fail : forall n k M j L, potrf_lower A F n k M = PFail A j L ->
  (0 < j <= k)%nat /\ potrf_lower A F n (j - 1) M = POk A L /\ fleb F (pivot_lower (j - 1) L) 0 = true.
Proof.
  intros n k M. induction k; intros j L H; cbn [potrf_lower] in H; [discriminate|].
  destruct (potrf_lower A F n k M) as [L0|j0 L0|] eqn:E; try discriminate.
  - unfold potrf_lower_col in H. fold (pivot_lower k L0) in H.
    destruct (fleb F (pivot_lower k L0) 0) eqn:Es; [|discriminate]. inversion H; subst.
    replace (S k - 1)%nat with k by lia. split; [lia|]. split; assumption.
  - inversion H; subst. destruct (IHk j L eq_refl) as [H1 [H2 H3]]. split; [lia|]. split; assumption.
Qed.

(* ================= Cholesky solve = two triangular solves ============ *)
Definition symm_of_lower (M : mat) : mat := fun i j => if Nat.leb j i then M i j else M j i.

Lemma tri_lower_val : forall L i t, (t <= i)%nat -> tri false false L i t = L i t.
Proof.
  intros L i t H. unfold tri, dg. destruct (Nat.eqb i t) eqn:E.
  - apply Nat.eqb_eq in E. subst. reflexivity.
  - apply Nat.eqb_neq in E. assert (E2 : Nat.ltb t i = true) by (apply Nat.ltb_lt; lia). rewrite E2. reflexivity.
Qed.
Lemma tri_lower_zero : forall L i t, (i < t)%nat -> tri false false L i t = 0.
Proof.
  intros L i t H. unfold tri. assert (E : Nat.eqb i t = false) by (apply Nat.eqb_neq; lia).
  assert (E2 : Nat.ltb t i = false) by (apply Nat.ltb_ge; lia). rewrite E, E2. reflexivity.
Qed.
Lemma LLt_entry : forall n M L,
  (forall i c, (c <= i < n)%nat -> sumr 0 (S c) (fun t => L i t * L c t) = M i c) ->
  forall i j, (i < n)%nat -> (j < n)%nat ->
  sumr 0 n (fun t => tri false false L i t * tri false false L j t) = symm_of_lower M i j.
Proof.
  intros n M L H i j Hi Hj. unfold symm_of_lower. destruct (Nat.leb j i) eqn:E.
  - apply Nat.leb_le in E. rewrite (sumr_split 0 (S j) n) by lia.
    rewrite (sumr_zero (S j) n) by (intros t Ht; rewrite (tri_lower_zero L j t) by lia; ring).
    rewrite (sumr_ext 0 (S j) _ (fun t => L i t * L j t)).
    2:{ intros t Ht. rewrite !tri_lower_val by lia. reflexivity. }
    rewrite H by lia. ring.
  - apply Nat.leb_gt in E. rewrite (sumr_split 0 (S i) n) by lia.
    rewrite (sumr_zero (S i) n) by (intros t Ht; rewrite (tri_lower_zero L i t) by lia; ring).
    rewrite (sumr_ext 0 (S i) _ (fun t => L j t * L i t)).
    2:{ intros t Ht. rewrite !tri_lower_val by lia. ring. }
    rewrite H by lia. ring.
Qed.

Theorem cholesky_solve_with_correct : forall o n M L b x,
  (forall i c, (c <= i < n)%nat -> sumr 0 (S c) (fun t => L i t * L c t) = M i c) ->
  chol_solve_with A F o L n b = Some x ->
  forall i, (i < n)%nat -> mv n (symm_of_lower M) x i = b i.
Proof.
  intros o n M L b x HL H i Hi. unfold chol_solve_with in H.
  destruct (trsv_left A F false false o L n b) as [y|] eqn:E1; [|discriminate].
  pose proof (trsv_left_correct _ _ _ _ _ _ _ E1) as Y.
  pose proof (trsv_left_correct _ _ _ _ _ _ _ H) as X.
  unfold mv in *.
  rewrite (sumr_ext 0 n _ (fun j => sumr 0 n (fun t => tri false false L i t * (tri false false L j t * x j)))).
  2:{ intros j Hj. rewrite <- (LLt_entry n M L HL i j) by lia. rewrite <- sumr_mul_r. apply sumr_ext. intros; ring. }
  rewrite sumr_swap.
  rewrite (sumr_ext 0 n _ (fun t => tri false false L i t * y t)).
  2:{ intros t Ht. rewrite sumr_mul_l. f_equal. rewrite <- (X t) by lia. apply sumr_ext. intros j Hj.
      change true with (negb false). rewrite tri_transp. reflexivity. }
  apply Y. exact Hi.
Qed.

Theorem cholesky_solve_total : forall o n L b, (forall c, (c < n)%nat -> L c c <> 0) ->
  exists x, chol_solve_with A F o L n b = Some x.
Proof.
  intros o n L b HL. unfold chol_solve_with.
  destruct (trsv_left_total false false o L n b) as [y Ey]; [right; intros; apply HL; lia|].
  rewrite Ey. apply trsv_left_total. right. intros i Hi. unfold transp. apply HL. lia.
Qed.

(* potrf (row-major storage, lower) followed by the two solves: A x = b for the symmetric matrix whose lower
   triangle is stored *)
Theorem cholesky_solve_correct : forall n M b x, sqrt_exact_lower n n M ->
  chol_solve A F RowMajor M n b = Some x -> forall i, (i < n)%nat -> mv n (symm_of_lower M) x i = b i.
Proof.
  intros n M b x Hsq H i Hi. unfold chol_solve, potrf in H.
  destruct (potrf_lower A F n n M) as [L| |] eqn:E; try discriminate.
  destruct (potrf_lower_correct n M L Hsq E) as [H1 _].
  eapply cholesky_solve_with_correct; eauto.
Qed.
Theorem cholesky_solve_succeeds : forall n M L b, sqrt_exact_lower n n M -> potrf_lower A F n n M = POk A L ->
  exists x, chol_solve A F RowMajor M n b = Some x.
Proof.
  intros n M L b Hsq E. unfold chol_solve, potrf. rewrite E.
  destruct (potrf_lower_correct n M L Hsq E) as [_ [H2 _]]. apply cholesky_solve_total. exact H2.
Qed.

(* ================= uniqueness and  inv(A) % b = solve(A,b) ============ *)
Lemma tri_lower_unique : forall n unit T z, diag_ok unit T 0 n ->
  (forall i, (i < n)%nat -> mv n (tri false unit T) z i = 0) -> forall i, (i < n)%nat -> z i = 0.
Proof.
  intros n unit T z D H. 
  assert (Hd : forall i, (i < n)%nat -> dg unit T i <> 0).
  { intros i Hi. unfold dg. destruct D as [->|D]; [|destruct unit; [|apply D; lia]].
    - intros Z. apply (F_1_neq_0 Fth). exact Z.
    - intros Z. apply (F_1_neq_0 Fth). exact Z. }
  intros i. induction i as [i IH] using lt_wf_ind. intros Hi.
  pose proof (H i Hi) as E. rewrite mv_lower in E by exact Hi.
  rewrite (sumr_zero 0 i) in E by (intros j Hj; rewrite IH by lia; ring).
  assert (E2 : dg unit T i * z i = 0) by (rewrite <- E; ring).
  assert (Z : z i = (dg unit T i * z i) / dg unit T i) by (field; apply Hd; exact Hi).
  rewrite Z, E2. field. apply Hd; exact Hi.
Qed.

(* prod(inv(T), v) where inv(T) is the solution operator X (T X = I, columns x_k): the product X v solves
   T y = v, i.e. it IS what the rewritten expression solve(T,v) computes (lower triangular case). *)
Theorem inv_prod_is_solve_lower : forall n unit T (X : nat -> vec) v y, diag_ok unit T 0 n ->
  (forall k i, (k < n)%nat -> (i < n)%nat -> mv n (tri false unit T) (X k) i = unit_vec A F k i) ->
  (forall i, (i < n)%nat -> mv n (tri false unit T) y i = v i) ->
  forall i, (i < n)%nat -> sumr 0 n (fun k => X k i * v k) = y i.
Proof.
  intros n unit T X v y D HX Hy.
  set (z := fun i => sumr 0 n (fun k => X k i * v k) - y i).
  assert (Hz : forall i, (i < n)%nat -> z i = 0).
  { apply (tri_lower_unique n unit T z D). intros i Hi. unfold mv, z.
    rewrite (sumr_ext 0 n _ (fun j => sumr 0 n (fun k => (tri false unit T i j * X k j) * v k) + - (tri false unit T i j * y j))).
    2:{ intros j Hj. rewrite (sumr_ext 0 n (fun k => tri false unit T i j * X k j * v k) (fun k => tri false unit T i j * (X k j * v k))) by (intros; ring).
      rewrite sumr_mul_l. ring. }
    rewrite sumr_add. rewrite sumr_swap.
    rewrite (sumr_ext 0 n (fun j => sumr 0 n (fun i0 => tri false unit T i i0 * X j i0 * v j)) (fun k => unit_vec A F k i * v k)).
    2:{ intros k Hk. rewrite sumr_mul_r. f_equal. apply (HX k i); lia. }
    rewrite (sumr_ext 0 n (fun j => - (tri false unit T i j * y j)) (fun j => (- (1)) * (tri false unit T i j * y j))) by (intros; ring).
    rewrite sumr_mul_l. pose proof (Hy i Hi) as Y. unfold mv in Y. rewrite Y.
    (* sum_k e_k(i) v_k = v_i *)
    rewrite (sumr_split 0 i n) by lia. rewrite (sumr_first i n) by lia.
    rewrite (sumr_zero 0 i).
    2:{ intros k Hk. unfold unit_vec. assert (E : Nat.eqb i k = false) by (apply Nat.eqb_neq; lia). rewrite E. ring. }
    rewrite (sumr_zero (S i) n).
    2:{ intros k Hk. unfold unit_vec. assert (E : Nat.eqb i k = false) by (apply Nat.eqb_neq; lia). rewrite E. ring. }
    unfold unit_vec. rewrite Nat.eqb_refl. ring. }
  intros i Hi. pose proof (Hz i Hi) as Z. unfold z in Z.
  assert (E : sumr 0 n (fun k => X k i * v k) = (sumr 0 n (fun k => X k i * v k) - y i) + y i) by ring.
  rewrite E, Z. ring.
Qed.

End Proofs.
