(* C17 — executable model of the kd-tree cell bound and of shark::IterativeNNQuery (BinaryTree.h,
   KDTree.h, TreeNearestNeighbors.h).  Definitions only; proofs are in C17Proofs.v.

   Points are lists of Z, distances are squared Euclidean distances in Z.  (The correspondence run
   feeds doubled coordinates so that the half-integer thresholds of BinaryTree::splitList are
   integers.)  The tree is an arbitrary binary space-partitioning tree with axis-parallel cuts; the
   query model runs on the real tree built by KDTree::buildTree, read back from the harness.  The
   construction itself is modelled in C17Build.v (std::nth_element as an oracle) and proved to yield
   trees that satisfy the well-formedness hypothesis of the query theorems (C17BuildProofs.v). *)
From Coq Require Import List ZArith Bool Arith.
Import ListNotations.
Open Scope Z_scope.

Definition point := list Z.
Definition coord (p : point) (d : nat) : Z := nth d p 0.

(* sum over the dimensions of the reference point q, as distanceSqr(data[i], ref) *)
Fixpoint dist2_from (p q : point) (d : nat) : Z :=
  match q with
  | [] => 0
  | v :: q' => (coord p d - v) * (coord p d - v) + dist2_from p q' (S d)
  end.
Definition dist2 (p q : point) : Z := dist2_from p q 0.

(* KDTree: inner node = cut dimension + threshold; leaf = index list *)
Inductive tree :=
| Leaf (idx : list nat)
| Node (cd : nat) (thr : Z) (l r : tree).

(* a cell is described by the path to the root, nearest ancestor first:
   (cut dimension, threshold, true iff the node below is the RIGHT child) *)
Definition pstep := (nat * Z * bool)%type.

(* KDTree::lower(dim) / upper(dim): walk up the parents; None stands for -1e100 / +1e100 *)
Fixpoint lower (path : list pstep) (d : nat) : option Z :=
  match path with
  | [] => None
  | (cd, t, isr) :: rest => if Nat.eqb cd d && isr then Some t else lower rest d
  end.
Fixpoint upper (path : list pstep) (d : nat) : option Z :=
  match path with
  | [] => None
  | (cd, t, isr) :: rest => if Nat.eqb cd d && negb isr then Some t else upper rest d
  end.

(* one term of KDTree::squaredDistanceLowerBound: if (v < l) sqr(l-v) else if (v > u) sqr(v-u) *)
Definition lb_dim (v : Z) (l u : option Z) : Z :=
  match l with
  | Some lo => if v <? lo then (lo - v) * (lo - v) else
      match u with Some up => if up <? v then (v - up) * (v - up) else 0 | None => 0 end
  | None =>
      match u with Some up => if up <? v then (v - up) * (v - up) else 0 | None => 0 end
  end.

Fixpoint lb_from (path : list pstep) (q : point) (d : nat) : Z :=
  match q with
  | [] => 0
  | v :: q' => lb_dim v (lower path d) (upper path d) + lb_from path q' (S d)
  end.
Definition lbound (path : list pstep) (q : point) : Z := lb_from path q 0.

(* ---------------------------------------------------------------------------------------- *)
(* trace tree of IterativeNNQuery.  TraceNode/TraceLeaf are created lazily in the C++; their
   fields (m_squaredDistance, m_squaredPtDistance, isLeft(reference)) are pure functions of the
   tree node and the reference point, so the model materialises them up front. *)
Inductive status := NONE | PARTIAL | COMPLETE.

Inductive ttree :=
| TLeaf (queued : bool) (lb pd : Z) (idx : list nat)      (* pd = squared distance of index(0) *)
| TNode (st : status) (lb : Z) (gl : bool) (l r : ttree). (* gl = tree->isLeft(reference) *)

Fixpoint mk_trace (data : list point) (q : point) (path : list pstep) (t : tree) : ttree :=
  match t with
  | Leaf idx => TLeaf false (lbound path q) (dist2 (nth (hd 0%nat idx) data []) q) idx
  | Node cd thr l r =>
      TNode NONE (lbound path q) (coord q cd <? thr)
            (mk_trace data q ((cd, thr, false) :: path) l)
            (mk_trace data q ((cd, thr, true) :: path) r)
  end.

Definition tstatus (t : ttree) : status :=
  match t with
  | TLeaf qd _ _ _ => if qd then COMPLETE else NONE
  | TNode st _ _ _ _ => st
  end.

Definition is_complete (s : status) : bool := match s with COMPLETE => true | _ => false end.

(* did the child turn COMPLETE in this step?  (then insertIntoQueue's upward walk reaches the parent) *)
Definition completed (c c' : ttree) : bool :=
  negb (is_complete (tstatus c)) && is_complete (tstatus c').

(* insertIntoQueue, the step of the upward walk at a parent with status st whose child just became
   COMPLETE and whose other child has status sib *)
Definition arrive (st : status) (cmpl : bool) (sib : status) : status :=
  if cmpl then
    match st with
    | NONE => PARTIAL
    | PARTIAL => if is_complete sib then COMPLETE else PARTIAL
    | COMPLETE => COMPLETE
    end
  else st.

(* candidate queue: leaves ordered by squared point distance (ties: the C++ compares node
   addresses; the model inserts behind equal keys) *)
Definition qelem := (Z * list nat)%type.
Fixpoint qinsert (e : qelem) (q : list qelem) : list qelem :=
  match q with
  | [] => [e]
  | h :: t => if fst e <? fst h then e :: q else h :: qinsert e t
  end.

(* !m_queue.empty() && tn->m_squaredDistance >= head.m_squaredPtDistance *)
Definition pruned (q : list qelem) (lb : Z) : bool :=
  match q with
  | [] => false
  | (pd, _) :: _ => pd <=? lb
  end.

(* IterativeNNQuery::enqueue(tn) including the status updates of insertIntoQueue inside tn *)
Fixpoint enqueue (t : ttree) (q : list qelem) : ttree * list qelem :=
  match t with
  | TLeaf qd lb pd idx =>
      if qd then (t, q) else if pruned q lb then (t, q)
      else (TLeaf true lb pd idx, qinsert (pd, idx) q)
  | TNode st lb gl l r =>
      if is_complete st then (t, q) else if pruned q lb then (t, q)
      else
        (* first descend into the closer sub-tree: a = first, b = second child *)
        let a := if gl then l else r in
        let b := if gl then r else l in
        let '(a', q1) := enqueue a q in
        let st1 := arrive st (completed a a') (tstatus b) in
        let '(b', q2) := enqueue b q1 in
        let st2 := arrive st1 (completed b b') (tstatus a') in
        (TNode st2 lb gl (if gl then a' else b') (if gl then b' else a'), q2)
  end.

(* TraceNode::squaredRadius; None = 1e100 *)
Definition omin (a b : option Z) : option Z :=
  match a, b with
  | Some x, Some y => Some (Z.min x y)
  | Some x, None => Some x
  | None, y => y
  end.
Fixpoint sqradius (t : ttree) : option Z :=
  match t with
  | TLeaf qd lb _ _ => if qd then None else Some lb
  | TNode st lb _ l r =>
      match st with
      | NONE => Some lb
      | PARTIAL => omin (sqradius l) (sqradius r)
      | COMPLETE => None
      end
  end.

(* constructor: descend to the leaf covering the reference point and queue it.
   returns trace, queue, depth of that leaf *)
Fixpoint init_tr (t : ttree) : ttree * list qelem * nat :=
  match t with
  | TLeaf _ lb pd idx => (TLeaf true lb pd idx, [(pd, idx)], O)
  | TNode st lb gl l r =>
      if gl then
        let '(l', q, dep) := init_tr l in
        (TNode (arrive st (completed l l') (tstatus r)) lb gl l' r, q, S dep)
      else
        let '(r', q, dep) := init_tr r in
        (TNode (arrive st (completed r r') (tstatus l)) lb gl l r', q, S dep)
  end.

(* "enqueue more points": tn = mep_head; while (tn) { enqueue(tn); if COMPLETE head = parent; tn = parent }
   hc = number of nodes on the reference path from this node down to mep_head (0: mep_head is above);
   dep = depth of this node.  Returns trace, queue and the new head count (mep_head = node at depth
   count-1 of the reference path, count 0 = NULL). *)
Fixpoint phase (dep hc : nat) (t : ttree) (q : list qelem) : ttree * list qelem * nat :=
  match hc with
  | O => (t, q, dep)
  | S hc' =>
      let '(t1, q1, hb) :=
        match t with
        | TLeaf _ _ _ _ => (t, q, S dep)
        | TNode st lb gl l r =>
            if gl then
              let '(l', q', hb) := phase (S dep) hc' l q in
              (TNode (arrive st (completed l l') (tstatus r)) lb gl l' r, q', hb)
            else
              let '(r', q', hb) := phase (S dep) hc' r q in
              (TNode (arrive st (completed r r') (tstatus l)) lb gl l r', q', hb)
        end in
      let '(t2, q2) := enqueue t1 q1 in
      (t2, q2, if is_complete (tstatus t2) then dep else hb)
  end.

Record state := mkstate {
  tt : ttree;            (* mp_trace *)
  queue : list qelem;    (* m_queue *)
  nidx : nat;            (* m_nextIndex *)
  nnb : nat;             (* m_neighbors *)
  hcnt : nat;            (* mep_head as a count, see phase *)
  rad : option Z         (* m_squaredRadius *)
}.

Definition init (t : ttree) : state :=
  let '(t', q, dep) := init_tr t in
  mkstate t' q 0 0 dep (sqradius t').

(* m_queue.empty() || head.m_squaredPtDistance > m_squaredRadius *)
Definition need_more (q : list qelem) (r : option Z) : bool :=
  match q with
  | [] => true
  | (pd, _) :: _ => match r with Some rv => rv <? pd | None => false end
  end.

Definition next_cont (s : state) (qu : list qelem) : option ((Z * nat) * state) :=
  let '(t', q', h', r') :=
    if need_more qu (rad s) then
      let '(t', q', h') := phase 0 (hcnt s) (tt s) qu in (t', q', h', sqradius t')
    else (tt s, qu, hcnt s, rad s) in
  match q' with
  | (pd, i :: _) :: _ => Some ((pd, i), mkstate t' q' 1 (S (nnb s)) h' r')
  | _ => None                                 (* begin() of an empty queue: undefined in the C++ *)
  end.

(* IterativeNNQuery::next() *)
Definition next (s : state) : option ((Z * nat) * state) :=
  if (0 <? nnb s)%nat then
    match queue s with
    | [] => None
    | (pd, idx) :: rest =>
        match nth_error idx (nidx s) with
        | Some i => Some ((pd, i), mkstate (tt s) (queue s) (S (nidx s)) (nnb s) (hcnt s) (rad s))
        | None => next_cont s rest
        end
    end
  else next_cont s (queue s).

(* k calls of next(); each result with the observable queue size and radius after the call *)
Fixpoint run (k : nat) (s : state) : list (Z * nat * nat * option Z) :=
  match k with
  | O => []
  | S k' =>
      match next s with
      | None => []
      | Some ((d, i), s') => (d, i, length (queue s'), rad s') :: run k' s'
      end
  end.

Fixpoint results (k : nat) (s : state) : list (Z * nat) :=
  match k with
  | O => []
  | S k' => match next s with None => [] | Some (r, s') => r :: results k' s' end
  end.

Definition query_trace (data : list point) (t : tree) (q : point) (k : nat) :=
  run k (init (mk_trace data q [] t)).
(* TreeNearestNeighbors::getNeighbors for one pattern (squared distances) *)
Definition query (data : list point) (t : tree) (q : point) (k : nat) : list (Z * nat) :=
  results k (init (mk_trace data q [] t)).

(* ---------------------------------------------------------------------------------------- *)
(* executable well-formedness check of a tree against the data (used on the real tree) *)
Fixpoint tindices (t : tree) : list nat :=
  match t with Leaf idx => idx | Node _ _ l r => tindices l ++ tindices r end.

Definition pt (data : list point) (i : nat) : point := nth i data [].

Fixpoint list_eqb (a b : list Z) : bool :=
  match a, b with
  | [], [] => true
  | x :: a', y :: b' => (x =? y) && list_eqb a' b'
  | _, _ => false
  end.

(* left points <= threshold <= right points on the cut coordinate; leaves hold copies of one point *)
Fixpoint wf_treeb (data : list point) (t : tree) : bool :=
  match t with
  | Leaf idx =>
      match idx with
      | [] => false
      | i :: rest => forallb (fun j => list_eqb (pt data j) (pt data i)) rest
      end
  | Node cd thr l r =>
      forallb (fun i => coord (pt data i) cd <=? thr) (tindices l) &&
      forallb (fun i => thr <=? coord (pt data i) cd) (tindices r) &&
      wf_treeb data l && wf_treeb data r
  end.
