(* Extraction of the C06 model: ExtrOcamlBasic only, no Extract Constant.  Q/Z/positive/nat stay Coq
   datatypes (converted in the driver); the cross-entropy section is instantiated with OCaml floats by
   passing the float operations as ordinary arguments. *)
Require Import ExtrOcamlBasic.
From Coq Require Import QArith.
From SharkV Require Import ListAux C03Model C06Model C06ExtModel C06Ctx.
Extraction "c06_model.ml" Qred qsqrt thread_ranges one_eval one_grad two_eval two_grad add_reg add_reg_eval
  loss_eval loss_evald abs_eval zo_eval zov_eval disc_eval data_mean lin_bq lin_bq_eval minibatch
  ef_eval ef_evald wef_eval wef_evald ce_eval ce_evald
  ce_batch_eval ce_batch_evald cev_eval cev_evald huberA_eval huberA_evald absA_eval zow_eval
  net2_ef_eval net2_ef_evald net2_bq_eval
  nauc_eval nauc_eval_vec seq_eval seq_evald nll_eval nll_evald
  ef_ctx_eval ef_ctx_evald net2_ef_ctx_eval net2_ef_ctx_evald nested_order.
