(* Extraction of the C18 text/binary vector-stream model: ExtrOcamlBasic only, no Extract Constant. *)
Require Import ExtrOcamlBasic.
From SharkV Require Import C18Text.
Extraction "c18_model.ml" text_save_vec text_save_vecs text_load_vec text_dec_count text_dec text_enc text_enc_count
  save_vec save_vecs load_vec load_vecs load_vec_early_return bin_enc_count bin_dec_count render lex print_count parse_count.
