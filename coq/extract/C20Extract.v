(* Extraction of the C20 models: ExtrOcamlBasic only, no Extract Constant.
   split_sites / slice_sites come from coq/gen/C20SplitDefs.v, regenerated from the C++ source on every run. *)
Require Import ExtrOcamlBasic.
From SharkV Require Import C20Model C20SplitModel C20RcModel.
From SharkGen Require Import C20SplitDefs.
Extraction "c20_model.ml" split_sites slice_sites site_ranges site_tiles_b slice_cells slice_tiles_b
  rc_init rc_step d_init d_trace all_ranges.
