(* Extraction of the C16 model: ExtrOcamlBasic only, no Extract Constant.  The arithmetic record
   `ops` (C08Model) and the constants -DBL_MAX, 1e-14, 1e-6 are supplied by the OCaml driver from OCaml's
   float operations.  C16State: the state model of QpMcBoxDecomp / QpMcSimplexDecomp (gradient, variable and
   example tables, shrinking).  C16Linear: one coordinate step of the linear solvers QpMcLinear* / one epoch of QpBoxLinear. *)
Require Import ExtrOcamlBasic.
From SharkV Require Import C08Model C16Model C16State C16Linear C16Select C16Bias.
Extraction "c16_model.ml" solve_edge solve_2d solve_tri max_gain_2d max_gain_line sa_lookup sa_scan
  simplex_step box_step
  box_smo simplex_smo unshrink box_shrink simplex_shrink add_delta_linear init_state deact_var deact_ex sdeact_var mstep
  lin_step boxlin_epoch
  box_select simplex_select old_simplex_select kkt mc_solve_steps bias_update.
