(* Extraction of the C16 model: ExtrOcamlBasic only, no Extract Constant.  The arithmetic record
   `ops` (C08Model) and the constants -DBL_MAX, 1e-14, 1e-6 are supplied by the OCaml driver from OCaml's
   float operations. *)
Require Import ExtrOcamlBasic.
From SharkV Require Import C08Model C16Model.
Extraction "c16_model.ml" solve_edge solve_2d solve_tri max_gain_2d max_gain_line sa_lookup sa_scan
  simplex_step box_step.
