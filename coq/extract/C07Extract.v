(* Extraction of the C07 models: ExtrOcamlBasic only, no Extract Constant.  The arithmetic record
   `ops` (C08Model) is built by the OCaml driver from OCaml's float operations for the assembly
   model; the certified checker runs on Coq's own Q / Z / positive datatypes. *)
Require Import ExtrOcamlBasic.
From SharkV Require Import C08Model C08Defs C07Setup C07Cert.
Extraction "c07_model.ml" reg_decode reg_Cn reg_Cp csvm_problem csvmw_problem svr_problem svr_coef
  oc_problem bidx block2 qops certify cert_code cert_kkt cert_mult gram certify_qp.
