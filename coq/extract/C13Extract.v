(* Extraction of the C13 model: ExtrOcamlBasic only, no Extract Constant. *)
Require Import ExtrOcamlBasic.
From SharkV Require Import ListAux C13Model C13Wfg C13Sweep3d C13Hssp C13Disp C13Dc C13ContribMd C13Contrib3d C13ContribNoref C13Hoy.
Extraction "c13_model.ml" dominance domb rank_list fast_nds hv_spec hv2d contrib2d_ref contrib2d_noref
  smallest_k largest_k contribs_spec best_subset_hv front_size sort_z
  wfg wfg_limit hv3d hssp2d pick hv_dispatch
  dc_nds nds_front
  contribs_md_inst smallest_kv largest_kv contribs3d
  contribs_front contrib_front_smallest contrib_front_largest noref_front implicit_ref
  hoy hoy_stream hoy_stream_trace hoy_stream_bounds median compute_trellis.
