(* Extraction of the composed models (CachedMatrix / PrecomputedMatrix over the operation records of all
   base matrices) and of the Difference / Gaussian / PartlyPrecomputed models: ExtrOcamlBasic only. *)
Require Import ExtrOcamlBasic.
From SharkV Require Import ListAux C09Derived C09Comp C09More.
Extraction "c09c_model.ml" ginit gstep gwf_op gcm_row_const gline glinelen gcm_entry gcm_cached_lines cperm
  pm_init pm_flip pm_flips pm_entry pm_row pm_size pm_max_cache_size bflips
  dinit dflip kernel_ops reg_ops mod_ops exmod_ops blk_ops blk_init
  dk_ops dk_init batch_sizes split_batches lin gk_ops gk_init
  pp_init pp_entry pp_row pp_is_cached pp_max_cache_size.
