Require Import ExtrOcamlBasic.
From SharkV Require Import ListAux C09Derived.
Extraction "c09d_model.ml" dinit dflip e_kernel e_reg e_mod e_ex d_row m_flip m_entry m_of p.
