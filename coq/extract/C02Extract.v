(* Extraction of the C02 model: ExtrOcamlBasic only, no Extract Constant. *)
Require Import ExtrOcamlBasic.
From Coq Require Import QArith Qcanon.
From SharkV Require Import C02Model C02BlkModel C02Q C02PstrfModel C02SemiModel C02UpdModel C02LUMatModel C02RlModel C02CgModel C02SyevModel.
Extraction "c02_model.ml" qc_ops qc_make qc_num qc_den trsv trsm potrf chol_solve_with chol_solve_m inv_tri unit_vec tab
  qc_abs potrf_blocked getrf lu_solve lu_solve_right lu_solve_full tabp
  pstrf pstrf_full semi_decompose semi_solve_with semi_solve chol_update lu_solve_m potrf_blocked2 cg_vec cg_solve_v cg_col tred2 syev.
