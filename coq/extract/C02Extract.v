(* Extraction of the C02 model: ExtrOcamlBasic only, no Extract Constant. *)
Require Import ExtrOcamlBasic.
From Coq Require Import QArith Qcanon.
From SharkV Require Import C02Model C02BlkModel C02Q.
Extraction "c02_model.ml" qc_ops qc_make qc_num qc_den trsv trsm potrf chol_solve_with chol_solve_m inv_tri unit_vec tab
  qc_abs potrf_blocked getrf lu_solve lu_solve_right lu_solve_full tabp.
