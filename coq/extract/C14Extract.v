(* Extraction of the C14 model: ExtrOcamlBasic only, no Extract Constant. *)
Require Import ExtrOcamlBasic.
From SharkV Require Import ListAux C13Model C14Model.
Extraction "c14_model.ml" indicator_selection select_with_ranks least_contributors hv_lc ss_step
  contribs_spec hv_spec rank_list penalized_eval box_feasible box_closest count_true.
