(* Extraction of the C14 model: ExtrOcamlBasic only, no Extract Constant. *)
Require Import ExtrOcamlBasic.
From SharkV Require Import ListAux C13Model C14Model C14Ind C14Nsga3 C14Var C14Loop C14Init.
Extraction "c14_model.ml" indicator_selection select_with_ranks least_contributors hv_lc ss_step
  contribs_spec hv_spec rank_list penalized_eval box_feasible box_closest count_true
  eps_lcs eps_result hv_ind_lcs hv_ind_lc cd_lcs cd_lc cd_distances cd_isort min_element least_contributors_g
  nsga3_lcs n3_unit n3_corners n3_translate n3_normalizer n3_normalize n3_pairing
  sbx pm tournament elitist pos_isort
  gen_update ss_update gen_step run_gen run_ss solution
  init_parents init_solution mocma_init nsga2_init nsga3_init smsemoa_init moead_init ssmocma_init rvea_init rvea_mu
  ss_sort oracle_ok init_indices.
