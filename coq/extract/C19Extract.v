(* Extraction of the C19 model: ExtrOcamlBasic only, no Extract Constant. *)
Require Import ExtrOcamlBasic.
From Coq Require Import NArith.
From SharkV Require Import ListAux C03Model C19Model C19BigBatch C19Lines.
Extraction "c19_model.ml" csv_import_data csv_import_reg csv_import_cls csv_import_ints csv_import_uints
  csv_import_reals svm_import_cls svm_import_reg svm_import_cls_coded svm_import_reg_coded
  lex_double export_data export_cls export_reg export_svm_cls export_svm_reg class_count ds_elems
  csv_import_data_into csv_import_reg_into csv_import_cls_into csv_import_ints_into csv_import_uints_into
  csv_import_reals_into svm_import_cls_into svm_import_reg_into svm_import_cls_coded_N svm_import_reg_coded_N
  opt_sizes64 opt_sizes64_idiom init_sizes64 N.add N.mul N.compare crlf.
