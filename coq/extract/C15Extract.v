(* Extraction of the C15 model: ExtrOcamlBasic only, no Extract Constant.  Rationals are Coq's Q over the
   binary Z / positive datatypes; the OCaml driver converts from / to binary strings. *)
Require Import ExtrOcamlBasic.
From Coq Require Import QArith.
From Coq Require Import Qcanon.
From SharkV Require Import C03Model C15Model C15PcaModel C15ZcaModel C02Model C02Q C02PstrfModel C02SemiModel C15SolveModel.
Extraction "c15_model.ml" chunk Qred Qeq_bool Qle_bool Qplus Qmult Qminus Qopp Qdiv
  mean var cov fmin fmax uv_params ui_params affine feat
  lr_grad lr_residual lin center_off gram eig_residual
  lda_prior lda_mean lda_cov lda_count lda_mean_u lda_cov_u lda_residual lda_bias_part
  pca_setdata pca_mean pca_m pca_encoder pca_decoder pca_wh_met
  qc_ops qc_make qc_num qc_den qc_abs Q2Qc lrc_train lrc_halfgrad lrc_A lrc_T ldac_train ldaw_train ldaw_met semi_decompose
  ldac_mean ldac_cov ldac_num ldaw_mean ldaw_cov ldaw_cw ldaw_wsum fofnat zca_train.
