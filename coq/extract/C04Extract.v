(* Extraction of the C04 model: ExtrOcamlBasic only, no Extract Constant.  The carrier is abstract
   (Section variables of C04Model.v became ordinary function arguments); the driver passes OCaml floats. *)
Require Import ExtrOcamlBasic.
From SharkV Require Import C04Model.
Extraction "c04_model.ml" ew_act id_act normalizer_act softmax_act
  lin_eval lin_eval_batch lin_params lin_nparams lin_set lin_wpd lin_wid lin_wd
  net_eval net_eval_batch net_params net_nparams net_set net_back
  norm_eval norm_eval_batch norm_params norm_set classifier_eval classifier_eval_batch.
