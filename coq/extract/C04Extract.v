(* Extraction of the C04 model: ExtrOcamlBasic only, no Extract Constant.  The carrier is abstract
   (Section variables of C04Model.v became ordinary function arguments); the driver passes OCaml floats. *)
Require Import ExtrOcamlBasic.
From SharkV Require Import C04Model C04Conv C04Pool C04Het C04Misc C04Kexp.
Extraction "c04_model.ml" ew_act id_act normalizer_act softmax_act
  lin_eval lin_eval_batch lin_params lin_nparams lin_set lin_wpd lin_wid lin_wd
  net_eval net_eval_batch net_params net_nparams net_set net_back
  norm_eval norm_eval_batch norm_params norm_set classifier_eval classifier_eval_batch
  conv_nparams conv_set conv_params conv_eval conv_eval_batch conv_wpd conv_wid conv_wd
  pool_nout pool_eval pool_eval_batch pool_wid pool_amax resize_nout resize_eval resize_eval_batch resize_wid
  conv_pre_batch lin_pre_batch
  hnet_np hnet_params hnet_set hnet_features hnet_eval hnet_eval1 hnet_wid hnet_wd hnet_wpd
  neu_eval neu_eval1 neu_wid lin_kind neu_kind conv_kind pool_kind resize_kind norm_kind rbf_kind
  rbf_set_gamma rbf_nparams rbf_params rbf_set rbf_eval rbf_eval_batch rbf_wpd
  cmac_nparams cmac_eval cmac_eval_batch cmac_wpd ens_eval_batch ens_eval
  ke_nparams ke_params ke_set ke_eval_batch ke_eval kx_lin kx_poly.
