(* Extraction of the C11 model: ExtrOcamlBasic only, no Extract Constant. *)
Require Import ExtrOcamlBasic.
From SharkV Require Import C11Model.
Extraction "c11_model.ml" cma_update select recombine cov_update elitist_step elitist_run penalized_eval classify.
