(* Extraction of the C11 model: ExtrOcamlBasic only, no Extract Constant. *)
Require Import ExtrOcamlBasic.
From SharkV Require Import C11Model C11DirectModel.
Extraction "c11_model.ml" cma_update select recombine cov_update elitist_step elitist_run penalized_eval classify
  chol_update chol_loop fquad lmulz cmsa_cov cmsa_sigma cmsa_mean cmsa_update
  chrom_sigma chrom_round chrom_offspring chrom_parent active_rate ecma_chrom_step
  vd_first vd_second vd_D_update vd_v_update vd_cov vd_update vd_sample
  sd_init sd_step sd_run cem_noise_const cem_noise_linear cem_sample cem_update cem_select_update cem_step cem_run
  cma_offspring cma_step cma_run cmsa_offspring cmsa_step cmsa_run.
