(* Extraction of the C10 model: ExtrOcamlBasic only, no Extract Constant. *)
Require Import ExtrOcamlBasic.
From Coq Require Import QArith Qabs.
From SharkV Require Import C10Model C10LsModel C10Gen C10LbfgsModel C10AdamRprop C10TrustRegion.
Extraction "c10_model.ml" ls_init ls_step sd_init_model sd_dir cg_init_model cg_dir sd_init sd_step
  quad_f quad_grad box_feasb box_feasb_slack box_eps ls_save ls_restore cg_save_extra cg_restore_extra sd_save_full sd_restore_full
  ray linesearch ls_init_o ls_step_o bfgs_init_model bfgs_dir bfgs_save_extra bfgs_restore_extra Qdiv Coq.QArith.Qabs.Qabs Qle_bool
  lb_init_model lb_update_hist lb_mult_binv lb_mult_b lb_box_dir lbfgs_dir lbfgs_dir_box lb_save_extra lb_restore_extra dot Qopp
  g_update_hist g_mult_binv g_mult_b g_box_dir g_box_branch g_mask gvneg gdot QO qops
  g_adam_step g_rprop_step adam_step rprop_step g_adam_init g_rprop_init
  tr_border tr_cg tr_init tr_step_with tr_solve tr_step tr_step_info q099 q01 quad_fd Qeq_bool.
