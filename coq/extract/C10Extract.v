(* Extraction of the C10 model: ExtrOcamlBasic only, no Extract Constant. *)
Require Import ExtrOcamlBasic.
From SharkV Require Import C10Model.
Extraction "c10_model.ml" ls_init ls_step sd_init_model sd_dir cg_init_model cg_dir sd_init sd_step
  quad_f quad_grad box_feasb box_feasb_slack box_eps ls_save ls_restore cg_save_extra cg_restore_extra sd_save_full sd_restore_full.
