Require Import ExtrOcamlBasic.
From SharkV Require Import ListAux C03Model C12Model C12Folds C03Heap C03Weighted C12Loops.
Extraction "c03_model.ml" opt_sizes batch_partitioning create repartition split_batch splice append reorder
  indexed_subset complement split_at_element element it_deref it_incr it_decr it_advance transform
  repartition_by_class class_sizes elems nelems sizes
  cv_same_size cv_indexed cv_fully_indexed cv_balanced cv_batch validation training
  cv_iid cv_create req_valid req_k scv_create s_validation s_training
  valid_members valid_perm view_to_dataset binary_indices indexed_order
  binary_sub_problem view_of view_subset view_get vi_dataset_index to_dataset class_order class_order_loop repartition_by_class_loop
  step contents hnd init independent cv_indexed_shared fold_validation_shared fold_training_shared
  view_shared view_write
  uniform_weights sum_of_weights w_bootstrap class_weight
  scv_create_loop s_training_sd cv_create_loop training_sd complement_sd.
