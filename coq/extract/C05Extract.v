(* Extraction of the C05 model: ExtrOcamlBasic only, no Extract Constant.  The arithmetic is passed by the
   OCaml driver: Coq's own canonical rationals (Qcplus, ... extracted here) for exact runs, OCaml floats otherwise. *)
Require Import ExtrOcamlBasic.
From Coq Require Import QArith Qcanon.
From SharkV Require Import C03Model C05Model C05Expr C05Blocks C05Task C05Norm.
Extraction "c05_model.ml"
  Qcplus Qcmult Qcminus Qcdiv Qcopp qc_make qc_num qc_den qc_isz
  k_lin k_poly k_mono k_gauss k_ard k_disc k_scaled k_wsum k_prod k_norm k_pull k_sub k_pset feat_dist
  mk single_via_batch b_lin b_poly b_mono b_gauss b_ard b_disc b_scaled b_wsum b_prod b_norm b_pull b_sub
  gram_reg gram linmap
  g_lin g_poly g_mono g_gauss g_ard g_scaled g_wsum g_sub wid p_poly p_gauss wpd wsumk
  p_one p_none p_ard g_norm p_norm p_wsum p_sub p_model lm_pgrad wpdv
  den bden gram_mixed kmpd gt_matrix k_mtask
  norm_single norm_batch norm_doc norm_single_mat norm_rowdiv norm_outer norm_doc_mat k_norm_coded b_norm_nostate b_norm_state.
