(* Extraction of the C01 sparse storage / kernel model: ExtrOcamlBasic only, no Extract Constant. *)
Require Import ExtrOcamlBasic.
From SharkV Require Import C01SparseModel C01SparseMatModel C01SparseExpr C01BlockModel C01SparseExec.
Extraction "c01_sparse_model.ml" run_cmd st_empty getv getm v_ok m_ok sm_reserved sm_major.
