(* Extraction of the C01 model: ExtrOcamlBasic only, no Extract Constant.
   The rewrite table C01Opt.v (the functions the C01_opt_*_sound theorems are about) is extracted as well: the driver
   applies it to instances of every rule and tools/c01_rules.py compares the result with the rule bodies translated
   from detail/expression_optimizers.hpp. *)
Require Import ExtrOcamlBasic.
From SharkV Require Import C01Model C01Opt.
Extraction "c01_model.ml" exec stmt_ok seval vden mden rd empty_env vsize mrows mcols
  opt_vrange opt_mtrans opt_mrow opt_mdiag opt_mrange opt_mrows opt_vscale opt_mscale opt_mvprod opt_mmprod
  opt_vunary opt_munary opt_fold_set.
