(* Extraction of the C01 model: ExtrOcamlBasic only, no Extract Constant. *)
Require Import ExtrOcamlBasic.
From SharkV Require Import C01Model.
Extraction "c01_model.ml" exec stmt_ok seval vden mden rd empty_env vsize mrows mcols.
