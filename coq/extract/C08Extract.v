(* Extraction of the C08 model: ExtrOcamlBasic only, no Extract Constant.  The arithmetic record
   `ops` is built by the OCaml driver from OCaml's float operations. *)
Require Import ExtrOcamlBasic.
From SharkV Require Import C08Model.
Extraction "c08_model.ml" step check_kkt fval.
