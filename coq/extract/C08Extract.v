(* Extraction of the C08 model: ExtrOcamlBasic only, no Extract Constant.  The arithmetic record
   `ops` is built by the OCaml driver from OCaml's float operations. *)
Require Import ExtrOcamlBasic.
From SharkV Require Import C08Model C08Reshrink C08Mutators.
Extraction "c08_model.ml" step check_kkt fval reshrink_due reshrink reshrink_stale mstep.
