(* Extraction of the C17 model: ExtrOcamlBasic only, no Extract Constant. *)
Require Import ExtrOcamlBasic.
From SharkV Require Import C17Model C17Build.
Extraction "c17_model.ml" query_trace query wf_treeb tindices kd_build median_pos median_okb ksort.
