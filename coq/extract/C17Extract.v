(* Extraction of the C17 model: ExtrOcamlBasic only, no Extract Constant. *)
Require Import ExtrOcamlBasic.
From SharkV Require Import C17Model C17Build C17Field C17Gen C17Proj C17ProjBuild C17Vote.
Extraction "c17_model.ml" query_trace query wf_treeb tindices kd_build median_pos median_okb ksort
  qc_fops qc_make qc_num qc_den
  lc_query_trace lc_query lc_funct lc_unitb khc_query_trace khc_query khc_funct khc_unitb khc_nodeb
  pbounds pwf_treeb pnodes_forallb pindices lin_k poly2_k kd2 dot edist2
  lc_build khc_build lc_coded_choose khc_coded_choose amedian_okb aksort lc_key khc_key lc_prep khc_prep khc_mk
  nn_scores nn_classify nn_regress.
