(* Extraction of the C17 model: ExtrOcamlBasic only, no Extract Constant. *)
Require Import ExtrOcamlBasic.
From SharkV Require Import C17Model.
Extraction "c17_model.ml" query_trace query wf_treeb tindices.
