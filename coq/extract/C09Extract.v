(* Extraction of the C09 model: ExtrOcamlBasic only, no Extract Constant. *)
Require Import ExtrOcamlBasic.
From SharkV Require Import ListAux C09Model.
Extraction "c09_model.ml" init step wf_op cm_row_const line linelen.
