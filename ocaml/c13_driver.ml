(* Driver for the extracted C13 model.  Case format (one output line per input line):
     C <query> <d> <k> r1 .. rd      header: query in R H G K N S, reference point (G = H, the harness then skips HOY)
     p x1 .. xd                      one point
     E                               evaluate the query on the points read so far
   Output on E:
     R nds=<nds_front model (front end)> fast=<fast_nds model> dc=<dc_nds model (divide-and-conquer sort)> spec=<rank_list>
     H spec=<hv_spec> a2=<hv2d model | -> a3=<hv3d model (3-D sweep) | -> wfg=<wfg model | -> (n <= 24)
       lim=<wfg_limit (points 2..n) (point 1), sorted, p1,..,pd/..  | -> (n >= 2, n <= 24)
       disp=<hv_dispatch model of the front end; HOY slot (4 objectives) filled with the hoy model | -> (WFG branch: n <= 24)
     K k=<k> spec=<contribs_spec by index> c2d=<contrib2d_ref by index | -> small=.. large=.. (k extremal values of spec)
       md=<contribs_md_inst by index (model of HypervolumeContributionMD; HOY slot filled with the hoy model)>
       mds=<smallest_kv k of it, value@index;..> mdl=<largest_kv k of it>
       c3d=<contribs3d by index (model of HypervolumeContribution3D::allContributions) | -> c3s=<smallest_kv k of it> c3l=<largest_kv k>
     N k=<k> c2d=<contrib2d_noref value@index list | ->       (spec with implied reference: see c13.py)
       ns=<noref_front (smallest) model: value@index;..> nl=<noref_front (largest)> iref=<implicit reference point>
       nall=<contribs_spec w.r.t. the implicit reference point, by index>
     S k=<k> best=<best_subset_hv> front=<front_size> sel=<hssp2d model: 0/1 per point | EXC | -> hvsel=<hv_spec of the
       points the model selects | ->            (sel only for n <= 16: libstdc++ insertion sort)  | S SKIP
     H also prints hoy=<hoy model (HypervolumeCalculatorMDHOY, C13Hoy.v) | -> (>= 3 objectives); disp= uses it in the HOY slot
   Query Y = direct call of HypervolumeCalculatorMDHOY::stream; ALL numbers of the case are the doubled values:
     C Y <m> <sqrtNoPoints> up_1 .. up_{m-1} cover ;  l <split> low_1 .. low_{m-1} ;  p x1 .. xm (sorted by the last objective)
     Y st=<2^m * result> tr=<sizes of pointsChildUp, pointsChildLow of every splitting call, post-order> nb=<split bounds, pre-order>
       med=<getMedian of the first objectives> trel=<2^(m-1) * computeTrellis(low, up, clamp(first point))> *)
open C13_model

let rec nat_of_int n = if n <= 0 then O else S (nat_of_int (n - 1))
let rec int_of_nat = function O -> 0 | S n -> 1 + int_of_nat n

let rec pos_of_int n = if n = 1 then XH else if n land 1 = 0 then XO (pos_of_int (n lsr 1)) else XI (pos_of_int (n lsr 1))
let z_of_int n = if n = 0 then Z0 else if n > 0 then Zpos (pos_of_int n) else Zneg (pos_of_int (-n))
let rec int_of_pos = function XH -> 1 | XO p -> 2 * int_of_pos p | XI p -> 2 * int_of_pos p + 1
let int_of_z = function Z0 -> 0 | Zpos p -> int_of_pos p | Zneg p -> - (int_of_pos p)

let sz z = string_of_int (int_of_z z)
let join f l = String.concat "," (List.map f l)
let snat n = string_of_int (int_of_nat n)

let () =
  let ic = open_in Sys.argv.(1) in
  let query = ref "R" and k = ref 0 and d = ref 0 in
  let refp = ref [] and pts = ref [] in
  let lowl = ref None in
  (try
    while true do
      let l = input_line ic in
      let toks = List.filter (fun x -> x <> "") (String.split_on_char ' ' l) in
      match toks with
      | [] -> print_newline ()
      | "C" :: q :: dd :: kk :: r ->
        query := q; d := int_of_string dd; k := int_of_string kk;
        refp := List.map (fun x -> z_of_int (int_of_string x)) r; pts := []; lowl := None;
        print_endline "C"
      | "p" :: xs ->
        pts := List.map (fun x -> z_of_int (int_of_string x)) xs :: !pts;
        print_endline "p"
      | "l" :: sp :: xs ->
        lowl := Some (int_of_string sp, List.map (fun x -> z_of_int (int_of_string x)) xs);
        print_endline "l"
      | "E" :: _ ->
        let s = List.rev !pts in
        let n = List.length s in
        let keff = min !k n in
        (match !query with
         | "R" ->
           let r = rank_list s and f = fast_nds s in
           let dc = dc_nds s and fe = nds_front s in
           Printf.printf "R nds=%s fast=%s dc=%s spec=%s\n" (join snat fe) (join snat f) (join snat dc) (join snat r)
         | "H" | "G" ->
           let v = hv_spec !refp s in
           let a2 = if !d = 2 then sz (hv2d !refp s) else "-" in
           let a3 = if !d = 3 then sz (hv3d !refp s) else "-" in
           let w = if n <= 24 then sz (wfg !refp s) else "-" in
           let lim = match s with
             | p :: (_ :: _ as rest) when n <= 24 ->
               let l = List.sort compare (List.map (List.map int_of_z) (wfg_limit rest p)) in
               if l = [] then "none" else String.concat "/" (List.map (fun q -> String.concat "," (List.map string_of_int q)) l)
             | _ -> "-" in
           let disp = if !d <= 4 || n <= 24 then sz (hv_dispatch hoy !refp s) else "-" in
           let hy = if !d >= 3 then sz (hoy !refp s) else "-" in
           Printf.printf "H spec=%s a2=%s a3=%s wfg=%s lim=%s disp=%s hoy=%s\n" (sz v) a2 a3 w lim disp hy
         | "Y" ->
           (match !lowl with
            | None -> print_endline "Y nolow"
            | Some (split, low) ->
              let rec but_last = function [] -> [] | [_] -> [] | x :: t -> x :: but_last t in
              let up = but_last !refp and cover = List.nth !refp (List.length !refp - 1) in
              let sq = nat_of_int !k and sp = nat_of_int split in
              let st = hoy_stream sq low up s sp cover in
              let tr = hoy_stream_trace sq low up s sp cover in
              let nb = hoy_stream_bounds sq low up s sp cover in
              let med = if s = [] then "-" else sz (median (List.map List.hd s)) in
              let trel = match s with
                | [] -> "-"
                | p :: _ -> let t = List.map2 (fun (l, u) x -> let x = int_of_z x in z_of_int (Stdlib.max (int_of_z l) (Stdlib.min (int_of_z u) x)))
                                      (List.combine low up) (but_last p) in
                            sz (compute_trellis low up t) in
              Printf.printf "Y st=%s tr=%s nb=%s med=%s trel=%s\n" (sz st)
                (if tr = [] then "none" else join snat tr)
                (if nb = [] then "none" else String.concat ";" (List.map (fun (j, b) -> snat j ^ "@" ^ sz b) nb)) med trel)
         | "K" ->
           if n = 0 then print_endline "K empty" else begin
             let c = contribs_spec !refp s in
             let c2 = if !d = 2 then begin
                 let l = contrib2d_ref !refp s in
                 let arr = Array.make n "?" in
                 List.iter (fun (v, i) -> let i = int_of_nat i in if i < n then arr.(i) <- sz v) l;
                 String.concat "," (Array.to_list arr) end else "-" in
             let kvs l = if l = [] then "none" else String.concat ";" (List.map (fun (v, i) -> sz v ^ "@" ^ snat i) l) in
             let md = contribs_md_inst hoy !refp s in
             let by_index l = let arr = Array.make n "?" in
               List.iter (fun (v, i) -> let i = int_of_nat i in if i < n then arr.(i) <- sz v) l;
               String.concat "," (Array.to_list arr) in
             let c3, c3s, c3l = if !d = 3 then begin
                 let l = contribs3d !refp s in
                 (by_index l, kvs (smallest_kv (nat_of_int keff) l), kvs (largest_kv (nat_of_int keff) l)) end
               else ("-", "-", "-") in
             Printf.printf "K k=%d d=%d fes=%s fel=%s spec=%s c2d=%s c3d=%s c3s=%s c3l=%s small=%s large=%s md=%s mds=%s mdl=%s\n" keff !d
               (kvs (contrib_front_smallest hoy !refp s (nat_of_int keff))) (kvs (contrib_front_largest hoy !refp s (nat_of_int keff)))
               (join sz c) c2 c3 c3s c3l
               (join sz (smallest_k (nat_of_int keff) c)) (join sz (largest_k (nat_of_int keff) c))
               (join (fun (v, _) -> sz v) md) (kvs (smallest_kv (nat_of_int keff) md)) (kvs (largest_kv (nat_of_int keff) md))
           end
         | "N" ->
           if n = 0 then print_endline "N empty" else begin
             let c2 = if !d = 2 then begin
                 let l = contrib2d_noref s in
                 let vals = List.map fst l in
                 Printf.sprintf "cand=%s small=%s large=%s"
                   (String.concat "," (List.map (fun (v, i) -> sz v ^ "@" ^ snat i) l))
                   (join sz (smallest_k (nat_of_int keff) vals)) (join sz (largest_k (nat_of_int keff) vals))
               end else "-" in
             let kvs l = if l = [] then "none" else String.concat ";" (List.map (fun (v, i) -> sz v ^ "@" ^ snat i) l) in
             let ir = implicit_ref s in
             Printf.printf "N k=%d %s ns=%s nl=%s iref=%s nall=%s\n" keff c2
               (kvs (noref_front hoy false s (nat_of_int keff))) (kvs (noref_front hoy true s (nat_of_int keff)))
               (join sz ir) (join sz (contribs_spec ir s))
           end
         | "S" ->
           let m = int_of_nat (front_size s) in
           if keff < 1 || keff > m then print_endline "S SKIP"
           else begin
             let sel, hvsel = if n <= 16 then
                 (match hssp2d !refp s (nat_of_int keff) with
                  | Some l -> (String.concat "" (List.map (fun b -> if b then "1" else "0") l), sz (hv_spec !refp (pick l s)))
                  | None -> ("EXC", "-"))
               else ("-", "-") in
             Printf.printf "S k=%d best=%s front=%d sel=%s hvsel=%s\n" keff (sz (best_subset_hv (nat_of_int keff) !refp s)) m sel hvsel
           end
         | q -> failwith ("bad query " ^ q))
      | _ -> failwith ("bad line " ^ l)
    done
  with End_of_file -> ())
