(* Driver for the extracted C16 model (float instantiation).  One output line per input line:
     EDGE a g Q L U / BOX ai aj gi gj Qii Qij Qjj Li Ui Lj Uj / TRI ai aj gi gj Qii Qij Qjj M /
     GAIN Qii Qjj Qij gi gj / LINE Qii Qjj Qij gi gj / SPARSE def w k i1 v1 .. ik vk   -> V ...
     SS C P e p e' p' gv gw Qvv Qvw Qww  a_e[P] vs_e  a_e'[P] vs_e'    -> V a_e[P] vs_e a_e'[P] vs_e'
     SB C P e p e' p' gv gw Qvv Qvw Qww  a_e[P] 0     a_e'[P] 0        -> V a_e[P] 0 a_e'[P] 0
   (one update step of QpMcSimplexDecomp / QpMcBoxDecomp applied to the implementation's own
   previous state of the two examples involved).  Same operations in the same order as the C++. *)
open C16_model

let rec nat_of_int n = if n <= 0 then O else S (nat_of_int (n - 1))
let rec int_of_nat = function O -> 0 | S n -> 1 + int_of_nat n

let fops : float ops = {
  o_zero = 0.0; o_add = ( +. ); o_sub = ( -. ); o_mul = ( *. ); o_div = ( /. );
  o_ltb = (fun a b -> a < b); o_eqb = (fun a b -> a = b);
  o_thr = 1e-12; o_two = 2.0; o_half = 0.5; o_big = 1e100; o_ten = 10.0 }
let lowest = -. max_float   (* -std::numeric_limits<double>::max() *)
let tiny = 1e-14
let micro = 1e-6

let pf x = if x = 0.0 && 1.0 /. x < 0.0 then "-0x0p+0" else if x <> x then "nan" else Printf.sprintf "%h" x
let fos s = match s with "inf" -> infinity | "-inf" -> neg_infinity | "nan" | "-nan" -> nan | _ -> float_of_string s

let () =
  let ic = open_in Sys.argv.(1) in
  (try
    while true do
      let l = input_line ic in
      let t = Array.of_list (List.filter (fun x -> x <> "") (String.split_on_char ' ' l)) in
      if Array.length t > 0 && (String.length t.(0) > 0 && t.(0).[0] <> '#') then begin
        let f k = fos t.(k) in
        let out = Buffer.create 256 in
        Buffer.add_string out "V";
        let add x = Buffer.add_char out ' '; Buffer.add_string out (pf x) in
        (match t.(0) with
         | "EDGE" -> add (solve_edge fops (f 1) (f 2) (f 3) (f 4) (f 5))
         | "BOX" ->
           let (x, y) = solve_2d fops (f 1) (f 2) (f 3) (f 4) (f 5) (f 6) (f 7) (f 8) (f 9) (f 10) (f 11) in add x; add y
         | "TRI" ->
           let (x, y) = solve_tri fops lowest (f 1) (f 2) (f 3) (f 4) (f 5) (f 6) (f 7) (f 8) in add x; add y
         | "GAIN" -> add (max_gain_2d fops micro (f 1) (f 2) (f 3) (f 4) (f 5))
         | "LINE" -> add (max_gain_line fops (f 1) (f 2) (f 3) (f 4) (f 5))
         | "SPARSE" ->
           let def = f 1 and w = int_of_string t.(2) and k = int_of_string t.(3) in
           let es = List.init k (fun b -> (nat_of_int (int_of_string t.(4 + 2 * b)), f (5 + 2 * b))) in
           for col = 0 to w - 1 do add (sa_lookup es def (nat_of_int col)) done
         | "SS" | "SB" ->
           let c = f 1 and p = int_of_string t.(2) in
           let e = int_of_string t.(3) and pv = int_of_string t.(4) and e' = int_of_string t.(5) and pw = int_of_string t.(6) in
           let gv = f 7 and gw = f 8 and qvv = f 9 and qvw = f 10 and qww = f 11 in
           let base1 = 12 and base2 = 12 + p + 1 in
           (* the two examples get the model indices 0 and 1 (0 and 0 when they coincide) *)
           let me = 0 and me' = if e = e' then 0 else 1 in
           let al0 ex q =
             let ex = int_of_nat ex and q = int_of_nat q in
             if q >= p then 0.0 else if ex = me then f (base1 + q) else if ex = me' then f (base2 + q) else 0.0 in
           let vs0 ex = let ex = int_of_nat ex in if ex = me then f (base1 + p) else if ex = me' then f (base2 + p) else 0.0 in
           let op = if e = e' && pv = pw then Op1 (nat_of_int me, nat_of_int pv, gv, qvv)
                    else Op2 (nat_of_int me, nat_of_int pv, nat_of_int me', nat_of_int pw, gv, gw, qvv, qvw, qww) in
           if t.(0) = "SS" then begin
             let s' = simplex_step fops lowest tiny (nat_of_int p) c { al = al0; vs = vs0 } op in
             List.iter (fun ex ->
               for q = 0 to p - 1 do add (s'.al (nat_of_int ex) (nat_of_int q)) done;
               add (s'.vs (nat_of_int ex))) [me; me']
           end else begin
             let a' = box_step fops c al0 op in
             List.iter (fun ex ->
               for q = 0 to p - 1 do add (a' (nat_of_int ex) (nat_of_int q)) done;
               add 0.0) [me; me']
           end
         | _ -> Buffer.add_string out " UNKNOWN");
        print_endline (Buffer.contents out)
      end
    done
  with End_of_file -> ())
