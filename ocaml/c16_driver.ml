(* Driver for the extracted C16 model (float instantiation).  One output line per input line:
     EDGE a g Q L U / BOX ai aj gi gj Qii Qij Qjj Li Ui Lj Uj / TRI ai aj gi gj Qii Qij Qjj M /
     GAIN Qii Qjj Qij gi gj / LINE Qii Qjj Qij gi gj / SPARSE def w k i1 v1 .. ik vk   -> V ...
     SS C P e p e' p' gv gw Qvv Qvw Qww  a_e[P] vs_e  a_e'[P] vs_e'    -> V a_e[P] vs_e a_e'[P] vs_e'
     SB C P e p e' p' gv gw Qvv Qvw Qww  a_e[P] 0     a_e'[P] 0        -> V a_e[P] 0 a_e'[P] 0
   (one update step of QpMcSimplexDecomp / QpMcBoxDecomp applied to the implementation's own
   previous state of the two examples involved).  Same operations in the same order as the C++.
   State model C16State (gradient, variable/example tables, shrinking), driven one operation at a time from the
   implementation's own previous state:
     MH id simplex P classes n C K k(n*n) M rows {def size {index value}*}*   constants (no output)
     MI id y(n) lin(n*P)                                                      -> MS line of init_state
     MS id actvar actex unshr V {alpha grad lin ex p idx diag}* E {orig y act vsum diag var[P] avar[P]}*   current state (no output)
     MO id smo v w | shrink eps useShrinking | unshrink | addlin d(n*P)       -> MS line of mstep applied to the current state
     MK ...                                                                   ignored (checked by tools/c16.py)
     SE id i0 j0                                                              -> V violation i j   (box_select / simplex_select on the current state)
     SO id                                                                    -> V violation i j   (selection with maxGainBox as it was before c9be7fe4)
     KK id                                                                    -> V checkKKT        (kkt on the current state)
     MV id eps maxiter shrinking                                              -> MS line of the final state of mc_solve_steps + " X exit iterations"
   Linear solvers (C16Linear):
     LS id type K d C eps y q wx[K] a[K+1] x[d] w[K*d]      -> V kkt gain a'[K+1] mu[K] w'[K*d]     (lin_step)
     BL id bound reg offset n d sched[n] alpha[n] w[d] ysign[n] x[n*d]  -> V alpha'[n] w'[d]        (boxlin_epoch) *)
open C16_model

let rec nat_of_int n = if n <= 0 then O else S (nat_of_int (n - 1))
let rec int_of_nat = function O -> 0 | S n -> 1 + int_of_nat n

let fops : float ops = {
  o_zero = 0.0; o_add = ( +. ); o_sub = ( -. ); o_mul = ( *. ); o_div = ( /. );
  o_ltb = (fun a b -> a < b); o_eqb = (fun a b -> a = b);
  o_thr = 1e-12; o_two = 2.0; o_half = 0.5; o_big = 1e100; o_ten = 10.0 }
let lowest = -. max_float   (* -std::numeric_limits<double>::max() *)
let tiny = 1e-14
let micro = 1e-6

let pf x = if x = 0.0 && 1.0 /. x < 0.0 then "-0x0p+0" else if x <> x then "nan" else Printf.sprintf "%h" x
let fos s = match s with "inf" -> infinity | "-inf" -> neg_infinity | "nan" | "-nan" -> nan | _ -> float_of_string s

(* ---- state model ---- *)
type ctx = { simplex : bool; cp : int; ncl : int; n : int; cc : float; k0 : float array array;
             mrows : (nat * float) list array; mdefs : float array; nurows : (nat * float) list array; mutable ylab : int array }
let ctx = ref None
let cur : float mst option ref = ref None
let tab_f (a : float array) : nat -> float = fun i -> let i = int_of_nat i in if i < Array.length a then a.(i) else 0.0
let tab_n (a : int array) : nat -> nat = fun i -> let j = int_of_nat i in if j < Array.length a then nat_of_int a.(j) else i
let tab2_n (a : int array array) : nat -> nat -> nat = fun e p ->
  let e' = int_of_nat e and p' = int_of_nat p in
  if e' < Array.length a && p' < Array.length a.(e') then nat_of_int a.(e').(p') else O
let rec print_state_x id (c : ctx) (s : float mst) (suffix : string) =
  let b = Buffer.create 4096 in
  let nv = c.cp * c.n in
  Buffer.add_string b (Printf.sprintf "MS %s %d %d %d V" id (int_of_nat s.actvar) (int_of_nat s.actex) (if s.munshr then 1 else 0));
  for v = 0 to nv - 1 do
    let v' = nat_of_int v in
    Buffer.add_string b (Printf.sprintf " %s %s %s %d %d %d %s" (pf (s.malpha v')) (pf (s.mgrad v')) (pf (s.mlin v'))
      (int_of_nat (s.vex v')) (int_of_nat (s.vp v')) (int_of_nat (s.vidx v')) (pf (s.vdiag v')))
  done;
  Buffer.add_string b " E";
  for e = 0 to c.n - 1 do
    let e' = nat_of_int e in
    (* QpMcBoxDecomp::Example has no varsum / diagonal members: the harness prints 0 for them *)
    Buffer.add_string b (Printf.sprintf " %d %d %d %s %s" (int_of_nat (s.eorig e')) (int_of_nat (s.ey e')) (int_of_nat (s.eact e'))
      (pf (if c.simplex then s.evsum e' else 0.0)) (pf (if c.simplex then s.ediag e' else 0.0)));
    for p = 0 to c.cp - 1 do Buffer.add_string b (Printf.sprintf " %d" (int_of_nat (s.evar e' (nat_of_int p)))) done;
    for p = 0 to c.cp - 1 do Buffer.add_string b (Printf.sprintf " %d" (int_of_nat (s.eavar e' (nat_of_int p)))) done
  done;
  Buffer.add_string b suffix;
  print_endline (Buffer.contents b)
and print_state id c s = print_state_x id c s ""

let handle_m (t : string array) =
  let f k = fos t.(k) and i k = int_of_string t.(k) in
  match t.(0) with
  | "MH" ->
    let simplex = i 2 <> 0 and cp = i 3 and ncl = i 4 and n = i 5 and cc = f 6 in
    let p = ref 8 in
    let k0 = Array.init n (fun _ -> Array.init n (fun _ -> let x = f !p in incr p; x)) in
    assert (t.(!p) = "M"); incr p;
    let rows = i !p in incr p;
    let mdefs = Array.make rows 0.0 and mrows = Array.make rows [] in
    for r = 0 to rows - 1 do
      mdefs.(r) <- f !p; incr p;
      let sz = i !p in incr p;
      let es = ref [] in
      for _ = 1 to sz do es := (nat_of_int (i !p), f (!p + 1)) :: !es; p := !p + 2 done;
      mrows.(r) <- List.rev !es
    done;
    let nurows =
      if !p < Array.length t && t.(!p) = "N" then begin
        incr p; let nr = i !p in incr p;
        Array.init nr (fun _ ->
          let sz = i !p in incr p;
          let es = ref [] in
          for _ = 1 to sz do es := (nat_of_int (i !p), f (!p + 1)) :: !es; p := !p + 2 done;
          List.rev !es)
      end else [||] in
    ctx := Some { simplex; cp; ncl; n; cc; k0; mrows; mdefs; nurows; ylab = [||] }; cur := None
  | "MK" -> ()
  | _ ->
    let c = match !ctx with Some c -> c | None -> failwith "state line before MH" in
    let mrow r = let r = int_of_nat r in if r < Array.length c.mrows then c.mrows.(r) else [] in
    let mdef = tab_f c.mdefs in
    let k0 a b = let a = int_of_nat a and b = int_of_nat b in if a < c.n && b < c.n then c.k0.(a).(b) else 0.0 in
    let np = nat_of_int c.cp and nn = nat_of_int c.n and ncl = nat_of_int c.ncl in
    (match t.(0) with
     | "MI" ->
       let y = Array.init c.n (fun e -> i (2 + e)) in
       c.ylab <- y;
       let lin = Array.init c.n (fun e -> Array.init c.cp (fun p -> f (2 + c.n + e * c.cp + p))) in
       let lin0 e p = let e = int_of_nat e and p = int_of_nat p in if e < c.n && p < c.cp then lin.(e).(p) else 0.0 in
       print_state t.(1) c (init_state fops np ncl nn mrow mdef k0 (tab_n y) lin0)
     | "MS" ->
       let nv = c.cp * c.n in
       let actvar = i 2 and actex = i 3 and unshr = i 4 <> 0 in
       assert (t.(5) = "V");
       let vb = 6 in
       let fa o = Array.init nv (fun v -> f (vb + 7 * v + o)) and ia o = Array.init nv (fun v -> i (vb + 7 * v + o)) in
       let eb = vb + 7 * nv + 1 in
       assert (t.(eb - 1) = "E");
       let w = 5 + 2 * c.cp in
       let efa o = Array.init c.n (fun e -> f (eb + w * e + o)) and eia o = Array.init c.n (fun e -> i (eb + w * e + o)) in
       let evar = Array.init c.n (fun e -> Array.init c.cp (fun p -> i (eb + w * e + 5 + p))) in
       let eavar = Array.init c.n (fun e -> Array.init c.cp (fun p -> i (eb + w * e + 5 + c.cp + p))) in
       cur := Some { malpha = tab_f (fa 0); mgrad = tab_f (fa 1); mlin = tab_f (fa 2); vex = tab_n (ia 3); vp = tab_n (ia 4);
                     vidx = tab_n (ia 5); vdiag = tab_f (fa 6); eorig = tab_n (eia 0); ey = tab_n (eia 1); eact = tab_n (eia 2);
                     evar = tab2_n evar; eavar = tab2_n eavar; evsum = tab_f (efa 3); ediag = tab_f (efa 4);
                     actex = nat_of_int actex; actvar = nat_of_int actvar; munshr = unshr }
     | "SE" | "SO" | "KK" | "MV" ->
       let s = match !cur with Some s -> s | None -> failwith "selection before MS" in
       (match t.(0) with
        | "SE" ->
          let (v, (a, b)) = if c.simplex then simplex_select fops micro np ncl c.cc mrow mdef k0 s
                            else box_select fops micro np ncl c.cc mrow mdef k0 s (nat_of_int (i 2)) (nat_of_int (i 3)) in
          Printf.printf "V %s %d %d\n" (pf v) (int_of_nat a) (int_of_nat b)
        | "SO" ->
          let (v, (a, b)) = old_simplex_select fops micro np ncl c.cc mrow mdef k0 s in
          Printf.printf "V %s %d %d\n" (pf v) (int_of_nat a) (int_of_nat b)
        | "KK" -> Printf.printf "V %s\n" (pf (kkt fops c.cc c.simplex s))
        | _ ->
          let r = mc_solve_steps fops lowest tiny micro np ncl nn c.cc mrow mdef k0 c.simplex (i 4 <> 0) (f 2) (nat_of_int (i 3)) O (Cnt O) s in
          print_state_x t.(1) c r.sr_state (Printf.sprintf " X %s %d" (match r.sr_exit with XAccuracy -> "accuracy" | XMaxIter -> "maxiter") (int_of_nat r.sr_iter)))
     | "MO" ->
       let s = match !cur with Some s -> s | None -> failwith "MO before MS" in
       let shrinking = ref true in
       let op = match t.(2) with
         | "smo" -> MSmo (nat_of_int (i 3), nat_of_int (i 4))
         | "shrink" -> shrinking := (i 4 <> 0); MShrink (f 3)
         | "unshrink" -> MUnshrink
         | "addlin" ->
           let d = Array.init c.n (fun e -> Array.init c.cp (fun p -> f (3 + e * c.cp + p))) in
           MAddLin (fun e p -> let e = int_of_nat e and p = int_of_nat p in if e < c.n && p < c.cp then d.(e).(p) else 0.0)
         | "biasupd" -> MUnshrink   (* handled below *)
         | x -> failwith ("unknown operation " ^ x) in
       if t.(2) = "biasupd" then begin
         (* MO id biasupd step[K] B bias[K]  -> MS line of the state after performBiasUpdate, followed by " B bias'[K]" *)
         let k = c.ncl in
         let step = Array.init k (fun j -> f (3 + j)) and bias = Array.init k (fun j -> f (4 + k + j)) in
         let nurow r = let r = int_of_nat r in if r < Array.length c.nurows then c.nurows.(r) else [] in
         let (s', b') = bias_update fops np nn nurow (tab_n c.ylab) (s, tab_f bias) (tab_f step) in
         print_state_x t.(1) c s' (" B" ^ String.concat "" (List.init k (fun j -> " " ^ pf (b' (nat_of_int j)))))
       end else
       print_state t.(1) c (mstep fops lowest tiny np ncl nn c.cc mrow mdef k0 c.simplex !shrinking s op)
     | _ -> ())

let kind_of = function
  | "WW" -> LWW | "LLW" -> LLLW | "ATS" -> LATS | "RI" -> LRI | "MMR" -> LMMR | "CS" -> LCS | "ADM" -> LADM | "ATM" -> LATM
  | x -> failwith ("no linear solver kind " ^ x)

let handle_lin (t : string array) =
  let f k = fos t.(k) and i k = int_of_string t.(k) in
  let b = Buffer.create 1024 in
  Buffer.add_string b "V";
  let add x = Buffer.add_char b ' '; Buffer.add_string b (pf x) in
  (match t.(0) with
   | "LS" ->
     let kind = kind_of t.(2) and k = i 3 and d = i 4 and c = f 5 and eps = f 6 and y = i 7 and q = f 8 in
     let p0 = 9 in
     let wx = Array.init k (fun j -> f (p0 + j)) in
     let a = Array.init (k + 1) (fun j -> f (p0 + k + j)) in
     let x = Array.init d (fun j -> f (p0 + 2 * k + 1 + j)) in
     let w = Array.init k (fun cc -> Array.init d (fun j -> f (p0 + 2 * k + 1 + d + cc * d + j))) in
     let w0 cc j = let cc = int_of_nat cc and j = int_of_nat j in if cc < k && j < d then w.(cc).(j) else 0.0 in
     let r = lin_step fops 1.0 (nat_of_int k) (float_of_int k) c kind eps q (nat_of_int y) (tab_f wx) (tab_f a) (tab_f x) w0 in
     add r.r_kkt; add r.r_gain;
     for j = 0 to k do add (r.r_al (nat_of_int j)) done;
     for j = 0 to k - 1 do add (r.r_mu (nat_of_int j)) done;
     for cc = 0 to k - 1 do for j = 0 to d - 1 do add (r.r_w (nat_of_int cc) (nat_of_int j)) done done
   | _ ->
     let bound = f 2 and reg = f 3 and offset = f 4 and n = i 5 and d = i 6 in
     let p0 = 7 in
     let sched = List.init n (fun j -> nat_of_int (i (p0 + j))) in
     let al = Array.init n (fun j -> f (p0 + n + j)) in
     let w = Array.init d (fun j -> f (p0 + 2 * n + j)) in
     let ys = Array.init n (fun j -> f (p0 + 2 * n + d + j)) in
     let xs = Array.init n (fun e -> Array.init d (fun j -> f (p0 + 3 * n + d + e * d + j))) in
     let xs0 e j = let e = int_of_nat e and j = int_of_nat j in if e < n && j < d then xs.(e).(j) else 0.0 in
     let (al', w') = boxlin_epoch fops 1.0 (nat_of_int d) bound reg offset (tab_f ys) xs0 (tab_f al, tab_f w) sched in
     for j = 0 to n - 1 do add (al' (nat_of_int j)) done;
     for j = 0 to d - 1 do add (w' (nat_of_int j)) done);
  print_endline (Buffer.contents b)

let () =
  let ic = open_in Sys.argv.(1) in
  (try
    while true do
      let l = input_line ic in
      let t = Array.of_list (List.filter (fun x -> x <> "") (String.split_on_char ' ' l)) in
      if Array.length t > 0 && (t.(0) = "LS" || t.(0) = "BL") then handle_lin t
      else if Array.length t > 0 && (t.(0) = "MH" || t.(0) = "MI" || t.(0) = "MS" || t.(0) = "MO" || t.(0) = "MK" || t.(0) = "SE" || t.(0) = "SO" || t.(0) = "KK" || t.(0) = "MV") then handle_m t
      else if Array.length t > 0 && (String.length t.(0) > 0 && t.(0).[0] <> '#') then begin
        let f k = fos t.(k) in
        let out = Buffer.create 256 in
        Buffer.add_string out "V";
        let add x = Buffer.add_char out ' '; Buffer.add_string out (pf x) in
        (match t.(0) with
         | "EDGE" -> add (solve_edge fops (f 1) (f 2) (f 3) (f 4) (f 5))
         | "BOX" ->
           let (x, y) = solve_2d fops (f 1) (f 2) (f 3) (f 4) (f 5) (f 6) (f 7) (f 8) (f 9) (f 10) (f 11) in add x; add y
         | "TRI" ->
           let (x, y) = solve_tri fops lowest (f 1) (f 2) (f 3) (f 4) (f 5) (f 6) (f 7) (f 8) in add x; add y
         | "GAIN" -> add (max_gain_2d fops micro (f 1) (f 2) (f 3) (f 4) (f 5))
         | "LINE" -> add (max_gain_line fops (f 1) (f 2) (f 3) (f 4) (f 5))
         | "SPARSE" ->
           let def = f 1 and w = int_of_string t.(2) and k = int_of_string t.(3) in
           let es = List.init k (fun b -> (nat_of_int (int_of_string t.(4 + 2 * b)), f (5 + 2 * b))) in
           for col = 0 to w - 1 do add (sa_lookup es def (nat_of_int col)) done
         | "SS" | "SB" ->
           let c = f 1 and p = int_of_string t.(2) in
           let e = int_of_string t.(3) and pv = int_of_string t.(4) and e' = int_of_string t.(5) and pw = int_of_string t.(6) in
           let gv = f 7 and gw = f 8 and qvv = f 9 and qvw = f 10 and qww = f 11 in
           let base1 = 12 and base2 = 12 + p + 1 in
           (* the two examples get the model indices 0 and 1 (0 and 0 when they coincide) *)
           let me = 0 and me' = if e = e' then 0 else 1 in
           let al0 ex q =
             let ex = int_of_nat ex and q = int_of_nat q in
             if q >= p then 0.0 else if ex = me then f (base1 + q) else if ex = me' then f (base2 + q) else 0.0 in
           let vs0 ex = let ex = int_of_nat ex in if ex = me then f (base1 + p) else if ex = me' then f (base2 + p) else 0.0 in
           let op = if e = e' && pv = pw then Op1 (nat_of_int me, nat_of_int pv, gv, qvv)
                    else Op2 (nat_of_int me, nat_of_int pv, nat_of_int me', nat_of_int pw, gv, gw, qvv, qvw, qww) in
           if t.(0) = "SS" then begin
             let s' = simplex_step fops lowest tiny (nat_of_int p) c { al = al0; vs = vs0 } op in
             List.iter (fun ex ->
               for q = 0 to p - 1 do add (s'.al (nat_of_int ex) (nat_of_int q)) done;
               add (s'.vs (nat_of_int ex))) [me; me']
           end else begin
             let a' = box_step fops c al0 op in
             List.iter (fun ex ->
               for q = 0 to p - 1 do add (a' (nat_of_int ex) (nat_of_int q)) done;
               add 0.0) [me; me']
           end
         | _ -> Buffer.add_string out " UNKNOWN");
        print_endline (Buffer.contents out)
      end
    done
  with End_of_file -> ())
