(* Driver for the extracted C08 model.  Reads the trace written by harness/c08_smo.cpp and, for every
   recorded event, applies the corresponding model operation to the *implementation's previous
   snapshot* (one-step correspondence) and prints the model's post-state in the harness' format:
     M <kind-of-event> [value] <snapshot>
   The arithmetic record is built from OCaml's float operations (IEEE double, same as the C++).
   Sparse (long) runs carry the state before each recorded call in a line  P nsmo <snapshot>.
   Every shrink event additionally gets a line
     R 0                                                   the un-shrink branch of shrink() is not due in the pre-state
     R 1 <active> <perm..> S <active> <perm..>             C08Reshrink.reshrink (as coded) and reshrink_stale (bounds not
                                                           recomputed) applied to the pre-state: active-set size and permutation
   Object-history runs (HIST): the mutator events setlin / setinit / scale / activate / flip / setshr are answered by
   C08Mutators.mstep on the previous snapshot. *)
open C08_model

let rec nat_of_int n = if n <= 0 then O else S (nat_of_int (n - 1))
let rec int_of_nat = function O -> 0 | S n -> 1 + int_of_nat n

let fops : float ops = {
  o_zero = 0.0; o_add = ( +. ); o_sub = ( -. ); o_mul = ( *. ); o_div = ( /. );
  o_ltb = (fun a b -> a < b); o_eqb = (fun a b -> a = b);
  o_thr = 1e-12; o_two = 2.0; o_half = 0.5; o_big = 1e100; o_ten = 10.0 }

let pf x = if x = 0.0 && 1.0 /. x < 0.0 then "-0x0p+0" else Printf.sprintf "%h" x
let fos s = match s with "inf" -> infinity | "-inf" -> neg_infinity | "nan" | "-nan" -> nan | _ -> float_of_string s

type snap = { act : int; un : bool; fv : float; prm : int array; al : float array; gr : float array;
              ge : float array; li : float array; lw : float array; up : float array; bl : bool array; bu : bool array }

let parse_snap n (t : string array) (p : int) : snap =
  let fa k = Array.init n (fun a -> fos t.(p + 3 + k * n + a)) in
  { act = int_of_string t.(p); un = t.(p + 1) = "1"; fv = fos t.(p + 2);
    prm = Array.init n (fun a -> int_of_string t.(p + 3 + a));
    al = fa 1; gr = fa 2; ge = fa 3; li = fa 4; lw = fa 5; up = fa 6;
    bl = Array.init n (fun a -> t.(p + 3 + 7 * n + a) = "1");
    bu = Array.init n (fun a -> t.(p + 3 + 8 * n + a) = "1") }

let getf (a : float array) (i : nat) = let k = int_of_nat i in if k < Array.length a then a.(k) else 0.0
let getb (a : bool array) (i : nat) = let k = int_of_nat i in if k < Array.length a then a.(k) else false
let geti (a : int array) (i : nat) = let k = int_of_nat i in if k < Array.length a then nat_of_int a.(k) else i

let to_st (s : snap) : float st =
  { alpha = getf s.al; grad = getf s.gr; gedge = getf s.ge; lin = getf s.li; lo = getf s.lw; hi = getf s.up;
    perm = geti s.prm; fl = getb s.bl; fu = getb s.bu; active = nat_of_int s.act; unshr = s.un }

let print_st n (fv : float) (s : float st) =
  let b = Buffer.create 1024 in
  Buffer.add_string b (Printf.sprintf " %d %d %s" (int_of_nat s.active) (if s.unshr then 1 else 0) (pf fv));
  let idx = List.init n nat_of_int in
  List.iter (fun a -> Buffer.add_string b (Printf.sprintf " %d" (int_of_nat (s.perm a)))) idx;
  List.iter (fun f -> List.iter (fun a -> Buffer.add_char b ' '; Buffer.add_string b (pf (f a))) idx)
    [s.alpha; s.grad; s.gedge; s.lin; s.lo; s.hi];
  List.iter (fun f -> List.iter (fun a -> Buffer.add_string b (if f a then " 1" else " 0")) idx) [s.fl; s.fu];
  Buffer.contents b

let () =
  let ic = open_in Sys.argv.(1) in
  let n = ref 0 and kind = ref true and shr = ref true in
  let km = ref [||] in
  let prev = ref None in
  (try
    while true do
      let l = input_line ic in
      let t = Array.of_list (List.filter (fun x -> x <> "") (String.split_on_char ' ' l)) in
      if Array.length t > 0 then
      match t.(0) with
      | "RUN" ->
        n := int_of_string t.(2); kind := (t.(3) = "svm"); shr := (t.(4) = "1"); prev := None;
        print_endline l
      | "K" -> km := Array.init (!n * !n) (fun k -> fos t.(k + 1))
      | "S0" -> prev := Some (parse_snap !n t 1)
      | "F" -> prev := Some (parse_snap !n t 1)
      | "P" -> prev := Some (parse_snap !n t 2)
      | "E" ->
        let nn = !n in
        let k0 p q = let a = int_of_nat p and b = int_of_nat q in if a < nn && b < nn then !km.(a * nn + b) else 0.0 in
        let nargs = (match t.(1) with "smo" -> 2 | "shrink" -> 2 | "unshrink" -> 0 | "kkt" -> 1
                                      | "setlin" -> 2 | "setinit" -> nn | "scale" -> 4 | "activate" -> 1 | "flip" -> 2 | "setshr" -> 1
                                      | _ -> failwith "bad event") in
        let args = String.concat "" (List.init nargs (fun k -> " " ^ t.(2 + k))) in
        let nat_n = nat_of_int nn in
        let post = parse_snap nn t (2 + nargs) in
        (match !prev with
         | None -> failwith "event before S0"
         | Some pre ->
           let s = to_st pre in
           let hdr, s' =
             (match t.(1) with
              | "smo" ->
                let i = int_of_string t.(2) and j = int_of_string t.(3) in
                Printf.sprintf "M smo %d %d" i j, step fops (nat_of_int nn) k0 !kind !shr s (OSmo (nat_of_int i, nat_of_int j))
              | "shrink" ->
                Printf.sprintf "M shrink %s %s" t.(2) (if !shr then "1" else "0"),
                step fops (nat_of_int nn) k0 !kind !shr s (OShrink (fos t.(2)))
              | "unshrink" -> "M unshrink", step fops (nat_of_int nn) k0 !kind !shr s OUnshrink
              | "setlin" -> "M setlin" ^ args, mstep fops nat_n k0 s (MSetLinear (nat_of_int (int_of_string t.(2)), fos t.(3)))
              | "setinit" ->
                let arg = Array.init nn (fun k -> fos t.(2 + k)) in
                "M setinit" ^ args, mstep fops nat_n k0 s (MSetInitial (getf arg))
              | "scale" -> "M scale" ^ args, mstep fops nat_n k0 s (MScale (fos t.(4), fos t.(5), fos t.(2), fos t.(3)))
              | "activate" -> "M activate" ^ args, mstep fops nat_n k0 s (MActivate (nat_of_int (int_of_string t.(2))))
              | "flip" -> "M flip" ^ args, mstep fops nat_n k0 s (MFlip (nat_of_int (int_of_string t.(2)), nat_of_int (int_of_string t.(3))))
              | "setshr" ->
                let b = t.(2) = "1" in
                let s' = if b then s else step fops nat_n k0 !kind !shr s OUnshrink in
                shr := b; "M setshr" ^ args, s'
              | _ -> Printf.sprintf "M kkt %s" (pf (check_kkt fops (nat_of_int nn) !kind s)), s) in
           print_endline (hdr ^ print_st nn (fval fops (nat_of_int nn) s') s');
           if t.(1) = "shrink" then begin
             if !shr && reshrink_due fops (fos t.(2)) s then begin
               let idx = List.init nn nat_of_int in
               let pa (x : float st) = Printf.sprintf " %d" (int_of_nat x.active) ^ String.concat "" (List.map (fun a -> Printf.sprintf " %d" (int_of_nat (x.perm a))) idx) in
               let r1 = reshrink fops nat_n k0 !kind s and r2 = reshrink_stale fops nat_n k0 !kind s in
               print_endline ("R 1" ^ pa r1 ^ " S" ^ pa r2)
             end else print_endline "R 0"
           end);
        prev := Some post
      | _ -> ()
    done
  with End_of_file -> ())
