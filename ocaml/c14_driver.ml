(* Driver for the extracted C14 model.  One output line per input line.
   S <ind> <d> <n> <mu> <useRef> r1..rd x.. | d1 d2 ..     selection; after '|' the index list the
        real indicator returned (read back from the implementation): the model's oracle
   P <d> <lo> <hi> <alpha> <m> x1..xd                      PenalizingEvaluator on the box [lo,hi]^d,
        objective (sum x^2, sum (x-2)^2) *)
open C14_model

let rec nat_of_int n = if n <= 0 then O else S (nat_of_int (n - 1))
let rec int_of_nat = function O -> 0 | S n -> 1 + int_of_nat n
let rec pos_of_int n = if n = 1 then XH else if n land 1 = 0 then XO (pos_of_int (n lsr 1)) else XI (pos_of_int (n lsr 1))
let z_of_int n = if n = 0 then Z0 else if n > 0 then Zpos (pos_of_int n) else Zneg (pos_of_int (-n))
let rec int_of_pos = function XH -> 1 | XO p -> 2 * int_of_pos p | XI p -> 2 * int_of_pos p + 1
let int_of_z = function Z0 -> 0 | Zpos p -> int_of_pos p | Zneg p -> - (int_of_pos p)
let sz z = string_of_int (int_of_z z)
let snat n = string_of_int (int_of_nat n)
let join f l = String.concat "," (List.map f l)
let bools l = String.concat "" (List.map (fun b -> if b then "1" else "0") l)

let rec take n l = if n = 0 then [] else match l with [] -> [] | x :: t -> x :: take (n - 1) t
let rec drop n l = if n = 0 then l else match l with [] -> [] | _ :: t -> drop (n - 1) t
let rec chunks d l = match l with [] -> [] | _ -> take d l :: chunks d (drop d l)

let distinct l = List.length (List.sort_uniq compare l) = List.length l

let () =
  let ic = open_in Sys.argv.(1) in
  (try
    while true do
      let l = input_line ic in
      let left, right = match String.index_opt l '|' with
        | Some i -> String.sub l 0 i, String.sub l (i + 1) (String.length l - i - 1)
        | None -> l, "" in
      let toks s = List.filter (fun x -> x <> "") (String.split_on_char ' ' s) in
      match toks left with
      | [] -> print_newline ()
      | "S" :: ind :: d :: n :: mu :: useref :: rest ->
        let d = int_of_string d and n = int_of_string n and mu = int_of_string mu in
        let ints = List.map int_of_string rest in
        let refp = List.map z_of_int (take d ints) in
        let pts = List.map (List.map z_of_int) (chunks d (drop d ints)) in
        assert (List.length pts = n);
        let dd = List.map int_of_string (toks right) in
        let oracle _ _ _ = List.map nat_of_int dd in
        let (r, o) = indicator_selection oracle pts (nat_of_int mu) in
        let k = int_of_nat o.o_K and fl = List.length o.o_front in
        let ovalid = List.length dd = k && distinct dd && List.for_all (fun x -> x >= 0 && x < fl) dd in
        let extra =
          if ind = "H" && useref = "1" then begin
            let fp = List.map (fun i -> List.nth pts (int_of_nat i)) o.o_front in
            let c = if fp = [] then [] else contribs_spec refp fp in
            let (_, o2) = indicator_selection (least_contributors (hv_lc refp)) pts (nat_of_int mu) in
            Printf.sprintf " contribs=%s own=%s" (join sz c) (bools o2.o_sel)
          end else "" in
        Printf.printf "ranks=%s sel=%s K=%d front=%s archive=%s ovalid=%d%s\n"
          (join snat r) (bools o.o_sel) k (join snat o.o_front) (join snat o.o_archive)
          (if ovalid then 1 else 0) extra
      | "P" :: d :: lo :: hi :: alpha :: m :: xs ->
        let d = int_of_string d in
        let lo = z_of_int (int_of_string lo) and hi = z_of_int (int_of_string hi) in
        let los = List.init d (fun _ -> lo) and his = List.init d (fun _ -> hi) in
        let s = List.map (fun x -> z_of_int (int_of_string x)) xs in
        let f x =
          let xi = List.map int_of_z x in
          [z_of_int (List.fold_left (fun a v -> a + v * v) 0 xi);
           z_of_int (List.fold_left (fun a v -> a + (v - 2) * (v - 2)) 0 xi)] in
        let (unp, pen) = penalized_eval f (box_feasible los his) (box_closest los his)
            (z_of_int (int_of_string alpha)) (nat_of_int (int_of_string m - 1)) s in
        Printf.printf "unp=%s pen=%s feas=%d\n" (join sz unp) (join sz pen)
          (if box_feasible los his s then 1 else 0)
      | _ -> print_endline "BAD"
    done
  with End_of_file -> ())
