(* Driver for the extracted C14 model.  One output line per input line.
   S <ind> <d> <n> <mu> <useRef> r1..rd x.. | d1 d2 ..     selection; after '|' the index list the
        real indicator returned (read back from the implementation): the model's oracle
   P <d> <lo> <hi> <alpha> <m> x1..xd                      PenalizingEvaluator on the box [lo,hi]^d,
        objective (sum x^2, sum (x-2)^2)
   I <ind> <d> <nF> <nA> <K> <aux> head.. front.. archive..   direct indicator call (C14Ind.v): the model's own
        leastContributors; E/H over Z (integers), C over OCaml floats (carrier of the Section), H only for d = 2;
        N (NSGA3Indicator, C14Nsga3.v) over OCaml floats, after '|' the answer of the plane solver (w.. or none)
   U <alg> <ind> <d> <mu> <lambda> <useRef> ref.. values..   updatePopulation (C14Loop.gen_update / ss_update) with the coded
        indicator models; format as in harness/c14_loop.cpp
   N <alg> <nobj> <mu> <n> p1..pn v1..vn r1..rn | o1 o2 ..   initialisation (C14Init.v) from the n starting points p_i (opaque tokens:
        the coordinates as the harness printed them), v_i the objective vector at p_i (opaque token, evaluated by the harness itself),
        r_i = 1 iff the individual at p_i got rank 1 (only read by the SteadyStateMOCMA model: sortRankOneToFront); after '|' the
        random indices recovered from the implementation's output.  mu is the configured value (approxMu for RVEA: the model
        computes the population size).  Output: pop=<point:penalized:unpenalized;..> sol=<point:value;..> ok=<oracle_ok> mu=<size>
   X / M / T / L   variation and mating-selection operators (C14Var.v), formats as in harness/c14_var.cpp; draws after '|' *)
open C14_model

let rec nat_of_int n = if n <= 0 then O else S (nat_of_int (n - 1))
let rec int_of_nat = function O -> 0 | S n -> 1 + int_of_nat n
let rec pos_of_int n = if n = 1 then XH else if n land 1 = 0 then XO (pos_of_int (n lsr 1)) else XI (pos_of_int (n lsr 1))
let z_of_int n = if n = 0 then Z0 else if n > 0 then Zpos (pos_of_int n) else Zneg (pos_of_int (-n))
let rec int_of_pos = function XH -> 1 | XO p -> 2 * int_of_pos p | XI p -> 2 * int_of_pos p + 1
let int_of_z = function Z0 -> 0 | Zpos p -> int_of_pos p | Zneg p -> - (int_of_pos p)
let sz z = string_of_int (int_of_z z)
let snat n = string_of_int (int_of_nat n)
let join f l = String.concat "," (List.map f l)
let bools l = String.concat "" (List.map (fun b -> if b then "1" else "0") l)

let rec take n l = if n = 0 then [] else match l with [] -> [] | x :: t -> x :: take (n - 1) t
let rec drop n l = if n = 0 then l else match l with [] -> [] | _ :: t -> drop (n - 1) t
let rec chunks d l = match l with [] -> [] | _ -> take d l :: chunks d (drop d l)

(* the coded indicators of C14Ind.v; None = no model for this configuration *)
let fl_cd_lcs f a k =
  cd_lcs 0.0 max_float ( +. ) ( -. ) ( /. ) (fun (x : float) y -> x < y) (fun (x : float) y -> x = y)
    (cd_isort (fun (x : float) y -> x < y)) f a k
let fl_cd_dist f a =
  cd_distances 0.0 max_float ( +. ) ( -. ) ( /. ) (fun (x : float) y -> x = y)
    (cd_isort (fun (x : float) y -> x < y)) f a
let no_other _ _ = failwith "3-D/MD contribution routine is not modelled"
let own_lcs ind d useref refp (fz : z list list) (az : z list list) k =
  let tofl = List.map (List.map (fun v -> float_of_int (int_of_z v))) in
  match ind with
  | "E" -> Some (eps_lcs fz az k)
  | "C" -> Some (fl_cd_lcs (tofl fz) (tofl az) k)
  | "H" when d = 2 -> Some (hv_ind_lcs no_other (if useref then refp else []) fz az k)
  | _ -> None

let hexf (x : float) = if x <> x then "nan" else Printf.sprintf "%h" x

let distinct l = List.length (List.sort_uniq compare l) = List.length l

let () =
  let ic = open_in Sys.argv.(1) in
  (try
    while true do
      let l = input_line ic in
      let left, right = match String.index_opt l '|' with
        | Some i -> String.sub l 0 i, String.sub l (i + 1) (String.length l - i - 1)
        | None -> l, "" in
      let toks s = List.filter (fun x -> x <> "") (String.split_on_char ' ' s) in
      match toks left with
      | [] -> print_newline ()
      | "S" :: ind :: d :: n :: mu :: useref :: rest ->
        let d = int_of_string d and n = int_of_string n and mu = int_of_string mu in
        let ints = List.map int_of_string rest in
        let refp = List.map z_of_int (take d ints) in
        let pts = List.map (List.map z_of_int) (chunks d (drop d ints)) in
        assert (List.length pts = n);
        let dd = List.map int_of_string (toks right) in
        let oracle _ _ _ = List.map nat_of_int dd in
        let (r, o) = indicator_selection oracle pts (nat_of_int mu) in
        let k = int_of_nat o.o_K and fl = List.length o.o_front in
        let ovalid = List.length dd = k && distinct dd && List.for_all (fun x -> x >= 0 && x < fl) dd in
        let extra =
          if ind = "H" && useref = "1" then begin
            let fp = List.map (fun i -> List.nth pts (int_of_nat i)) o.o_front in
            let c = if fp = [] then [] else contribs_spec refp fp in
            let (_, o2) = indicator_selection (least_contributors (hv_lc refp)) pts (nat_of_int mu) in
            Printf.sprintf " contribs=%s own=%s" (join sz c) (bools o2.o_sel)
          end else "" in
        let nthp i = List.nth pts (int_of_nat i) in
        let mown = match own_lcs ind d (useref = "1") refp (List.map nthp o.o_front) (List.map nthp o.o_archive) o.o_K with
          | Some l -> " mown=" ^ join snat l | None -> "" in
        Printf.printf "ranks=%s sel=%s K=%d front=%s archive=%s ovalid=%d%s%s\n"
          (join snat r) (bools o.o_sel) k (join snat o.o_front) (join snat o.o_archive)
          (if ovalid then 1 else 0) mown extra
      | "I" :: ind :: d :: nf :: na :: k :: aux :: rest ->
        let d = int_of_string d and nf = int_of_string nf and na = int_of_string na
        and k = int_of_string k and aux = int_of_string aux in
        let nr = if ind = "N" then aux * d else d in
        let head = take nr rest and body = drop nr rest in
        let fs = chunks d (take (nf * d) body) and az = chunks d (drop (nf * d) body) in
        assert (List.length fs = nf && List.length az = na);
        let zs = List.map (List.map (fun x -> z_of_int (int_of_string x))) in
        let fls = List.map (List.map float_of_string) in
        (match ind with
         | "E" ->
           let f = zs fs in
           let eps = List.init nf (fun i -> match eps_result f (nat_of_int i) with None -> "inf" | Some v -> sz v) in
           Printf.printf "lcs=%s eps=%s\n" (join snat (eps_lcs f (zs az) (nat_of_int k))) (String.concat "," eps)
         | "H" when d = 2 ->
           let refp = if aux = 1 then List.map (fun x -> z_of_int (int_of_string x)) head else [] in
           Printf.printf "lcs=%s\n" (join snat (hv_ind_lcs no_other refp (zs fs) (zs az) (nat_of_int k)))
         | "C" ->
           let f = fls fs and a = fls az in
           Printf.printf "lcs=%s dist=%s\n" (join snat (fl_cd_lcs f a (nat_of_int k)))
             (join (Printf.sprintf "%h") (fl_cd_dist f a))
         | "N" ->
           let f = fls fs and a = fls az in
           let zr = List.map (n3_unit 0.0 ( +. ) ( *. ) ( /. ) sqrt) (chunks d (List.map float_of_string head)) in
           let lt (x : float) y = x < y in
           let solve _ = match toks right with
             | ["none"] -> None
             | ws -> Some (List.map float_of_string ws) in
           let l = nsga3_lcs 0.0 1.0 max_float 0.00001 ( +. ) ( -. ) ( *. ) ( /. ) lt solve zr f a (nat_of_int k) in
           let corners = n3_corners 0.0 1.0 max_float 0.00001 ( +. ) ( -. ) ( *. ) lt (n3_translate ( -. ) lt (a @ f)) in
           Printf.printf "lcs=%s corners=%s\n" (join snat l) (join snat corners)
         | _ -> print_endline "NOMODEL")
      | "N" :: alg :: nobj :: mu :: n :: rest ->
        let nobj = int_of_string nobj and mu = int_of_string mu and n = int_of_string n in
        let pts = take n rest and vals = take n (drop n rest) and flags = take n (drop (2 * n) rest) in
        assert (List.length flags = n);
        let table = List.combine pts vals and ftable = List.combine pts flags in
        let f x = try List.assoc x table with Not_found -> "?" in            (* function.eval on the starting points *)
        let is1 m = (try List.assoc m.ipt ftable with Not_found -> "0") = "1" in
        let oracle = List.map (fun x -> nat_of_int (int_of_string x)) (toks right) in
        let mun = nat_of_int mu in
        let pop, size = match alg with
          | "MOCMA" -> mocma_init f pts mun oracle, mu
          | "SSMOCMA" -> ssmocma_init f is1 pts mun oracle, mu
          | "SMSEMOA" -> smsemoa_init f pts mun oracle, mu
          | "NSGA2" | "NSGA2C" | "NSGA2E" -> nsga2_init f pts mun oracle, mu
          | "NSGA3" -> nsga3_init f pts mun oracle, mu
          | "MOEAD" -> moead_init f pts mun oracle, mu
          | "RVEA" -> rvea_init f (nat_of_int nobj) pts mun oracle, int_of_nat (rvea_mu (nat_of_int nobj) mun)
          | _ -> failwith "unknown algorithm" in
        let ok = oracle_ok (nat_of_int n) (nat_of_int size) oracle in
        Printf.printf "pop=%s sol=%s ok=%d mu=%d\n"
          (String.concat ";" (List.map (fun m -> m.ipt ^ ":" ^ m.ipen ^ ":" ^ m.iunp) pop))
          (String.concat ";" (List.map (fun (x, v) -> x ^ ":" ^ v) (init_solution pop)))
          (if ok then 1 else 0) size
      | "X" :: n :: prob :: nc :: rest ->
        let n = int_of_string n and prob = float_of_string prob and nc = float_of_string nc in
        let v = List.map float_of_string rest in
        let lo = take n v and hi = take n (drop n v) and p1 = take n (drop (2 * n) v) and p2 = take n (drop (3 * n) v) in
        let us = List.map float_of_string (toks right) in
        let lt (x : float) y = x < y in
        let expp = nc +. 1. in
        let ((c1, c2), us') = sbx 0.0 1.0 2.0 0.5 1E-7 ( +. ) ( -. ) ( *. ) ( /. ) abs_float ( ** ) lt (-. expp) (1.0 /. expp)
            prob lo hi p1 p2 us in
        Printf.printf "c1=%s c2=%s used=%d\n" (join hexf c1) (join hexf c2) (List.length us - List.length us')
      | "M" :: n :: prob :: nm :: _seed :: rest ->
        let n = int_of_string n and prob = float_of_string prob and nm = float_of_string nm in
        let v = List.map float_of_string rest in
        let lo = take n v and hi = take n (drop n v) and p = take n (drop (2 * n) v) in
        let us = List.map float_of_string (toks right) in
        let lt (x : float) y = x < y in
        let (c, us') = pm 0.0 1.0 2.0 0.5 ( +. ) ( -. ) ( *. ) ( /. ) ( ** ) lt (nm +. 1.) (1.0 /. (nm +. 1.0)) (fun (x : float) y -> x = y) prob lo hi p us in
        Printf.printf "c=%s used=%d\n" (join hexf c) (List.length us - List.length us')
      | "T" :: n :: _k :: _seed :: rest ->
        let ranks = Array.of_list (List.map int_of_string rest) in
        ignore n;
        let better i j = ranks.(int_of_nat i) < ranks.(int_of_nat j) in
        let drawn = List.map (fun x -> nat_of_int (int_of_float (float_of_string x))) (toks right) in
        Printf.printf "idx=%d\n" (int_of_nat (tournament better drawn))
      | "L" :: n :: mu :: rest ->
        let n = int_of_string n and mu = int_of_string mu in
        let ranks = Array.of_list (List.map int_of_string rest) in
        let key i = nat_of_int ranks.(int_of_nat i) in
        let srt = pos_isort key in
        let sel = elitist srt (nat_of_int n) (nat_of_int mu) in
        let order = srt (List.init n nat_of_int) in
        Printf.printf "sel=%s out=%s\n" (bools sel) (if mu < n then join snat (take mu order) else "-")
      | "U" :: alg :: ind :: d :: mu :: lam :: useref :: rest ->
        let d = int_of_string d and mu = int_of_string mu and lam = int_of_string lam in
        let ints = List.map int_of_string rest in
        let refp = List.map z_of_int (take d ints) in
        let vals = chunks d (drop d ints) in
        assert (List.length vals = mu + lam);
        let mk k v = { sp = [z_of_int k]; pen = List.map z_of_int v;
                       unp = List.map (fun x -> z_of_int (if k < mu then x else x + 100)) v } in
        let inds = List.mapi mk vals in
        let parents = take mu inds and offspring = drop mu inds in
        let lcs f a k = match own_lcs ind d (useref = "1") refp f a k with
          | Some l -> l | None -> failwith "no model for this indicator" in
        let res = match alg with
          | "N2" | "MO" -> gen_update lcs (nat_of_int mu) parents offspring
          | _ -> ss_update lcs (nat_of_int mu) parents (List.hd offspring) in
        let tag i = int_of_z (List.hd i.sp) in
        let order = List.map tag res in
        let sorted = List.sort compare res |> List.sort (fun a b -> compare (tag a) (tag b)) in
        Printf.printf "pop=%s order=%s best=%s\n"
          (String.concat "," (List.map string_of_int (List.sort compare order)))
          (String.concat "," (List.map string_of_int order))
          (String.concat ";" (List.map (fun i -> Printf.sprintf "%d:%s" (tag i) (join sz i.unp)) sorted))
      | "P" :: d :: lo :: hi :: alpha :: m :: xs ->
        let d = int_of_string d in
        let lo = z_of_int (int_of_string lo) and hi = z_of_int (int_of_string hi) in
        let los = List.init d (fun _ -> lo) and his = List.init d (fun _ -> hi) in
        let s = List.map (fun x -> z_of_int (int_of_string x)) xs in
        let f x =
          let xi = List.map int_of_z x in
          [z_of_int (List.fold_left (fun a v -> a + v * v) 0 xi);
           z_of_int (List.fold_left (fun a v -> a + (v - 2) * (v - 2)) 0 xi)] in
        let (unp, pen) = penalized_eval f (box_feasible los his) (box_closest los his)
            (z_of_int (int_of_string alpha)) (nat_of_int (int_of_string m - 1)) s in
        Printf.printf "unp=%s pen=%s feas=%d\n" (join sz unp) (join sz pen)
          (if box_feasible los his s then 1 else 0)
      | _ -> print_endline "BAD"
    done
  with End_of_file -> ())
