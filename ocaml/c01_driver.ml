(* Driver for the extracted C01 model (remora expressions over Z).
   Input file, one item per line:
     D v <name> <n>            declare dense vector container <name> (printed after every statement)
     D m <name> <r> <c>        declare dense matrix container
     S <s-expression>          a statement, constructors exactly as in C01Model.v, e.g.
                               (SAssignV false OpAdd (VRange (VVar 0 4) 0 2) (VScale 2 (VVar 1 2)))
     O <s-expression>          one application of the rewrite table C01Opt.v (fx = true, fuel 64) in the current store:
                               (opt_vrange e a b) (opt_mtrans m) (opt_mrow m i) (opt_mdiag m) (opt_mrange m a b c d)
                               (opt_mrows m a b) (opt_vscale c e) (opt_mscale c m) (opt_mvprod m v) (opt_mmprod m1 m2)
                               (opt_vunary e g) (opt_munary m g) (opt_fold_set colmajor k g m);
                               output line "O <resulting term as s-expression>"
   Output: one line per S line:  "<k> ok|REJECT r=<reduction value or -> | v0=1,2,3 m1=2x2:1,2,3,4 ..."
   REJECT = stmt_ok is false (ill-shaped / not an lvalue / noalias with the target on the right):
   the store is left unchanged. *)
open C01_model

let rec nat_of_int n = if n <= 0 then O else S (nat_of_int (n - 1))
let rec int_of_nat = function O -> 0 | S n -> 1 + int_of_nat n

let rec pos_of_int n = if n = 1 then XH else if n land 1 = 0 then XO (pos_of_int (n lsr 1)) else XI (pos_of_int (n lsr 1))
let z_of_int n = if n = 0 then Z0 else if n > 0 then Zpos (pos_of_int n) else Zneg (pos_of_int (-n))
(* exact printing of arbitrarily large Z as decimal via strings is not needed: the generator keeps
   every value below 2^53; we still detect overflow of the OCaml int *)
let rec int_of_pos = function
  | XH -> 1
  | XO p -> let v = int_of_pos p in if v > max_int / 2 then failwith "overflow" else 2 * v
  | XI p -> let v = int_of_pos p in if v > (max_int - 1) / 2 then failwith "overflow" else 2 * v + 1
let string_of_z = function
  | Z0 -> "0"
  | Zpos p -> (try string_of_int (int_of_pos p) with Failure _ -> "BIG")
  | Zneg p -> (try "-" ^ string_of_int (int_of_pos p) with Failure _ -> "-BIG")

type sx = A of string | L of sx list

let tokenize s =
  let b = Buffer.create 16 and out = ref [] in
  let flush () = if Buffer.length b > 0 then (out := Buffer.contents b :: !out; Buffer.clear b) in
  String.iter (fun c -> match c with
    | '(' | ')' -> flush (); out := String.make 1 c :: !out
    | ' ' | '\t' | '\r' -> flush ()
    | c -> Buffer.add_char b c) s;
  flush (); List.rev !out

let parse toks =
  let rec one = function
    | "(" :: rest -> let (items, rest) = many rest in (L items, rest)
    | ")" :: _ -> failwith "unexpected )"
    | a :: rest -> (A a, rest)
    | [] -> failwith "eof"
  and many = function
    | ")" :: rest -> ([], rest)
    | toks -> let (x, rest) = one toks in let (xs, rest) = many rest in (x :: xs, rest)
  in
  let (x, rest) = one toks in
  if rest <> [] then failwith "trailing tokens"; x

let n = function A a -> nat_of_int (int_of_string a) | _ -> failwith "nat expected"
let z = function A a -> z_of_int (int_of_string a) | _ -> failwith "Z expected"
let b = function A "true" -> true | A "false" -> false | _ -> failwith "bool expected"

let rec ufun = function
  | A "FId" -> FId | A "FAbs" -> FAbs | A "FSqr" -> FSqr
  | L [A "FMulScalar"; c] -> FMulScalar (z c)
  | L [A "FCompose"; f; g] -> FCompose (ufun f, ufun g)
  | _ -> failwith "ufun"
let rec bfun = function
  | A "BMul" -> BMul | A "BMin" -> BMin | A "BMax" -> BMax
  | L [A "BCompose"; f; g] -> BCompose (bfun f, ufun g)
  | _ -> failwith "bfun"
let fkind = function A "KSum" -> KSum | A "KMax" -> KMax | A "KMin" -> KMin | _ -> failwith "fkind"

let rec vexp = function
  | L [A "VVar"; x; k] -> VVar (n x, n k)
  | L [A "VRange"; e; a; c] -> VRange (vexp e, n a, n c)
  | L [A "VRow"; m; i] -> VRow (mexp m, n i)
  | L [A "VCol"; m; j] -> VCol (mexp m, n j)
  | L [A "VDiag"; m] -> VDiag (mexp m)
  | L [A "VConst"; k; c] -> VConst (n k, z c)
  | L [A "VUnit"; k; i; c] -> VUnit (n k, z i, z c)
  | L [A "VScale"; c; e] -> VScale (z c, vexp e)
  | L [A "VAdd"; e1; e2] -> VAdd (vexp e1, vexp e2)
  | L [A "VMinus"; e1; e2] -> VMinus (vexp e1, vexp e2)
  | L [A "VUn"; f; e] -> VUn (ufun f, vexp e)
  | L [A "VBin"; g; e1; e2] -> VBin (bfun g, vexp e1, vexp e2)
  | L [A "VMv"; al; m; e] -> VMv (z al, mexp m, vexp e)
  | L [A "VFold"; k; g; m] -> VFold (fkind k, ufun g, mexp m)
  | L [A "VConcat"; e1; e2] -> VConcat (vexp e1, vexp e2)
  | _ -> failwith "vexp"
and mexp = function
  | L [A "MVar"; x; r; c] -> MVar (n x, n r, n c)
  | L [A "MTrans"; m] -> MTrans (mexp m)
  | L [A "MRange"; m; a; b'; c; d] -> MRange (mexp m, n a, n b', n c, n d)
  | L [A "MRows"; m; a; c] -> MRows (mexp m, n a, n c)
  | L [A "MCols"; m; a; c] -> MCols (mexp m, n a, n c)
  | L [A "MConst"; r; c; t] -> MConst (n r, n c, z t)
  | L [A "MDiagM"; e] -> MDiagM (vexp e)
  | L [A "MScale"; c; m] -> MScale (z c, mexp m)
  | L [A "MAdd"; m1; m2] -> MAdd (mexp m1, mexp m2)
  | L [A "MMinus"; m1; m2] -> MMinus (mexp m1, mexp m2)
  | L [A "MUn"; f; m] -> MUn (ufun f, mexp m)
  | L [A "MBin"; g; m1; m2] -> MBin (bfun g, mexp m1, mexp m2)
  | L [A "MOuter"; e1; e2] -> MOuter (vexp e1, vexp e2)
  | L [A "MProd"; al; m1; m2] -> MProd (z al, mexp m1, mexp m2)
  | L [A "MRepeat"; cm; e; k] -> MRepeat (b cm, vexp e, n k)
  | L [A "MConcat"; rt; m1; m2] -> MConcat (b rt, mexp m1, mexp m2)
  | L [A "MTri"; up; un; m] -> MTri (b up, b un, mexp m)
  | _ -> failwith "mexp"

let sexp = function
  | L [A "RSum"; e] -> RSum (vexp e) | L [A "RMax"; e] -> RMax (vexp e) | L [A "RMin"; e] -> RMin (vexp e)
  | L [A "RNorm1"; e] -> RNorm1 (vexp e) | L [A "RNormSqr"; e] -> RNormSqr (vexp e)
  | L [A "RNormInf"; e] -> RNormInf (vexp e)
  | L [A "RInner"; e1; e2] -> RInner (vexp e1, vexp e2)
  | L [A "RTrace"; m] -> RTrace (mexp m) | L [A "RMSum"; m] -> RMSum (mexp m)
  | L [A "RMMax"; m] -> RMMax (mexp m) | L [A "RMMin"; m] -> RMMin (mexp m)
  | L [A "RMNorm1"; m] -> RMNorm1 (mexp m) | L [A "RMNormInf"; m] -> RMNormInf (mexp m)
  | _ -> failwith "sexp"

let aop = function
  | A "OpSet" -> OpSet | A "OpAdd" -> OpAdd | A "OpSub" -> OpSub | A "OpMul" -> OpMul | A "OpDiv" -> OpDiv
  | _ -> failwith "aop"

let stmt = function
  | L [A "SAssignV"; na; o; t; e] -> SAssignV (b na, aop o, vexp t, vexp e)
  | L [A "SAssignM"; na; o; t; e] -> SAssignM (b na, aop o, mexp t, mexp e)
  | L [A "SScalarV"; o; t; c] -> SScalarV (aop o, vexp t, z c)
  | L [A "SScalarM"; o; t; c] -> SScalarM (aop o, mexp t, z c)
  | L [A "SSetV"; x; i; c] -> SSetV (n x, n i, z c)
  | L [A "SSetM"; x; i; j; c] -> SSetM (n x, n i, n j, z c)
  | L [A "SReduce"; r] -> SReduce (sexp r)
  | _ -> failwith "stmt"

(* ---- printer (inverse of the parser above; same spelling as tools/c01_gen.py: sx) *)
let pn x = string_of_int (int_of_nat x)
let pb x = if x then "true" else "false"
let rec p_ufun = function
  | FId -> "FId" | FAbs -> "FAbs" | FSqr -> "FSqr"
  | FMulScalar c -> "(FMulScalar " ^ string_of_z c ^ ")"
  | FCompose (f, g) -> "(FCompose " ^ p_ufun f ^ " " ^ p_ufun g ^ ")"
let rec p_bfun = function
  | BMul -> "BMul" | BMin -> "BMin" | BMax -> "BMax"
  | BCompose (f, g) -> "(BCompose " ^ p_bfun f ^ " " ^ p_ufun g ^ ")"
let p_fkind = function KSum -> "KSum" | KMax -> "KMax" | KMin -> "KMin"
let cat l = "(" ^ String.concat " " l ^ ")"
let rec p_vexp = function
  | VVar (x, k) -> cat ["VVar"; pn x; pn k]
  | VRange (e, a, c) -> cat ["VRange"; p_vexp e; pn a; pn c]
  | VRow (m, i) -> cat ["VRow"; p_mexp m; pn i]
  | VCol (m, j) -> cat ["VCol"; p_mexp m; pn j]
  | VDiag m -> cat ["VDiag"; p_mexp m]
  | VConst (k, c) -> cat ["VConst"; pn k; string_of_z c]
  | VUnit (k, i, c) -> cat ["VUnit"; pn k; string_of_z i; string_of_z c]
  | VScale (c, e) -> cat ["VScale"; string_of_z c; p_vexp e]
  | VAdd (e1, e2) -> cat ["VAdd"; p_vexp e1; p_vexp e2]
  | VMinus (e1, e2) -> cat ["VMinus"; p_vexp e1; p_vexp e2]
  | VUn (f, e) -> cat ["VUn"; p_ufun f; p_vexp e]
  | VBin (g, e1, e2) -> cat ["VBin"; p_bfun g; p_vexp e1; p_vexp e2]
  | VMv (al, m, e) -> cat ["VMv"; string_of_z al; p_mexp m; p_vexp e]
  | VFold (k, g, m) -> cat ["VFold"; p_fkind k; p_ufun g; p_mexp m]
  | VConcat (e1, e2) -> cat ["VConcat"; p_vexp e1; p_vexp e2]
and p_mexp = function
  | MVar (x, r, c) -> cat ["MVar"; pn x; pn r; pn c]
  | MTrans m -> cat ["MTrans"; p_mexp m]
  | MRange (m, a, b', c, d) -> cat ["MRange"; p_mexp m; pn a; pn b'; pn c; pn d]
  | MRows (m, a, c) -> cat ["MRows"; p_mexp m; pn a; pn c]
  | MCols (m, a, c) -> cat ["MCols"; p_mexp m; pn a; pn c]
  | MConst (r, c, t) -> cat ["MConst"; pn r; pn c; string_of_z t]
  | MDiagM e -> cat ["MDiagM"; p_vexp e]
  | MScale (c, m) -> cat ["MScale"; string_of_z c; p_mexp m]
  | MAdd (m1, m2) -> cat ["MAdd"; p_mexp m1; p_mexp m2]
  | MMinus (m1, m2) -> cat ["MMinus"; p_mexp m1; p_mexp m2]
  | MUn (f, m) -> cat ["MUn"; p_ufun f; p_mexp m]
  | MBin (g, m1, m2) -> cat ["MBin"; p_bfun g; p_mexp m1; p_mexp m2]
  | MOuter (e1, e2) -> cat ["MOuter"; p_vexp e1; p_vexp e2]
  | MProd (al, m1, m2) -> cat ["MProd"; string_of_z al; p_mexp m1; p_mexp m2]
  | MRepeat (cm, e, k) -> cat ["MRepeat"; pb cm; p_vexp e; pn k]
  | MConcat (rt, m1, m2) -> cat ["MConcat"; pb rt; p_mexp m1; p_mexp m2]
  | MTri (up, un, m) -> cat ["MTri"; pb up; pb un; p_mexp m]

(* one application of the rewrite table as repaired (fx = true) in store s *)
let fuel = nat_of_int 64
let optimize s = function
  | L [A "opt_vrange"; e; a; c] -> p_vexp (opt_vrange true s fuel (vexp e) (n a) (n c))
  | L [A "opt_mtrans"; m] -> p_mexp (opt_mtrans true s fuel (mexp m))
  | L [A "opt_mrow"; m; i] -> p_vexp (opt_mrow true s fuel (mexp m) (n i))
  | L [A "opt_mdiag"; m] -> p_vexp (opt_mdiag true s fuel (mexp m))
  | L [A "opt_mrange"; m; a; b'; c; d] -> p_mexp (opt_mrange true s fuel (mexp m) (n a) (n b') (n c) (n d))
  | L [A "opt_mrows"; m; a; c] -> p_mexp (opt_mrows true s fuel (mexp m) (n a) (n c))
  | L [A "opt_vscale"; c; e] -> p_vexp (opt_vscale true s fuel (z c) (vexp e))
  | L [A "opt_mscale"; c; m] -> p_mexp (opt_mscale true s fuel (z c) (mexp m))
  | L [A "opt_mvprod"; m; v] -> p_vexp (opt_mvprod true s fuel (mexp m) (vexp v))
  | L [A "opt_mmprod"; m1; m2] -> p_mexp (opt_mmprod true s fuel (mexp m1) (mexp m2))
  | L [A "opt_vunary"; e; g] -> p_vexp (opt_vunary (vexp e) (ufun g))
  | L [A "opt_munary"; m; g] -> p_mexp (opt_munary (mexp m) (ufun g))
  | L [A "opt_fold_set"; cm; k; g; m] -> p_vexp (opt_fold_set true s fuel (b cm) (fkind k) (ufun g) (mexp m))
  | _ -> failwith "optimize"

type decl = DV of int * int | DM of int * int * int

(* re-tabulate the store on the declared containers (keeps closure chains short; identity on every
   declared cell, 0 elsewhere exactly as in empty_env) *)
let normalise decls s =
  let vt = Hashtbl.create 16 and mt = Hashtbl.create 16 in
  List.iter (function
    | DV (x, k) -> Hashtbl.replace vt x (Array.init k (fun i -> s.ev (nat_of_int x) (nat_of_int i)))
    | DM (x, r, c) -> Hashtbl.replace mt x (Array.init r (fun i -> Array.init c (fun j -> s.em (nat_of_int x) (nat_of_int i) (nat_of_int j))))) decls;
  { ev = (fun x i -> match Hashtbl.find_opt vt (int_of_nat x) with
      | Some a -> let i = int_of_nat i in if i < Array.length a then a.(i) else Z0
      | None -> Z0);
    em = (fun x i j -> match Hashtbl.find_opt mt (int_of_nat x) with
      | Some a -> let i = int_of_nat i and j = int_of_nat j in
        if i < Array.length a && j < Array.length a.(i) then a.(i).(j) else Z0
      | None -> Z0) }

let dump decls s =
  String.concat " " (List.map (function
    | DV (x, k) -> Printf.sprintf "v%d=%s" x (String.concat "," (List.init k (fun i -> string_of_z (s.ev (nat_of_int x) (nat_of_int i)))))
    | DM (x, r, c) -> Printf.sprintf "m%d=%dx%d:%s" x r c (String.concat "," (List.concat (List.init r (fun i -> List.init c (fun j -> string_of_z (s.em (nat_of_int x) (nat_of_int i) (nat_of_int j))))))))
    decls)

let () =
  let ic = open_in Sys.argv.(1) in
  let decls = ref [] and st = ref empty_env and k = ref 0 in
  let pending = ref [] in
  (* quiet element sets `Q SSetV x i c` / `Q SSetM A i j c` establish the INITIAL store of the big-shape shards (thousands
     of cells): they are written straight into the tables that `normalise` builds (same effect as exec of SSetV / SSetM,
     which is wr; going through 10^4 nested closures of the extracted wr would take minutes) *)
  let flush_pending () =
    if !pending <> [] then begin
      let l = List.rev !pending in pending := [];
      let s0 = normalise !decls !st in
      let vo = Hashtbl.create 1024 and mo = Hashtbl.create 1024 in
      List.iter (function
        | SSetV (x, i, c) -> Hashtbl.replace vo (int_of_nat x, int_of_nat i) c
        | SSetM (x, i, j, c) -> Hashtbl.replace mo (int_of_nat x, int_of_nat i, int_of_nat j) c
        | _ -> ()) l;
      st := normalise !decls
        { ev = (fun x i -> match Hashtbl.find_opt vo (int_of_nat x, int_of_nat i) with Some c -> c | None -> s0.ev x i);
          em = (fun x i j -> match Hashtbl.find_opt mo (int_of_nat x, int_of_nat i, int_of_nat j) with Some c -> c | None -> s0.em x i j) }
    end in
  (try
    while true do
      let l = input_line ic in
      if String.length l > 2 && l.[0] = 'D' then begin
        match List.filter (fun x -> x <> "") (String.split_on_char ' ' l) with
        | ["D"; "v"; x; sz] -> decls := !decls @ [DV (int_of_string x, int_of_string sz)]
        | ["D"; "m"; x; r; c] -> decls := !decls @ [DM (int_of_string x, int_of_string r, int_of_string c)]
        | _ -> failwith ("bad declaration " ^ l)
      end else if String.length l > 2 && l.[0] = 'Q' then begin
        (match List.filter (fun x -> x <> "") (String.split_on_char ' ' l) with
         | ["Q"; "SSetV"; x; i; c] -> pending := SSetV (nat_of_int (int_of_string x), nat_of_int (int_of_string i), z_of_int (int_of_string c)) :: !pending
         | ["Q"; "SSetM"; x; i; j; c] -> pending := SSetM (nat_of_int (int_of_string x), nat_of_int (int_of_string i), nat_of_int (int_of_string j), z_of_int (int_of_string c)) :: !pending
         | _ -> failwith ("bad quiet statement " ^ l))
      end else if String.length l > 2 && l.[0] = 'O' then begin
        flush_pending ();
        Printf.printf "O %s\n" (optimize !st (parse (tokenize (String.sub l 1 (String.length l - 1)))))
      end else if String.length l > 2 && l.[0] = 'S' then begin
        flush_pending ();
        let s = stmt (parse (tokenize (String.sub l 1 (String.length l - 1)))) in
        if not (stmt_ok s) then Printf.printf "%d REJECT r=- | %s\n" !k (dump !decls !st)
        else begin
          let red = match s with SReduce r -> string_of_z (seval !st r) | _ -> "-" in
          st := normalise !decls (exec !st s);
          Printf.printf "%d ok r=%s | %s\n" !k red (dump !decls !st)
        end;
        incr k
      end
    done
  with End_of_file -> ())
