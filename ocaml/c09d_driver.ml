(* Driver for the derived-matrix model (C09Derived.v).
   D n | G0 (n*n ints) | diag (n ints) | labels (n ints)      new case
   F i j        flip on all n-sized matrices          G i j     flip on the 2n-sized block matrix *)
open C09d_model
let rec nat_of_int n = if n <= 0 then O else S (nat_of_int (n - 1))
let rec int_of_nat = function O -> 0 | S n -> 1 + int_of_nat n
let rec pos_of_int n = if n = 1 then XH else if n land 1 = 0 then XO (pos_of_int (n / 2)) else XI (pos_of_int (n / 2))
let z_of_int n = if n = 0 then Z0 else if n > 0 then Zpos (pos_of_int n) else Zneg (pos_of_int (-n))
let rec int_of_pos = function XH -> 1 | XO p -> 2 * int_of_pos p | XI p -> 2 * int_of_pos p + 1
let int_of_z = function Z0 -> 0 | Zpos p -> int_of_pos p | Zneg p -> - (int_of_pos p)

let () =
  let ic = open_in Sys.argv.(1) in
  let n = ref 0 and g0 = ref [||] in
  let s = ref (dinit O [] []) and blk = ref (dinit O [] []) and pm = ref [] in
  let k0 a b = z_of_int (!g0.(int_of_nat a * !n + int_of_nat b)) in
  let mat e sz = String.concat "," (List.concat (List.init sz (fun i -> List.init sz (fun j -> string_of_int (int_of_z (e (nat_of_int i) (nat_of_int j))))))) in
  let dump () =
    let nn = !n in
    Printf.sprintf "X=%s K=%s R=%s M=%s P=%s B=%s rowR=%s"
      (mat (e_ex k0 !s) nn) (mat (e_kernel k0 !s) nn) (mat (e_reg k0 !s) nn) (mat (e_mod k0 (z_of_int 2) (z_of_int (-1)) !s) nn)
      (mat (m_entry !pm) nn) (mat (e_kernel k0 !blk) (2 * nn))
      (String.concat "," (List.map (fun z -> string_of_int (int_of_z z)) (d_row (e_reg k0) !s (nat_of_int (nn - 1)) O (nat_of_int nn)))) in
  (try while true do
      let l = input_line ic in
      let t = List.filter (fun x -> x <> "" && x <> "|") (String.split_on_char ' ' l) in
      match t with
      | [] -> print_newline ()
      | "D" :: ns :: rest ->
        n := int_of_string ns; let nn = !n in
        let a = Array.of_list (List.map int_of_string rest) in
        g0 := Array.sub a 0 (nn * nn);
        let diag = Array.to_list (Array.sub a (nn * nn) nn) and labs = Array.to_list (Array.sub a (nn * nn + nn) nn) in
        s := dinit (nat_of_int nn) (List.map z_of_int diag) (List.map nat_of_int labs);
        blk := { (dinit (nat_of_int (2 * nn)) [] []) with pos = List.init (2 * nn) (fun i -> nat_of_int (i mod nn)) };
        pm := m_of (nat_of_int nn) (fun i j -> k0 i j);
        Printf.printf "D %s\n" (dump ())
      | "F" :: i :: j :: _ ->
        let i = nat_of_int (int_of_string i) and j = nat_of_int (int_of_string j) in
        s := dflip i j !s; pm := m_flip i j !pm; Printf.printf "F %s\n" (dump ())
      | "G" :: i :: j :: _ ->
        let i = nat_of_int (int_of_string i) and j = nat_of_int (int_of_string j) in
        blk := dflip i j !blk; Printf.printf "G %s\n" (dump ())
      | "Q" :: k :: a :: b :: _ ->
        let r = d_row (e_reg k0) !s (nat_of_int (int_of_string k)) (nat_of_int (int_of_string a)) (nat_of_int (int_of_string b)) in
        Printf.printf "Q ret=%s\n" (String.concat "," (List.map (fun z -> string_of_int (int_of_z z)) r))
      | "V" :: k :: a :: b :: _ ->
        let r = d_row (e_kernel k0) !blk (nat_of_int (int_of_string k)) (nat_of_int (int_of_string a)) (nat_of_int (int_of_string b)) in
        Printf.printf "V ret=%s\n" (String.concat "," (List.map (fun z -> string_of_int (int_of_z z)) r))
      | "W" :: k :: e :: _ ->
        let r = d_row (e_reg k0) !s (nat_of_int (int_of_string k)) O (nat_of_int (int_of_string e)) in
        Printf.printf "W ret=%s\n" (String.concat "," (List.map (fun z -> string_of_int (int_of_z z)) r))
      | _ -> print_endline "?"
    done with End_of_file -> ())
