(* Driver for the extracted C18 vector-stream model (coq/theories/C18Text.v).
   Input lines:  S <text|bin> <seed> <len1_len2_...>
   Output line:  S <fmt> <seed> <lens> stream=<words joined by ',' | bytes in hex, '|' between the vectors> loaded=<0|1> lex=<0|1|-> early=<0|1>
     stream : save_vecs of the vectors (element j of the case is value seed j, as in harness/c18_rt_stream.cpp), one group per vector
     loaded : load_vecs of the whole stream into stale targets of other sizes gives back the vectors and leaves nothing over
     lex    : (text) tokenising the rendered character stream gives back the words
     early  : the early-return loader (seeded change C18-3) gives the same result as load_vec on this case
   The element codec is supplied here: text = C's "%.17e" (what Boost's text archive prints for a double),
   binary = the 8 bytes of the IEEE double, little endian. *)
open C18_model

let rec nat_of_int n = if n <= 0 then O else S (nat_of_int (n - 1))
let rec int_of_nat = function O -> 0 | S n -> 1 + int_of_nat n

(* Coq strings <-> OCaml strings (ExtrOcamlBasic leaves string/ascii as inductive types) *)
let bool_of_bit c i = (Char.code c lsr i) land 1 = 1
let coq_char c = Ascii (bool_of_bit c 0, bool_of_bit c 1, bool_of_bit c 2, bool_of_bit c 3,
                        bool_of_bit c 4, bool_of_bit c 5, bool_of_bit c 6, bool_of_bit c 7)
let ocaml_char (Ascii (b0, b1, b2, b3, b4, b5, b6, b7)) =
  let v b i = if b then 1 lsl i else 0 in
  Char.chr (v b0 0 + v b1 1 + v b2 2 + v b3 3 + v b4 4 + v b5 5 + v b6 6 + v b7 7)
let coq_string s = let r = ref EmptyString in
  for i = String.length s - 1 downto 0 do r := String (coq_char s.[i], !r) done; !r
let rec ocaml_string = function EmptyString -> "" | String (c, r) -> String.make 1 (ocaml_char c) ^ ocaml_string r

let value seed j =
  let k = ((seed + 3 * j) mod 17) - 8 in
  if j mod 3 = 1 then float_of_int k /. 10.0 +. 0.1 else float_of_int k /. 8.0

(* text element codec *)
let pr (x : float) = coq_string (Printf.sprintf "%.17e" x)
let pa s = match float_of_string_opt (ocaml_string s) with Some x -> Some x | None -> None

(* binary element codec: 8 bytes little endian, bytes as Coq nat *)
let benc (x : float) =
  let b = Int64.bits_of_float x in
  List.init 8 (fun i -> nat_of_int (Int64.to_int (Int64.logand (Int64.shift_right_logical b (8 * i)) 0xFFL)))
let bdec bs =
  let rec take n l acc = if n = 0 then Some (List.rev acc, l) else match l with [] -> None | x :: r -> take (n - 1) r (x :: acc) in
  match take 8 bs [] with
  | None -> None
  | Some (h, r) ->
    let v = List.fold_right (fun b acc -> Int64.logor (Int64.shift_left acc 8) (Int64.of_int (int_of_nat b))) h 0L in
    Some (Int64.float_of_bits v, r)

let same_vecs a b = List.length a = List.length b && List.for_all2 (fun x y ->
    List.length x = List.length y && List.for_all2 (fun (p : float) q -> Int64.bits_of_float p = Int64.bits_of_float q) x y) a b

let () =
  let ic = open_in Sys.argv.(1) in
  (try
    while true do
      let l = input_line ic in
      match List.filter (fun x -> x <> "") (String.split_on_char ' ' l) with
      | ["S"; fmt; seed; lens] ->
        let seed_i = int_of_string seed in
        let ls = List.map int_of_string (List.filter (fun x -> x <> "") (String.split_on_char '_' lens)) in
        let j = ref 0 in
        let vs = List.map (fun n -> List.init n (fun _ -> let x = value seed_i !j in incr j; x)) ls in
        let targets = List.map (fun n -> List.init ((n + 2) mod 4) (fun _ -> 99.0)) ls in
        if fmt = "text" then begin
          let groups = List.map (fun v -> List.map ocaml_string (text_save_vec pr v)) vs in
          let all = text_save_vecs pr vs in
          let flat = List.concat groups in
          let consistent = List.map ocaml_string all = flat in
          let loaded = match load_vecs text_dec_count (text_dec pa) 0.0 targets all with
            | Some (r, []) -> same_vecs r vs | _ -> false in
          let lexok = List.map ocaml_string (lex (render all)) = flat in
          let early = List.for_all2 (fun v t ->
              let s = text_save_vec pr v in
              match load_vec text_dec_count (text_dec pa) 0.0 t s, load_vec_early_return text_dec_count (text_dec pa) 0.0 t s with
              | Some (a, []), Some (b, []) -> same_vecs [a] [b] | _ -> false) vs targets in
          Printf.printf "S %s %s %s stream=%s loaded=%d lex=%d early=%d\n" fmt seed lens
            (String.concat "|" (List.map (String.concat ",") groups)) (if loaded && consistent then 1 else 0)
            (if lexok then 1 else 0) (if early then 1 else 0)
        end else begin
          let hex bs = String.concat "" (List.map (fun b -> Printf.sprintf "%02x" (int_of_nat b)) bs) in
          let groups = List.map (fun v -> save_vec bin_enc_count benc v) vs in
          let all = save_vecs bin_enc_count benc vs in
          let consistent = List.map int_of_nat all = List.map int_of_nat (List.concat groups) in
          let loaded = match load_vecs bin_dec_count bdec 0.0 targets all with
            | Some (r, []) -> same_vecs r vs | _ -> false in
          let early = List.for_all2 (fun v t ->
              let s = save_vec bin_enc_count benc v in
              match load_vec bin_dec_count bdec 0.0 t s, load_vec_early_return bin_dec_count bdec 0.0 t s with
              | Some (a, []), Some (b, []) -> same_vecs [a] [b] | _ -> false) vs targets in
          Printf.printf "S %s %s %s stream=%s loaded=%d lex=- early=%d\n" fmt seed lens
            (String.concat "|" (List.map hex groups)) (if loaded && consistent then 1 else 0) (if early then 1 else 0)
        end
      | _ -> ()
    done
  with End_of_file -> ())
