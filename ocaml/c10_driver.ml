(* Driver for the extracted C10 model (C10Model.v over Q).  Same case file as harness/c10_opt.cpp; one output
   line per input line.  Lines / configurations the model does not cover print "-".
     I <opt> <ls> <kind> <n> | A (n*n) | b (n) | x0 (n) | params | lower (n) | upper (n)
     S        one step
     W        save, restore (ls_restore (ls_save s)), continue with the restored state
   Numbers in: integers or p/q (decimal).  Numbers out: [-]hex/hex (exact rationals). *)
open C10_model

let rec nat_of_int n = if n <= 0 then O else S (nat_of_int (n - 1))
let rec int_of_nat = function O -> 0 | S n -> 1 + int_of_nat n
let rec pos_of_int n = if n = 1 then XH else if n land 1 = 0 then XO (pos_of_int (n / 2)) else XI (pos_of_int (n / 2))
let z_of_int n = if n = 0 then Z0 else if n > 0 then Zpos (pos_of_int n) else Zneg (pos_of_int (-n))
let rec pos_bits = function XH -> [1] | XO p -> 0 :: pos_bits p | XI p -> 1 :: pos_bits p   (* little endian *)
let pos_to_hex p =
  let rec nib = function
    | [] -> []
    | [a] -> [a]
    | [a; b] -> [a + 2 * b]
    | [a; b; c] -> [a + 2 * b + 4 * c]
    | a :: b :: c :: d :: r -> (a + 2 * b + 4 * c + 8 * d) :: nib r in
  String.concat "" (List.rev_map (Printf.sprintf "%x") (nib (pos_bits p)))
let z_to_hex = function Z0 -> "0" | Zpos p -> pos_to_hex p | Zneg p -> "-" ^ pos_to_hex p
let q_str x = let x = qred x in z_to_hex x.qnum ^ "/" ^ pos_to_hex x.qden
let v_str v = String.concat "," (List.map q_str v)

let parse_num s =
  match String.index_opt s '/' with
  | Some k -> qred { qnum = z_of_int (int_of_string (String.sub s 0 k));
                     qden = pos_of_int (int_of_string (String.sub s (k + 1) (String.length s - k - 1))) }
  | None -> { qnum = z_of_int (int_of_string s); qden = XH }

let split_groups toks =
  let rec go acc cur = function
    | [] -> List.rev (List.rev cur :: acc)
    | "|" :: r -> go (List.rev cur :: acc) [] r
    | t :: r -> go acc (t :: cur) r in
  go [] [] toks

let rec chunk n l = if l = [] then [] else
  let rec take k l = if k = 0 then ([], l) else match l with [] -> ([], []) | x :: r -> let (a, b) = take (k - 1) r in (x :: a, b) in
  let (a, b) = take n l in a :: chunk n b

type st =
  | NoModel
  | LsSd of unit ls_state
  | LsCg of nat ls_state
  | LsFirst of unit ls_state * int      (* BFGS / LBFGS: init and first step only *)
  | Sd of sd_state

let ls_str with_dir cnt s =
  Printf.sprintf "pt=%s val=%s der=%s%s step=%s lpt=%s lder=%s lval=%s%s"
    (v_str s.pt) (q_str s.val0) (v_str s.der)
    (if with_dir then " sdir=" ^ v_str s.sdir else "")
    (q_str s.step_len) (v_str s.last_pt) (v_str s.last_der) (q_str s.last_val)
    (match cnt with Some c -> Printf.sprintf " cnt=%d" c | None -> "")

let show = function
  | NoModel -> "-"
  | LsSd s -> ls_str true None s
  | LsCg s -> ls_str true (Some (int_of_nat s.extra)) s
  | LsFirst (s, k) -> if k <= 1 then ls_str false None s else "-"
  | Sd s -> Printf.sprintf "pt=%s val=%s" (v_str s.sd_pt) (q_str s.sd_val)

let unit_save (_ : unit) : field list = []
let unit_restore = function [] -> Some () | _ -> None

let () =
  let ic = open_in Sys.argv.(1) in
  let state = ref NoModel in
  let f = ref (fun (_ : vec) -> { qnum = Z0; qden = XH }) and g = ref (fun (x : vec) -> x) in
  (try while true do
    let line = input_line ic in
    let toks = List.filter (fun x -> x <> "") (String.split_on_char ' ' line) in
    let out =
      try
        (match toks with
         | "I" :: rest ->
           (match split_groups rest with
            | [[opt; ls; kind; ns]; al; bl; xl; pl; ll; ul] ->
              let n = int_of_string ns in
              if kind <> "quad" && kind <> "boxquad" then (state := NoModel; "-") else begin
                let a = chunk n (List.map parse_num al) and b = List.map parse_num bl and x0 = List.map parse_num xl in
                f := quad_f a b; g := quad_grad a b;
                let feas = if kind = "boxquad" then box_feasb_slack box_eps (List.map parse_num ll) (List.map parse_num ul) else (fun _ -> true) in
                let lsn = nat_of_int (int_of_string ls) in
                (match opt with
                 | "SDLS" when ls = "2" -> state := LsSd (ls_init !f !g feas sd_init_model lsn x0)
                 | "CG" when ls = "2" -> state := LsCg (ls_init !f !g feas cg_init_model lsn x0)
                 | ("BFGS" | "LBFGS") when ls = "2" -> state := LsFirst (ls_init !f !g feas sd_init_model lsn x0, 0)
                 | "SD" -> (match pl with
                     | [lr; mom] -> state := Sd (sd_init !f !g (parse_num lr) (parse_num mom) x0)
                     | _ -> state := NoModel)
                 | _ -> state := NoModel);
                show !state
              end
            | _ -> state := NoModel; "-")
         | ["S"] ->
           (match !state with
            | NoModel -> ()
            | LsSd s -> state := LsSd (ls_step !f !g sd_dir s)
            | LsCg s -> state := LsCg (ls_step !f !g cg_dir s)
            | LsFirst (s, k) -> state := LsFirst ((if k = 0 then ls_step !f !g sd_dir s else s), k + 1)
            | Sd s -> state := Sd (sd_step !f !g s));
           show !state
         | ["W"] ->
           (match !state with
            | NoModel -> "-"
            | LsSd s -> (match ls_restore unit_restore s (ls_save unit_save s) with
                | Some s' -> state := LsSd s'; show !state | None -> "RESTOREFAIL")
            | LsCg s -> (match ls_restore cg_restore_extra s (ls_save cg_save_extra s) with
                | Some s' -> state := LsCg s'; show !state | None -> "RESTOREFAIL")
            | LsFirst (s, k) -> show !state
            | Sd s -> (match sd_restore_full s (sd_save_full s) with
                | Some s' -> state := Sd s'; show !state | None -> "RESTOREFAIL"))
         | _ -> "?")
      with Failure _ | Not_found | Invalid_argument _ -> (state := NoModel; "-") in
    print_endline out
  done with End_of_file -> ())
