(* Driver for the extracted C10 model (C10Model.v over Q).  Same case file as harness/c10_opt.cpp; one output
   line per input line.  Lines / configurations the model does not cover print "-".
     I <opt> <ls> <kind> <n> | A (n*n) | b (n) | x0 (n) | params | lower (n) | upper (n)
     S        one step
     W        save, restore (ls_restore (ls_save s)), continue with the restored state
     L <ls> <n> <fk> <seed> <slope> <thr> | point | d | t0 | value | g | wolfecubic steps | dlinmin x0 | dlinmin us
              one call of the model's [linesearch] on the hooked objective of the harness (same hash, evaluated on the
              exact rationals, which are doubles); the three last groups are the ORACLE: the step lengths at which the
              real code evaluated the objective (tools/c10.py reads them from the harness' log)
     T <n> <kind> <rat> | A | b | pt | value delta ratio | grad | hess | trial value or - | value after | grad after | hess after
              ONE step of the trust-region Newton model (C10TrustRegion.v: tr_step = trustRegionCG + the radius / acceptance
              rule) from the state the real class reports (hex floats).  Double instance: the objective oracles return what
              the implementation's objective returned during that step (trial value of operator(), evalDerivative after an
              accepted step); rational instance (rat = 1, kind = quad): the exactly converted doubles, the objective
              1/2 x'Ax - b'x in exact arithmetic, sqrt = exact root where the argument is the square of a double, else the
              rounded double root (sqex = 0)
   Numbers in: integers, p/q (decimal) or m@e (= m * 2^e).  Numbers out: [-]hex/hex (exact rationals). *)
open C10_model


let rec nat_of_int n = if n <= 0 then O else S (nat_of_int (n - 1))
let rec int_of_nat = function O -> 0 | S n -> 1 + int_of_nat n
let rec pos_of_int n = if n = 1 then XH else if n land 1 = 0 then XO (pos_of_int (n / 2)) else XI (pos_of_int (n / 2))
let z_of_int n = if n = 0 then Z0 else if n > 0 then Zpos (pos_of_int n) else Zneg (pos_of_int (-n))
let rec pos_bits = function XH -> [1] | XO p -> 0 :: pos_bits p | XI p -> 1 :: pos_bits p   (* little endian *)
let pos_to_hex p =
  let rec nib = function
    | [] -> []
    | [a] -> [a]
    | [a; b] -> [a + 2 * b]
    | [a; b; c] -> [a + 2 * b + 4 * c]
    | a :: b :: c :: d :: r -> (a + 2 * b + 4 * c + 8 * d) :: nib r in
  String.concat "" (List.rev_map (Printf.sprintf "%x") (nib (pos_bits p)))
let z_to_hex = function Z0 -> "0" | Zpos p -> pos_to_hex p | Zneg p -> "-" ^ pos_to_hex p
let q_str x = let x = qred x in z_to_hex x.qnum ^ "/" ^ pos_to_hex x.qden
let v_str v = String.concat "," (List.map q_str v)

let rec shift_pos p e = if e <= 0 then p else shift_pos (XO p) (e - 1)
let parse_num s =
  match String.index_opt s '@' with
  | Some k ->
    let m = int_of_string (String.sub s 0 k) and e = int_of_string (String.sub s (k + 1) (String.length s - k - 1)) in
    if m = 0 then { qnum = Z0; qden = XH }
    else if e >= 0 then { qnum = (if m > 0 then Zpos (shift_pos (pos_of_int m) e) else Zneg (shift_pos (pos_of_int (-m)) e)); qden = XH }
    else qred { qnum = z_of_int m; qden = shift_pos XH (-e) }
  | None ->
  match String.index_opt s '/' with
  | Some k -> qred { qnum = z_of_int (int_of_string (String.sub s 0 k));
                     qden = pos_of_int (int_of_string (String.sub s (k + 1) (String.length s - k - 1))) }
  | None -> { qnum = z_of_int (int_of_string s); qden = XH }

let split_groups toks =
  let rec go acc cur = function
    | [] -> List.rev (List.rev cur :: acc)
    | "|" :: r -> go (List.rev cur :: acc) [] r
    | t :: r -> go acc (t :: cur) r in
  go [] [] toks

let rec chunk n l = if l = [] then [] else
  let rec take k l = if k = 0 then ([], l) else match l with [] -> ([], []) | x :: r -> let (a, b) = take (k - 1) r in (x :: a, b) in
  let (a, b) = take n l in a :: chunk n b

(* ---- the hooked objective of harness/c10_opt.cpp (struct Hooked), on exact rationals that are doubles ---- *)
let float_of_pos p = List.fold_left (fun acc b -> acc *. 2.0 +. float_of_int b) 0.0 (List.rev (pos_bits p))
let float_of_q x =
  let x = qred x in
  let n = match x.qnum with Z0 -> 0.0 | Zpos p -> float_of_pos p | Zneg p -> -. float_of_pos p in
  n /. float_of_pos x.qden
let mix h v =
  let v = if v = 0.0 then 0.0 else v in
  let b = Int64.bits_of_float v in
  let h = Int64.logxor h (Int64.add (Int64.add (Int64.add b 0x9E3779B97F4A7C15L) (Int64.shift_left h 6)) (Int64.shift_right_logical h 2)) in
  let h = Int64.mul h 0xff51afd7ed558ccdL in
  Int64.logxor h (Int64.shift_right_logical h 33)
let small num den = qred { qnum = z_of_int num; qden = pos_of_int den }
let hooked fk seed slope thr j dj =
  let hash x = List.fold_left (fun h q -> mix h (float_of_q q)) (Int64.add (Int64.mul seed 0x9E3779B97F4A7C15L) 0x1234567L) x in
  let tof x = qred (qdiv (List.nth x j) dj) in
  let lin x = fk = "M" && qle_bool (qabs (tof x)) thr in
  let f x =
    if lin x then qred (qmult (qopp slope) (tof x))
    else small (Int64.to_int (Int64.logand (Int64.shift_right_logical (hash x) 11) 0xFFL) - 128) 16 in
  let g x =
    if lin x then List.mapi (fun i _ -> if i = j then qred (qdiv (qopp slope) dj) else { qnum = Z0; qden = XH }) x
    else let h = hash x in
      List.mapi (fun i _ -> small (Int64.to_int (Int64.logand (Int64.shift_right_logical h (20 + 6 * i)) 0x3FL) - 32) 8) x in
  (f, g)

let line_search toks =
  match split_groups toks with
  | [[ls; ns; fk; seed; slope; thr]; pl; dl; [t0]; [value]; gl; wl; xl; ul] ->
    let point = List.map parse_num pl and d = List.map parse_num dl and g = List.map parse_num gl in
    let is_zero q = (qred q).qnum = Z0 in
    let rec first i = function [] -> (0, { qnum = Zpos XH; qden = XH }) | q :: r -> if is_zero q then first (i + 1) r else (i, q) in
    let (j, dj) = first 0 d in
    let (f, gr) = hooked fk (Int64.of_string seed) (parse_num slope) (parse_num thr) j dj in
    let trials = Array.of_list (List.map parse_num wl) in
    let used = ref 0 and flags = ref [] in
    let flag s = if not (List.mem s !flags) then flags := s :: !flags in
    let get i dflt = if i < Array.length trials then (used := max !used (i + 1); trials.(i)) else (flag "model-evaluates-more-than-the-code"; dflt) in
    let o = { o_wexp = (fun k q -> let i = int_of_nat k in let t = get i q in
                         if float_of_q q <> float_of_q t then flag (Printf.sprintf "expansion-%d-is-not-10t" i); t);
              o_wzoom = (fun it -> get (int_of_nat it - 1) { qnum = Zpos XH; qden = XH });
              o_dx0 = (match xl with [x] -> parse_num x | _ -> { qnum = Z0; qden = XH });
              o_dus = List.map parse_num ul } in
    used := min 1 (Array.length trials);
    (match linesearch f gr (nat_of_int (int_of_string ls)) o point d (parse_num value) g (parse_num t0) with
     | None -> "UNDEF"
     | Some ((p', v'), g') ->
       if ls = "1" && !used <> Array.length trials then flag (Printf.sprintf "model-evaluates-%d-steps-the-code-%d" !used (Array.length trials));
       Printf.sprintf "pt=%s val=%s der=%s flags=%s" (v_str p') (q_str v') (v_str g') (String.concat "," !flags))
  | _ -> "?"

(* ---- L-BFGS ---- *)
let lb_str (m : q glb_model) =
  Printf.sprintf " nh=%d bdiag=%s hk=%d hs=%s hy=%s" (int_of_nat m.lb_hist) (q_str m.lb_bdiag) (List.length m.lb_pairs)
    (String.concat "," (List.map (fun (s, _) -> v_str s) m.lb_pairs)) (String.concat "," (List.map (fun (_, y) -> v_str y) m.lb_pairs))

(* ---- the generic model functions of C10Gen.v instantiated with IEEE doubles ---- *)
let fops : float ops =
  { o_zero = 0.0; o_one = 1.0; o_add = ( +. ); o_sub = ( -. ); o_mul = ( *. ); o_div = ( /. ); o_neg = (fun x -> -. x);
    o_ltb = (fun a b -> a < b); o_eqb = (fun a b -> a = b); o_sqrt = sqrt; o_pow = (fun a k -> a ** float_of_int (int_of_nat k)) }
let f_str x = Printf.sprintf "%h" x
let fv_str v = String.concat "," (List.map f_str v)
let fnum s = float_of_string s

(* B <n> <nh> <box> | bdiag thres | hs (k*n) | hy (k*n) | y | s | g | l | u | x      (hex floats)
   ONE call of the model's updateHist + direction rule (g_update_hist, g_mult_binv / g_box_dir) on the implementation's
   own previous state (tools/c10.py builds the line from two consecutive state lines of the harness) *)
let lbfgs_replay toks =
  match split_groups toks with
  | [[ns; nh; box]; [bd; th]; hs; hy; yl; sl; gl; ll; ul; xl] ->
    let n = int_of_string ns in
    let v = List.map fnum in
    let pairs = List.combine (chunk n (v hs)) (chunk n (v hy)) in
    let m = { lb_hist = nat_of_int (int_of_string nh); lb_bdiag = fnum bd; lb_thres = fnum th; lb_pairs = pairs } in
    let y = v yl and s = v sl and g = v gl in
    let m' = g_update_hist fops m y s in
    let eps = 1e-13 in
    let d = if box = "1" then g_box_dir fops eps m'.lb_bdiag m'.lb_pairs (v ll) (v ul) (v xl) g
            else g_mult_binv fops m'.lb_bdiag m'.lb_pairs (gvneg fops g) in
    let branch = if box <> "1" then "free" else
        (match int_of_nat (g_box_branch fops eps m'.lb_bdiag m'.lb_pairs (v ll) (v ul) (v xl) g) with
         | 0 -> if List.exists not (g_mask fops eps (v ll) (v ul) (v xl) (gvneg fops g)) then "full+fixed" else "full"
         | 1 -> "cauchy" | _ -> "dogleg") in
    Printf.sprintf "nh=%d bdiag=%s hk=%d hs=%s hy=%s dir=%s branch=%s stored=%d" (int_of_nat m'.lb_hist) (f_str m'.lb_bdiag)
      (List.length m'.lb_pairs) (String.concat "," (List.map (fun (s, _) -> fv_str s) m'.lb_pairs))
      (String.concat "," (List.map (fun (_, y) -> fv_str y) m'.lb_pairs)) (fv_str d) branch
      (if fops.o_ltb m.lb_thres (gdot fops y s) then 1 else 0)
  | _ -> "?"

(* ---- Adam / Rprop: one step of the generic model (C10AdamRprop.v) from the implementation's own previous state; the
   objective oracles return the value / derivative the implementation reports AFTER the step ---- *)
(* A <n> | m1 | m2 | cnt | der | pt | b1 b2 eps eta | value after | derivative after *)
let adam_replay toks =
  match split_groups toks with
  | [[_]; m1; m2; [cnt]; der; pt; [b1; b2; eps; eta]; [pv]; pder] ->
    let v = List.map fnum in
    let s = { ad_avg = v m1; ad_sec = v m2; ad_cnt = nat_of_int (int_of_string cnt); ad_der = v der; ad_pt = v pt; ad_val = 0.0;
              ad_b1 = fnum b1; ad_b2 = fnum b2; ad_eps = fnum eps; ad_eta = fnum eta } in
    let s' = g_adam_step fops (fun _ -> fnum pv) (fun _ -> v pder) s in
    Printf.sprintf "pt=%s m1=%s m2=%s cnt=%d val=%s der=%s" (fv_str s'.ad_pt) (fv_str s'.ad_avg) (fv_str s'.ad_sec)
      (int_of_nat s'.ad_cnt) (f_str s'.ad_val) (fv_str s'.ad_der)
  | _ -> "?"

let q_of_float x =
  if x = 0.0 then { qnum = Z0; qden = XH } else
  let (m, e) = Float.frexp x in
  parse_num (Printf.sprintf "%Ld@%d" (Int64.of_float (Float.ldexp m 53)) (e - 53))

(* P <n> <box> | delta | deltaw | oder | oval | inc dec dmax dmin | pt | value | der | frz bt ov | l | u | value after | derivative after
   the float instance (same IEEE operations as the C++: bitwise equality expected) and the rational instance (q...) *)
let rprop_replay toks =
  match split_groups toks with
  | [[_; box]; delta; deltaw; oder; [oval]; [inc; dec; dmax; dmin]; pt; [value]; der; [frz; bt; ov]; ll; ul; [pv]; pder] ->
    let v = List.map fnum in
    let b x = x = "1" in
    let l = v ll and u = v ul in
    let rec inbox x l u = (match x, l, u with
        | xi :: x', li :: l', ui :: u' -> if xi +. 1e-13 < li || xi -. 1e-13 > ui then false else inbox x' l' u'
        | _, _, _ -> true) in
    let feas = if box = "1" then (fun x -> inbox x l u) else (fun _ -> true) in
    let s = { rp_delta = v delta; rp_deltaw = v deltaw; rp_oldder = v oder; rp_oldval = fnum oval; rp_inc = fnum inc; rp_dec = fnum dec;
              rp_dmax = fnum dmax; rp_dmin = fnum dmin; rp_size = nat_of_int (List.length pt); rp_pt = v pt; rp_val = fnum value;
              rp_der = v der; rp_frz = b frz; rp_bt = b bt; rp_ov = b ov } in
    let s' = g_rprop_step fops (fun _ -> fnum pv) (fun _ -> v pder) feas s in
    let qv = List.map (fun t -> q_of_float (fnum t)) in
    let qs = { rp_delta = qv delta; rp_deltaw = qv deltaw; rp_oldder = qv oder; rp_oldval = q_of_float (fnum oval); rp_inc = q_of_float (fnum inc);
               rp_dec = q_of_float (fnum dec); rp_dmax = q_of_float (fnum dmax); rp_dmin = q_of_float (fnum dmin);
               rp_size = nat_of_int (List.length pt); rp_pt = qv pt; rp_val = q_of_float (fnum value); rp_der = qv der;
               rp_frz = b frz; rp_bt = b bt; rp_ov = b ov } in
    let qfeas = if box = "1" then box_feasb_slack box_eps (qv ll) (qv ul) else (fun _ -> true) in
    let qs' = rprop_step (fun _ -> q_of_float (fnum pv)) (fun _ -> qv pder) qfeas qs in
    let qf x = fv_str (List.map float_of_q x) in
    Printf.sprintf "pt=%s delta=%s deltaw=%s oder=%s oval=%s val=%s der=%s qpt=%s qdelta=%s qdeltaw=%s qoder=%s"
      (fv_str s'.rp_pt) (fv_str s'.rp_delta) (fv_str s'.rp_deltaw) (fv_str s'.rp_oldder) (f_str s'.rp_oldval) (f_str s'.rp_val) (fv_str s'.rp_der)
      (qf qs'.rp_pt) (qf qs'.rp_delta) (qf qs'.rp_deltaw) (qf qs'.rp_oldder)
  | _ -> "?"

(* ---- trust-region Newton: one step of tr_step from the implementation's own state ---- *)
(* float of a positive from its 62 leading bits (exact for numbers with at most 53 significant bits, never overflows) *)
let float_exp_of_pos p =
  let bits = List.rev (pos_bits p) in                    (* most significant first *)
  let rec take k l acc = if k = 0 then (acc, List.length l) else match l with [] -> (acc, 0) | b :: r -> take (k - 1) r (acc *. 2.0 +. float_of_int b) in
  take 62 bits 0.0
let float_of_q_scaled x =
  let x = qred x in
  match x.qnum with
  | Z0 -> 0.0
  | Zpos p | Zneg p ->
    let (mn, en) = float_exp_of_pos p and (md, ed) = float_exp_of_pos x.qden in
    let r = Float.ldexp (mn /. md) (en - ed) in
    (match x.qnum with Zneg _ -> -. r | _ -> r)
let sq_inexact = ref false
let q_sqrt x =
  let r = q_of_float (sqrt (float_of_q_scaled x)) in
  if not (qeq_bool (qmult r r) x) then sq_inexact := true;
  r
let tr_exit_name = function 0 -> "tol0" | 1 -> "negcurv" | 2 -> "border" | 3 -> "tol" | _ -> "limit"
let tr_replay toks =
  match split_groups toks with
  | [[ns; kind; rat]; al; bl; pt; [value; delta; ratio]; grad; hess; [tval]; [pv]; pgrad; phess] ->
    let n = int_of_string ns in
    let v = List.map fnum in
    let s = { tr_pt = v pt; tr_val = fnum value; tr_delta = fnum delta; tr_ratio = fnum ratio; tr_grad = v grad; tr_hess = chunk n (v hess) } in
    let f = (fun _ -> if tval = "-" then nan else fnum tval) in
    let fd = (fun _ -> ((fnum pv, v pgrad), chunk n (v phess))) in
    let le (a : float) (b : float) = a <= b in
    let ((r, rho), acc) = tr_step_info fops le f s in
    let s' = tr_step fops le 0.99 f fd s in
    let trial = List.map2 ( +. ) s.tr_pt r.cg_step in
    (* the same step with the coordinates permuted (reversed; rotated by n/2 + 1): the same problem, every sum of the model
       accumulated in another order.  [spread] = how far the CG step moves under a change of the summation order alone *)
    let perm_solve (pf : float list -> float list) (pfm : float list list -> float list list) (inv : float list -> float list) =
      let sp = { s with tr_pt = pf s.tr_pt; tr_grad = pf s.tr_grad; tr_hess = pfm (List.map pf s.tr_hess) } in
      let rp = tr_solve fops le sp in
      (List.fold_left2 (fun a x y -> Float.max a (Float.abs (x -. y))) 0.0 r.cg_step (inv rp.cg_step), rp) in
    let rot k l = let rec go i acc = function [] -> (List.rev acc, []) | x :: t -> if i = 0 then (List.rev acc, x :: t) else go (i - 1) (x :: acc) t in
      let (a, b) = go k [] l in b @ a in
    let kk = if n <= 1 then 0 else (n / 2 + 1) mod n in
    let (sp1, rr) = perm_solve List.rev List.rev List.rev in
    let (sp2, rr2) = perm_solve (fun l -> rot kk l) (fun l -> rot kk l) (fun l -> rot ((n - kk) mod (max n 1)) l) in
    (* ... and with gradient and Hessian entries moved by one unit in the last place (deterministic pseudo-random signs): the
       conditioning of the sub-problem with respect to perturbations of the size of a single rounding error *)
    let lcg = ref 12345 in
    let jit x = lcg := (!lcg * 1103515245 + 12345) land 0x3fffffff; x *. (1.0 +. float_of_int ((!lcg lsr 16) mod 3 - 1) *. epsilon_float) in
    let sp3 = ref 0.0 in
    for _ = 1 to 4 do
      let (d, _) = perm_solve (List.map jit) (fun m -> m) (fun l -> l) in
      sp3 := Float.max !sp3 d
    done;
    let spread = Float.max (Float.max sp1 sp2) !sp3 in
    let rr = if rr2.cg_exit <> r.cg_exit || rr2.cg_iters <> r.cg_iters then rr2 else rr in
    let dout = Printf.sprintf "pt=%s val=%s delta=%s exit=%s iters=%d pred=%s rho=%s acc=%d sol=%s trial=%s spread=%s rexit=%s riters=%d"
        (fv_str s'.tr_pt) (f_str s'.tr_val) (f_str s'.tr_delta) (tr_exit_name (int_of_nat r.cg_exit)) (int_of_nat r.cg_iters)
        (f_str r.cg_pred) (f_str rho) (if acc then 1 else 0) (fv_str r.cg_step) (fv_str trial) (f_str spread)
        (tr_exit_name (int_of_nat rr.cg_exit)) (int_of_nat rr.cg_iters) in
    if rat <> "1" || kind <> "quad" then dout ^ " q=-" else begin
      let qv = List.map (fun t -> q_of_float (fnum t)) in
      let a = chunk n (qv al) and b = qv bl in
      let qs = { tr_pt = qv pt; tr_val = q_of_float (fnum value); tr_delta = q_of_float (fnum delta); tr_ratio = q_of_float (fnum ratio);
                 tr_grad = qv grad; tr_hess = chunk n (qv hess) } in
      sq_inexact := false;
      let o = qops q_sqrt in
      let ((qr, qrho), qacc) = tr_step_info o qle_bool (quad_f a b) qs in
      let qs' = tr_step o qle_bool q099 (quad_f a b) (quad_fd a b) qs in
      let qf x = fv_str (List.map float_of_q_scaled x) in
      Printf.sprintf "%s q=1 qpt=%s qval=%s qdelta=%s qexit=%s qiters=%d qacc=%d qrho=%s qtrial=%s sqex=%d xpt=%s xval=%s xdelta=%s"
        dout (qf qs'.tr_pt) (f_str (float_of_q_scaled qs'.tr_val)) (f_str (float_of_q_scaled qs'.tr_delta))
        (tr_exit_name (int_of_nat qr.cg_exit)) (int_of_nat qr.cg_iters) (if qacc then 1 else 0) (f_str (float_of_q_scaled qrho))
        (qf (List.map2 qadd qs.tr_pt qr.cg_step)) (if !sq_inexact then 0 else 1)
        (v_str qs'.tr_pt) (q_str qs'.tr_val) (q_str qs'.tr_delta)
    end
  | _ -> "?"

(* the exact rationals of an L-BFGS history square in size with every stored pair: the model stops following a history
   (prints "-") once the entries of its point and of its direction need more than [max_bits] bits (environment C10_MAX_BITS) *)
let max_bits = try int_of_string (Sys.getenv "C10_MAX_BITS") with _ -> 200
let q_bits x = let x = qred x in (match x.qnum with Z0 -> 0 | Zpos p | Zneg p -> List.length (pos_bits p)) + List.length (pos_bits x.qden)
let v_bits v = List.fold_left (fun a x -> max a (q_bits x)) 0 v

type st =
  | NoModel
  | LsLbfgs of q glb_model ls_state * (vec * vec) option
  | LsBfgs of vec list ls_state
  | LsSd of unit ls_state
  | LsCg of nat ls_state
  | LsFirst of unit ls_state * int      (* BFGS / LBFGS: init and first step only *)
  | Sd of sd_state

let ls_str with_dir cnt s =
  Printf.sprintf "pt=%s val=%s der=%s lstype=%d%s step=%s lpt=%s lder=%s lval=%s%s"
    (v_str s.pt) (q_str s.val0) (v_str s.der) (int_of_nat s.ls_type)
    (if with_dir then " sdir=" ^ v_str s.sdir else "")
    (q_str s.step_len) (v_str s.last_pt) (v_str s.last_der) (q_str s.last_val)
    (match cnt with Some c -> Printf.sprintf " cnt=%d" c | None -> "")

let dummy_oracle = { o_wexp = (fun _ q -> q); o_wzoom = (fun _ -> { qnum = Zpos XH; qden = XH });
                     o_dx0 = { qnum = Zpos XH; qden = XH }; o_dus = [] }
let show = function
  | NoModel -> "-"
  | LsBfgs s -> ls_str true None s ^ " hess=" ^ v_str (List.concat s.extra)
  | LsSd s -> ls_str true None s
  | LsLbfgs (s, _) -> ls_str true None s ^ lb_str s.extra
  | LsCg s -> ls_str true (Some (int_of_nat s.extra)) s
  | LsFirst (s, k) -> if k <= 1 then ls_str false None s else "-"
  | Sd s -> Printf.sprintf "pt=%s val=%s" (v_str s.sd_pt) (q_str s.sd_val)

let unit_save (_ : unit) : field list = []
let unit_restore = function [] -> Some () | _ -> None

let () =
  let ic = open_in Sys.argv.(1) in
  let state = ref NoModel in
  let f = ref (fun (_ : vec) -> { qnum = Z0; qden = XH }) and g = ref (fun (x : vec) -> x) in
  (try while true do
    let line = input_line ic in
    let toks = List.filter (fun x -> x <> "") (String.split_on_char ' ' line) in
    let out =
      try
        (match toks with
         | "L" :: rest -> line_search rest
         | "B" :: rest -> lbfgs_replay rest
         | "A" :: rest -> adam_replay rest
         | "P" :: rest -> rprop_replay rest
         | "T" :: rest -> tr_replay rest
         | "I" :: rest ->
           (match split_groups rest with
            | [[opt; ls; kind; ns]; al; bl; xl; pl; ll; ul] ->
              let n = int_of_string ns in
              if kind <> "quad" && kind <> "boxquad" then (state := NoModel; "-") else begin
                let a = chunk n (List.map parse_num al) and b = List.map parse_num bl and x0 = List.map parse_num xl in
                f := quad_f a b; g := quad_grad a b;
                let feas = if kind = "boxquad" then box_feasb_slack box_eps (List.map parse_num ll) (List.map parse_num ul) else (fun _ -> true) in
                let lsn = nat_of_int (int_of_string ls) in
                let box = kind = "boxquad" in          (* init(): a constrained objective forces the backtracking search *)
                (match opt with
                 | "SDLS" when ls = "2" || box -> state := LsSd (ls_init_o !f !g feas sd_init_model box lsn x0)
                 | "CG" when ls = "2" -> state := LsCg (ls_init_o !f !g feas cg_init_model box lsn x0)
                 | "BFGS" when ls = "2" -> state := LsBfgs (ls_init_o !f !g feas bfgs_init_model box lsn x0)
                 | "LBFGS" when ls = "2" || box ->
                   let nh = (match pl with [h] -> int_of_string h | _ -> 100) in
                   state := LsLbfgs (ls_init_o !f !g feas (lb_init_model (nat_of_int nh)) box lsn x0,
                                     if box then Some (List.map parse_num ll, List.map parse_num ul) else None)
                 | ("BFGS" | "LBFGS") when ls = "2" || box -> state := LsFirst (ls_init_o !f !g feas sd_init_model box lsn x0, 0)
                 | "SD" -> (match pl with
                     | [lr; mom] -> state := Sd (sd_init !f !g (parse_num lr) (parse_num mom) x0)
                     | _ -> state := NoModel)
                 | _ -> state := NoModel);
                show !state
              end
            | _ -> state := NoModel; "-")
         | ["S"] ->
           (match !state with
            | NoModel -> ()
            | LsBfgs s -> (match ls_step_o !f !g bfgs_dir dummy_oracle s with Some s' -> state := LsBfgs s' | None -> state := NoModel)
            | LsSd s -> state := LsSd (ls_step !f !g sd_dir s)
            | LsLbfgs (s, bx) ->
              let dir = (match bx with Some (l, u) -> lbfgs_dir_box l u | None -> lbfgs_dir) in
              if v_bits s.pt + v_bits s.sdir > max_bits then state := NoModel else
              (match ls_step_o !f !g dir dummy_oracle s with Some s' -> state := LsLbfgs (s', bx) | None -> state := NoModel)
            | LsCg s -> state := LsCg (ls_step !f !g cg_dir s)
            | LsFirst (s, k) -> state := LsFirst ((if k = 0 then ls_step !f !g sd_dir s else s), k + 1)
            | Sd s -> state := Sd (sd_step !f !g s));
           show !state
         | ["W"] ->
           (match !state with
            | NoModel -> "-"
            | LsSd s -> (match ls_restore unit_restore s (ls_save unit_save s) with
                | Some s' -> state := LsSd s'; show !state | None -> "RESTOREFAIL")
            | LsCg s -> (match ls_restore cg_restore_extra s (ls_save cg_save_extra s) with
                | Some s' -> state := LsCg s'; show !state | None -> "RESTOREFAIL")
            | LsFirst (s, k) -> show !state
            | LsLbfgs (s, bx) -> (match ls_restore (lb_restore_extra s.extra.lb_thres) s (ls_save lb_save_extra s) with
                | Some s' -> state := LsLbfgs (s', bx); show !state | None -> "RESTOREFAIL")
            | LsBfgs s -> (match ls_restore bfgs_restore_extra s (ls_save bfgs_save_extra s) with
                | Some s' -> state := LsBfgs s'; show !state | None -> "RESTOREFAIL")
            | Sd s -> (match sd_restore_full s (sd_save_full s) with
                | Some s' -> state := Sd s'; show !state | None -> "RESTOREFAIL"))
         | _ -> "?")
      with Failure _ | Not_found | Invalid_argument _ -> (state := NoModel; "-") in
    print_endline out
  done with End_of_file -> ())
