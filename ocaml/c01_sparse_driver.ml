(* Driver for the extracted C01 sparse model (C01SparseExec.run_cmd).  Reads the same command file as
   harness/c01_sparse.cpp and prints, per command, the written container in the same canonical format.
   usage: c01_sparse_model [-old] file      (-old: fx = false, the kernels before the repairs 88237f8b / 245464d7)
   A container whose storage invariant (sv_invb / sm_invb) is violated IN THE MODEL is printed with the prefix
   MODEL-INVARIANT-BROKEN (never happens for generated inputs; theorem C01_sparse_*_inv). *)
open C01_sparse_model

let rec nat_of_int n = if n <= 0 then O else S (nat_of_int (n - 1))
let rec int_of_nat = function O -> 0 | S n -> 1 + int_of_nat n
let rec pos_of_int n = if n = 1 then XH else if n land 1 = 0 then XO (pos_of_int (n lsr 1)) else XI (pos_of_int (n lsr 1))
let z_of_int n = if n = 0 then Z0 else if n > 0 then Zpos (pos_of_int n) else Zneg (pos_of_int (-n))
let rec int_of_pos = function
  | XH -> 1
  | XO p -> let v = int_of_pos p in if v > max_int / 2 then failwith "overflow" else 2 * v
  | XI p -> let v = int_of_pos p in if v > (max_int - 1) / 2 then failwith "overflow" else 2 * v + 1
let string_of_z = function
  | Z0 -> "0"
  | Zpos p -> (try string_of_int (int_of_pos p) with Failure _ -> "BIG")
  | Zneg p -> (try "-" ^ string_of_int (int_of_pos p) with Failure _ -> "-BIG")

let n s = nat_of_int (int_of_string s)
let z s = z_of_int (int_of_string s)
let sop = function "=" -> SSet | "+=" -> SAdd | "-=" -> SSub | "*=" -> SMul | s -> failwith ("op " ^ s)
let sfun name c = match name with
  | "add" -> SFAdd | "sub" -> SFSub | "mul" -> SFMul | "mad" -> SFMad (z c) | "sqp1" -> SFSqp1 | "rsub" -> SFRsub
  | s -> failwith ("functor " ^ s)
let rm = function "R" -> true | "C" -> false | s -> failwith ("orientation " ^ s)

let shape_expr shape a b c k size =
  let r x = SXRef (n x) in
  match shape with
  | "1" -> SXAdd (r a, r b)
  | "2" -> SXScale (z k, r a)
  | "3" -> SXMul (r a, r b)
  | "4" -> SXAdd (r a, SXScale (z k, r b))
  | "5" -> SXUn (UAbs, r a)
  | "6" -> SXAdd (SXUn (USqr, r a), r b)
  | "7" -> SXUnit (size, n b, z k)
  | "8" -> SXAdd (r a, SXScale (z_of_int (-1), r b))
  | "9" -> SXAdd (SXAdd (r a, r b), r c)
  | s -> failwith ("shape " ^ s)

let parse st line =
  match List.filter (fun s -> s <> "") (String.split_on_char ' ' (String.trim line)) with
  | ["RESET"] -> CReset
  | ["NSV"; id; k] -> CNewSV (n id, n k)
  | ["NDV"; id; k] -> CNewDV (n id, n k)
  | ["PUT"; id; i; x] -> CPut (n id, n i, z x)
  | ["SETEL"; id; pos; i; x] -> CSetEl (n id, n pos, n i, z x)
  | ["RESERVE"; id; k] -> CReserve (n id, n k)
  | ["CLEAR"; id] -> CClear (n id)
  | ["CLRR"; id; a; b] -> CClearRange (n id, n a, n b)
  | ["KA"; t; s] -> CKAssign (n t, n s)
  | ["KF"; f; c; t; s] -> CKFun (sfun f c, n t, n s)
  | ["OP"; form; o; t; s] -> COp ((form = "noalias"), sop o, n t, n s)
  | ["SCAL"; o; t; c] -> CScal (sop o, n t, z c)
  | ["NSM"; id; o; r; c] -> CNewSM (n id, rm o, n r, n c)
  | ["NDM"; id; o; r; c] -> CNewDM (n id, rm o, n r, n c)
  | ["MPUT"; id; i; j; x] -> CMPut (n id, n i, n j, z x)
  | ["MRESERVE"; id; k] -> CMReserve (n id, n k)
  | ["MMRES"; id; i; k; ex] -> CMMajorReserve (n id, n i, n k, (ex <> "0"))
  | ["MCLEAR"; id] -> CMClear (n id)
  | ["MCLRR"; id; i; a; b] -> CMClearRange (n id, n i, n a, n b)
  | ["MKA"; t; s] -> CMKAssign (n t, n s)
  | ["MKF"; f; c; t; s] -> CMKFun (sfun f c, n t, n s)
  | ["MOP"; form; o; t; s] -> CMOp ((form = "noalias"), sop o, n t, n s)
  | ["MSCAL"; o; t; c] -> CMScal (sop o, n t, z c)
  | ["SPMV"; form; o; t; a; v; tr] -> CSpmv ((form = "noalias"), sop o, n t, n a, n v, (tr <> "0"))
  | ["MFILL"; id; seed] -> CMFill (n id, n seed)
  | ["DKA"; t; s] -> CMBlk (None, n t, n s)
  | ["DKF"; f; c; t; s] -> CMBlk (Some (sfun f c), n t, n s)
  | ["XV"; form; o; t; shape; a; b; c; k] ->
      let size = (match getv st (n t) with VS v -> v.sv_size | VD d -> nat_of_int (List.length d)) in
      CXV ((form = "noalias"), sop o, n t, shape_expr shape a b c k size)
  | ["XM"; form; o; t; orient; shape; a; b; k] ->
      CXM ((form = "noalias"), sop o, n t, rm orient, shape_expr shape a b "0" k O)
  | _ -> failwith ("cannot parse: " ^ line)

let els l = String.concat "" (List.map (fun (i, x) -> Printf.sprintf " %d:%s" (int_of_nat i) (string_of_z x)) l)
let zs l = String.concat "" (List.map (fun x -> " " ^ string_of_z x) l)

let print_v c =
  (if not (v_ok c) then print_string "MODEL-INVARIANT-BROKEN ");
  match c with
  | VS v -> Printf.printf "sv n=%d cap=%d nnz=%d |%s" (int_of_nat v.sv_size) (int_of_nat v.sv_cap) (List.length v.sv_el) (els v.sv_el)
  | VD d -> Printf.printf "dv n=%d |%s" (List.length d) (zs d)

let rec transpose rows = match rows with
  | [] -> []
  | [] :: _ -> []
  | _ -> List.map List.hd rows :: transpose (List.map List.tl rows)

let print_m c =
  (if not (m_ok c) then print_string "MODEL-INVARIANT-BROKEN ");
  match c with
  | MS (r, m) ->
      let major = List.length m.sm_rows and minor = int_of_nat m.sm_minor in
      let (r1, c1) = if r then (major, minor) else (minor, major) in
      Printf.printf "sm %s %dx%d cap=%d res=%d |" (if r then "R" else "C") r1 c1 (int_of_nat m.sm_cap) (int_of_nat (sm_reserved m));
      List.iter (fun l -> Printf.printf " [%d]%s ;" (int_of_nat l.sv_cap) (els l.sv_el)) m.sm_rows
  | MD (r, d) ->
      (* d holds major lines; print logical rows.  An empty dimension cannot be recovered from the lists alone:
         the generator never uses empty dense matrices *)
      let rows = if r then d else transpose d in
      let r1 = List.length rows and c1 = (match rows with [] -> 0 | x :: _ -> List.length x) in
      Printf.printf "dm %s %dx%d |" (if r then "R" else "C") r1 c1;
      List.iter (fun l -> Printf.printf "%s ;" (zs l)) rows

let () =
  let fx = ref true and file = ref "" in
  Array.iteri (fun i a -> if i > 0 then (if a = "-old" then fx := false else file := a)) Sys.argv;
  let ic = open_in !file in
  let st = ref st_empty in
  (try
    while true do
      let line = input_line ic in
      if String.trim line = "" then print_newline () else begin
        (match parse !st line with
         | CReset -> st := st_empty; print_string "reset"
         | cmd ->
           let (st', (isv, id)) = run_cmd !fx !st cmd in
           st := st';
           if isv then print_v (getv st' id) else print_m (getm st' id));
        print_newline ()
      end
    done
  with End_of_file -> ());
  close_in ic
