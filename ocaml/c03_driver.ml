(* Driver for the extracted C03/C12 models.  usage: c03_model <dense|sparse|uint> <casefile>
   Same line format as harness/c03_data.cpp, except that random choices are explicit:
     H r            -> O r sigma..            (resolved by the Python driver from the C++ output)
     CS r k m sigma..   CB r k m nclasses sizes.. S..   CT r k bperm..   CR r k m draws..
   W r q bs n1 idx1.. idx2.. : view -> subset -> subset -> toDataset, executed with the view model *)
open C03_model

let rec nat_of_int n = if n <= 0 then O else S (nat_of_int (n - 1))
let rec int_of_nat = function O -> 0 | S n -> 1 + int_of_nat n
let nl = List.map nat_of_int
let il = List.map int_of_nat

type reg = { inp : nat list list; lab : nat list list; shape : string }

let dump_data inp lab =
  let bs = List.map2 (fun bi bl ->
      String.concat "," (List.map2 (fun i l -> Printf.sprintf "%d:%d" (int_of_nat i) (int_of_nat l)) bi bl)) inp lab in
  "[" ^ String.concat "|" bs ^ "]"

let dump_reg r x = Printf.sprintf " R%d=%s shape%d=%s" r (dump_data x.inp x.lab) r x.shape

exception Reject

let both f x = match f x.inp, f x.lab with
  | Some a, Some b -> { x with inp = a; lab = b }
  | _ -> raise Reject

let both2 f x = match f x.inp, f x.lab with
  | Some (a1, a2), Some (b1, b2) -> ({ x with inp = a1; lab = b1 }, { x with inp = a2; lab = b2 })
  | _ -> raise Reject

let rec split_at n l = if n = 0 then ([], l) else match l with [] -> ([], []) | x :: t -> let (a, b) = split_at (n - 1) t in (x :: a, b)

let () =
  let ty = Sys.argv.(1) in
  let shape0 = match ty with "dense" -> "(2)" | "sparse" -> "(7)" | _ -> "()" in
  let ic = open_in Sys.argv.(2) in
  let empty = { inp = []; lab = []; shape = "()" } in
  let regs = Array.make 4 empty in
  (* C12: every fold constructor goes through C12Folds.scv_create (one function of a request) on the input
     and the label container, each with its element shape; validation(i)/training(i) through
     s_validation / s_training; all shapes printed are the ones the Coq model returns.
     Before the call both sides give the label container the shape (k+3) and, when the input shape is the
     default 0-D shape, the input container the shape (k+5): a lost shape is then always visible. *)
  let dump_scv r (c_in : (nat, string) scv) (c_lab : (nat, string) scv) =
    let x = { inp = c_in.scv_set.sd_data; lab = c_lab.scv_set.sd_data; shape = c_in.scv_set.sd_shape } in
    regs.(r) <- x;
    let b = Buffer.create 256 in
    Buffer.add_string b (dump_reg r x);
    Buffer.add_string b " folds=";
    Buffer.add_string b (String.concat ";" (List.map (fun f -> String.concat "," (List.map (fun i -> string_of_int (int_of_nat i)) f)) c_in.scv_folds));
    Buffer.add_string b (" lshape=" ^ c_lab.scv_set.sd_shape);
    List.iteri (fun p _ ->
        let pn = nat_of_int p in
        (* training(i): trainingFoldIndices through detail::complement as written (sort + std::set_difference, C12Loops.v) *)
        match s_validation c_in pn, s_validation c_lab pn, s_training_sd c_in pn, s_training_sd c_lab pn with
        | Some vi, Some vl, Some ti, Some tl ->
          Buffer.add_string b (Printf.sprintf " val%d=%s train%d=%s vshape%d=%s vlshape%d=%s tshape%d=%s tlshape%d=%s"
                                 p (dump_data vi.sd_data vl.sd_data) p (dump_data ti.sd_data tl.sd_data)
                                 p vi.sd_shape p vl.sd_shape p ti.sd_shape p tl.sd_shape)
        | _ -> raise Reject) c_in.scv_folds;
    Buffer.contents b in
  let run_cv r (req : cv_request) extra_valid =
    let x = regs.(r) in
    let k = int_of_nat (req_k req) in
    let shape = if x.shape = "()" then Printf.sprintf "(%d)" (k + 5) else x.shape in
    let lshape = Printf.sprintf "(%d)" (k + 3) in
    let xi = { sd_shape = shape; sd_data = x.inp } and xl = { sd_shape = lshape; sd_data = x.lab } in
    if not (extra_valid && req_valid req x.inp && req_valid req x.lab) then " INVALIDCHOICE" else
    (* createCVIndexed / FullyIndexed / SameSizeBalanced / IID through the construction loop as written (C12Loops.v:
       batchElements / validationSetStart bookkeeping, subBatch through the DataView); C12_construction_loop: = cv_create *)
    match scv_create_loop O req xi, scv_create_loop O req xl with
    | Some ci, Some cl -> dump_scv r ci cl
    | _ -> raise Reject in
  (* ---------------- sharing stream (C03Heap.v): two heaps (inputs, labels) driven in lock-step, 8 handles:
     0..5 registers, 6 = dataset inside the fold object, 7 = dataset inside the DataView.  Every handle is printed
     after every operation, with both shapes, and the pairs of handles whose batch-pointer lists are equal. *)
  let nh = 8 in
  let sh_in : (nat, string) state ref = ref (init "()" (nat_of_int nh)) in
  let sh_lab : (nat, string) state ref = ref (init "()" (nat_of_int nh)) in
  let sh_folds : nat list list ref = ref [] in
  let sh_reset () = sh_in := init "()" (nat_of_int nh); sh_lab := init "()" (nat_of_int nh); sh_folds := [] in
  let dump_all () =
    let b = Buffer.create 512 in
    for h = 0 to nh - 1 do
      let hn = nat_of_int h in
      Buffer.add_string b (Printf.sprintf " H%d=%s hs%d=%s hl%d=%s" h (dump_data (contents "()" !sh_in hn) (contents "()" !sh_lab hn))
                             h (hnd "()" !sh_in hn).h_shape h (hnd "()" !sh_lab hn).h_shape)
    done;
    let eqs st =
      let acc = Buffer.create 32 in
      for i = 0 to nh - 1 do for j = i + 1 to nh - 1 do
          if (hnd "()" st (nat_of_int i)).h_ids <> [] && (hnd "()" st (nat_of_int i)).h_ids = (hnd "()" st (nat_of_int j)).h_ids then Buffer.add_string acc (Printf.sprintf "%d%d," i j)
        done done;
      if Buffer.length acc = 0 then "-" else Buffer.contents acc in
    Buffer.add_string b (" eqi=" ^ eqs !sh_in ^ " eql=" ^ eqs !sh_lab);
    Buffer.contents b in
  let apply2 (oi : (nat, string) op) (ol : (nat, string) op) =
    match step O "()" oi !sh_in, step O "()" ol !sh_lab with
    | Some x, Some y -> sh_in := x; sh_lab := y; dump_all ()
    | _ -> raise Reject in
  (* operations that refuse shared containers: the exception is the documented behaviour, everything else outside the domain *)
  let apply2_indep r oi ol =
    if independent "()" !sh_in (nat_of_int r) && independent "()" !sh_lab (nat_of_int r) then apply2 oi ol else " EXC" in
  let dump_folds () = " folds=" ^ String.concat ";" (List.map (fun f -> String.concat "," (List.map (fun i -> string_of_int (int_of_nat i)) f)) !sh_folds) in
  let shared cmd a rest =
    let n_ i = nat_of_int a.(i) in
    match cmd.[1] with
    | 'N' ->
      let r = a.(0) and n = a.(1) and m = a.(2) in
      let labs = nl (Array.to_list (Array.sub a 3 n)) and ids = nl (Array.to_list (Array.sub a (3 + n) n)) in
      let m' = nat_of_int (if m = 0 then 256 else m) in
      apply2 (OCreate (nat_of_int r, shape0, ids, m')) (OCreate (nat_of_int r, "()", labs, m'))
    | 'C' -> apply2 (OCopy (n_ 0, n_ 1)) (OCopy (n_ 0, n_ 1))
    | 'Z' -> apply2 (OClear (n_ 0)) (OClear (n_ 0))
    | 'I' -> apply2 (OSubset (n_ 0, n_ 1, rest 2)) (OSubset (n_ 0, n_ 1, rest 2))
    | 'K' -> apply2 (OSubset3 (n_ 0, n_ 1, n_ 2, rest 3)) (OSubset3 (n_ 0, n_ 1, n_ 2, rest 3))
    | 'L' -> apply2_indep a.(0) (OSplice (n_ 0, n_ 1, n_ 2)) (OSplice (n_ 0, n_ 1, n_ 2))
    | 'A' -> apply2 (OAppend (n_ 0, n_ 1)) (OAppend (n_ 0, n_ 1))
    | 'B' -> apply2 (OPushBack (n_ 0, n_ 1, n_ 2)) (OPushBack (n_ 0, n_ 1, n_ 2))
    | 'W' -> apply2 (OWrite (n_ 0, n_ 1, n_ 2)) (OWrite (n_ 0, n_ 1, n_ 3))
    | 'V' -> apply2 (OWriteBatch (n_ 0, n_ 1, n_ 2, n_ 3)) (OWriteBatch (n_ 0, n_ 1, n_ 2, n_ 4))
    | 'M' -> apply2 (OMakeIndep (n_ 0)) (OMakeIndep (n_ 0))
    | 'P' -> apply2_indep a.(0) (ORepartition (n_ 0, rest 1)) (ORepartition (n_ 0, rest 1))
    | 'S' -> apply2_indep a.(0) (OSplitBatch (n_ 0, n_ 1, n_ 2)) (OSplitBatch (n_ 0, n_ 1, n_ 2))
    | 'O' -> apply2 (OReorder (n_ 0, rest 1)) (OReorder (n_ 0, rest 1))
    | 'G' ->
      (match cv_indexed_shared O "()" (n_ 0) (nat_of_int 6) (rest 3) (n_ 1) (n_ 2) !sh_in,
             cv_indexed_shared O "()" (n_ 0) (nat_of_int 6) (rest 3) (n_ 1) (n_ 2) !sh_lab with
       | Some (x, f), Some (y, _) -> sh_in := x; sh_lab := y; sh_folds := f; let d = dump_all () in d ^ dump_folds ()
       | _ -> raise Reject)
    | 'T' ->
      if a.(1) >= List.length !sh_folds then raise Reject else
      apply2 (fold_training_shared "()" (nat_of_int 6) (n_ 0) !sh_folds (n_ 1) !sh_in)
             (fold_training_shared "()" (nat_of_int 6) (n_ 0) !sh_folds (n_ 1) !sh_lab)
    | 'U' ->
      if a.(1) >= List.length !sh_folds then raise Reject else
      apply2 (fold_validation_shared (nat_of_int 6) (n_ 0) !sh_folds (n_ 1)) (fold_validation_shared (nat_of_int 6) (n_ 0) !sh_folds (n_ 1))
    | 'D' -> apply2 (view_shared (n_ 0) (nat_of_int 7)) (view_shared (n_ 0) (nat_of_int 7))
    | 'E' ->
      (match view_write "()" (nat_of_int 7) (n_ 0) (n_ 1) !sh_in, view_write "()" (nat_of_int 7) (n_ 0) (n_ 2) !sh_lab with
       | Some oi, Some ol -> apply2 oi ol
       | _ -> raise Reject)
    | _ -> " ?" in
  (* ---------------- weighted stream (C03Weighted.v): inputs, labels, weights driven in lock-step by the list functions of
     C03Model; uniform weights, sumOfWeights, classWeight, bootstrap (the loop, on the draws handed over) from C03Weighted *)
  let wempty = (empty, ([] : nat list list), "()") in
  let wregs = Array.make 4 wempty in
  let dump_w r =
    let (x, wt, lsh) = wregs.(r) in
    let bs = List.map2 (fun (bi, bl) bw ->
        String.concat "," (List.map2 (fun (i, lb) w -> Printf.sprintf "%d:%d:%d" (int_of_nat i) (int_of_nat lb) (int_of_nat w)) (List.combine bi bl) bw))
        (List.combine x.inp x.lab) wt in
    let sw = int_of_nat (sum_of_weights { inputs = x.inp; labels = wt }) in
    let cw = if x.inp = [] || List.concat x.inp = [] then "" else
        Printf.sprintf " cw%d=%s" r (String.concat "," (List.map (fun v -> string_of_int (int_of_nat v)) (class_weight (elems x.lab) (elems wt)))) in
    Printf.sprintf " Q%d=[%s] qs%d=%s ql%d=%s qw%d=() sumw%d=%d%s" r (String.concat "|" bs) r x.shape r lsh r r sw cw in
  let three f (x, wt, lsh) = match f x.inp, f x.lab, f wt with
    | Some a, Some b, Some c -> ({ x with inp = a; lab = b }, c, lsh)
    | _ -> raise Reject in
  let weighted cmd a rest =
    match cmd.[1] with
    | 'N' ->
      let r = a.(0) and n = a.(1) and m = a.(2) in
      let labs = nl (Array.to_list (Array.sub a 3 n)) and ids = nl (Array.to_list (Array.sub a (3 + n) n))
      and ws = nl (Array.to_list (Array.sub a (3 + 2 * n) n)) in
      let m' = nat_of_int (if m = 0 then 256 else m) in
      (match create ids m', create labs m', create ws m' with
       | Some i, Some lb, Some w -> wregs.(r) <- ({ inp = i; lab = lb; shape = shape0 }, w, "()"); dump_w r
       | _ -> raise Reject)
    | 'U' -> let r = a.(0) and q = a.(1) in
      let (x, _, lsh) = wregs.(r) in
      wregs.(q) <- (x, uniform_weights x.inp (nat_of_int a.(2)), lsh); dump_w q
    | 'I' -> let r = a.(0) and q = a.(1) in wregs.(q) <- three (indexed_subset (rest 2)) wregs.(r); dump_w q
    | 'L' -> let r = a.(0) and q = a.(1) in
      let (x, wt, lsh) = wregs.(r) in
      (match splice (nat_of_int a.(2)) x.inp, splice (nat_of_int a.(2)) x.lab, splice (nat_of_int a.(2)) wt with
       | Some (i1, i2), Some (l1, l2), Some (w1, w2) ->
         wregs.(r) <- ({ x with inp = i1; lab = l1 }, w1, lsh); wregs.(q) <- ({ x with inp = i2; lab = l2 }, w2, lsh);
         dump_w r ^ dump_w q
       | _ -> raise Reject)
    | 'A' -> let r = a.(0) and q = a.(1) in
      let (x, wt, lsh) = wregs.(r) and (y, wy, _) = wregs.(q) in
      wregs.(r) <- ({ x with inp = append x.inp y.inp; lab = append x.lab y.lab }, append wt wy, lsh); dump_w r
    | 'P' -> let r = a.(0) in wregs.(r) <- three (repartition (rest 1)) wregs.(r); dump_w r
    | 'S' -> let r = a.(0) in wregs.(r) <- three (split_batch (nat_of_int a.(1)) (nat_of_int a.(2))) wregs.(r); dump_w r
    | 'B' -> (* QB r q size draws.. : the draws are reconstructed by the Python driver from the weights the library produced *)
      let r = a.(0) and q = a.(1) in
      let (x, _, lsh) = wregs.(r) in
      let draws = rest 3 in
      let size = if a.(2) = 0 then int_of_nat (nelems x.inp) else a.(2) in
      if List.length draws <> size || List.exists (fun i -> int_of_nat i >= int_of_nat (nelems x.inp)) draws then " INVALIDCHOICE" else begin
        let b = w_bootstrap x.inp draws in
        wregs.(q) <- (x, b.labels, lsh); dump_w q end
    | 'X' -> let (x, wt, _) = wregs.(a.(0)) in
      if ty <> "uint" then " wi=NA" else
        let bs = List.map2 (fun bi bw -> String.concat "," (List.map2 (fun i w -> Printf.sprintf "%d:%d" (int_of_nat i) (int_of_nat w)) bi bw)) x.inp wt in
        Printf.sprintf " wi=[%s] wisum=%d" (String.concat "|" bs) (int_of_nat (sum_of_weights { inputs = x.inp; labels = wt }))
    | _ -> " ?" in
  (try
    while true do
      let l = input_line ic in
      let toks = List.filter (fun x -> x <> "") (String.split_on_char ' ' l) in
      match toks with
      | [] -> print_newline ()
      | "C" :: s :: _ -> Array.fill regs 0 4 empty; Array.fill wregs 0 4 wempty; sh_reset (); Printf.printf "C %s\n" s
      | cmd :: args ->
        let a = Array.of_list (List.map int_of_string args) in
        let rest k = nl (Array.to_list (Array.sub a k (Array.length a - k))) in
        let out =
          try
            (match cmd with
             | "N" ->
               let r = a.(0) and n = a.(1) and m = a.(2) in
               let labs = nl (Array.to_list (Array.sub a 3 n)) and ids = nl (Array.to_list (Array.sub a (3 + n) n)) in
               let m' = nat_of_int (if m = 0 then 256 else m) in
               (match create ids m', create labs m' with
                | Some i, Some lb -> regs.(r) <- { inp = i; lab = lb; shape = shape0 }; dump_reg r regs.(r)
                | _ -> raise Reject)
             | "P" -> let r = a.(0) in regs.(r) <- both (repartition (rest 1)) regs.(r); dump_reg r regs.(r)
             | "S" -> let r = a.(0) in regs.(r) <- both (split_batch (nat_of_int a.(1)) (nat_of_int a.(2))) regs.(r); dump_reg r regs.(r)
             | "L" -> let r = a.(0) and q = a.(1) in
               let (x, y) = both2 (splice (nat_of_int a.(2))) regs.(r) in
               regs.(r) <- x; regs.(q) <- y; dump_reg r x ^ dump_reg q y
             | "A" -> let r = a.(0) and q = a.(1) in
               regs.(r) <- { (regs.(r)) with inp = append regs.(r).inp regs.(q).inp; lab = append regs.(r).lab regs.(q).lab };
               dump_reg r regs.(r)
             | "O" -> let r = a.(0) in regs.(r) <- both (reorder O (rest 1)) regs.(r); dump_reg r regs.(r)
             | "I" -> let r = a.(0) and q = a.(1) in regs.(q) <- both (indexed_subset (rest 2)) regs.(r); dump_reg q regs.(q)
             | "K" -> let r = a.(0) and q = a.(1) and t = a.(2) in
               let idx = rest 3 in
               let x = both (indexed_subset idx) regs.(r) in
               let cidx = complement idx (nat_of_int (List.length regs.(r).inp)) in
               let y = both (indexed_subset cidx) regs.(r) in
               regs.(q) <- x; regs.(t) <- y; dump_reg q x ^ dump_reg t y
             | "T" -> let r = a.(0) and q = a.(1) in
               let (x, y) = both2 (split_at_element (nat_of_int a.(2))) regs.(r) in
               regs.(r) <- x; regs.(q) <- y; dump_reg r x ^ dump_reg q y
             | "B" -> let r = a.(0) in
               (* the gather index is computed by the loop model (prefix sums + scatter pass, as in Dataset.h);
                  C03_class_order_loop: it equals the stable class order the theorems speak about *)
               (match repartition_by_class_loop O (nat_of_int a.(1)) { inputs = regs.(r).inp; labels = regs.(r).lab } with
                | Some d -> regs.(r) <- { (regs.(r)) with inp = d.inputs; lab = d.labels }; dump_reg r regs.(r)
                | None -> raise Reject)
             | "Y" -> let r = a.(0) and q = a.(1) in
               (match binary_sub_problem (nat_of_int a.(2)) (nat_of_int a.(3)) { inputs = regs.(r).inp; labels = regs.(r).lab } with
                | None -> " EXC"
                | Some d -> regs.(q) <- { (regs.(r)) with inp = d.inputs; lab = d.labels }; dump_reg q regs.(q))
             | "E" -> let r = a.(0) in
               (* element(i) by index; view[i] through the index triple built by the DataView constructor *)
               let vw = view_of regs.(r).inp in
               let ent = List.nth vw a.(1) in
               (match element (nat_of_int a.(1)) regs.(r).inp, element (nat_of_int a.(1)) regs.(r).lab,
                      view_get regs.(r).inp ent, view_get regs.(r).lab ent with
                | Some i, Some lb, Some vi, Some vl ->
                  Printf.sprintf " elem=%d:%d view=%d:%d din=%d:%d crange=%d cidx=%d cderef=%d" (int_of_nat i) (int_of_nat lb) (int_of_nat vi) (int_of_nat vl)
                    (int_of_nat i) (int_of_nat lb) (int_of_nat (nelems regs.(r).inp)) a.(1) (int_of_nat i)
                | _ -> raise Reject)
             | "J" -> let r = a.(0) in
               let d = regs.(r).inp and dl = regs.(r).lab in
               let tot = int_of_nat (nelems d) in
               let it0 = it_advance d ((O, O), O) false (nat_of_int a.(1)) in
               let it = it_advance d it0 (a.(2) <> 0) (nat_of_int a.(3)) in
               let ((_, _), p) = it in
               let idx = int_of_nat p in
               let b = Buffer.create 64 in
               Buffer.add_string b (Printf.sprintf " idx=%d" idx);
               (if idx < tot then match it_deref d it, it_deref dl it with
                   | Some i, Some lb -> Buffer.add_string b (Printf.sprintf " deref=%d:%d" (int_of_nat i) (int_of_nat lb))
                   | _ -> Buffer.add_string b " deref=INVALID"
                 else Buffer.add_string b " deref=end");
               (if idx + 1 < tot then match it_deref d (it_decr d (it_incr d it)) with
                   | Some i -> Buffer.add_string b (Printf.sprintf " rt=%d" (int_of_nat i)) | None -> Buffer.add_string b " rt=INVALID"
                 else Buffer.add_string b " rt=-");
               (if idx > 0 && idx < tot then match it_deref d (it_decr d it) with
                   | Some i -> Buffer.add_string b (Printf.sprintf " prev=%d" (int_of_nat i)) | None -> Buffer.add_string b " prev=INVALID"
                 else Buffer.add_string b " prev=-");
               (* the same iterator walked -- -- ++ ++ ++ -- (steps leaving [0,tot) are skipped) *)
               Buffer.add_string b " walk=";
               (let w = ref it and wi = ref idx and first = ref true in
                if idx < tot then
                  List.iter (fun op ->
                      let go = if op < 0 then (if !wi = 0 then false else (w := it_decr d !w; decr wi; true))
                               else (if !wi + 1 >= tot then false else (w := it_incr d !w; incr wi; true)) in
                      if go then begin
                        let ((_, _), p2) = !w in
                        (match it_deref d !w with
                         | Some i -> Buffer.add_string b (Printf.sprintf "%s%d/%d" (if !first then "" else ",") (int_of_nat p2) (int_of_nat i))
                         | None -> Buffer.add_string b (Printf.sprintf "%s%d/INVALID" (if !first then "" else ",") (int_of_nat p2)));
                        first := false end) [-1; -1; 1; 1; 1; -1];
                if !first then Buffer.add_string b "-");
               Buffer.contents b
             | "V" -> let r = a.(0) and q = a.(1) in
               let x = both (view_to_dataset O (rest 3) (nat_of_int a.(2))) regs.(r) in
               regs.(q) <- { x with shape = "()" }; dump_reg q regs.(q)
             | "W" -> (* W r q bs n1 idx1.. idx2.. : toDataset(subset(subset(view(R[r]), idx1), idx2), bs), and index() of every entry *)
               let r = a.(0) and q = a.(1) in
               let n1 = a.(3) in
               let (i1, i2) = split_at n1 (rest 4) in
               let vw = view_of regs.(r).inp in
               (match view_subset vw i1 with
                | None -> raise Reject
                | Some v1 ->
                  match view_subset v1 i2 with
                  | None -> raise Reject
                  | Some v2 ->
                    match to_dataset regs.(r).inp v2 (nat_of_int a.(2)), to_dataset regs.(r).lab v2 (nat_of_int a.(2)) with
                    | Some di, Some dl ->
                      regs.(q) <- { inp = di; lab = dl; shape = "()" };
                      dump_reg q regs.(q) ^ " vidx=" ^ String.concat "," (List.map (fun e -> string_of_int (int_of_nat (vi_dataset_index e))) v2)
                    | _ -> raise Reject)
             | "F" -> let r = a.(0) and f = a.(1) in
               regs.(r) <- { (regs.(r)) with inp = transform (fun i -> nat_of_int (int_of_nat i + f)) regs.(r).inp; shape = shape0 (* transform infers the shape from the data *) }; dump_reg r regs.(r)
             | "CS" -> let r = a.(0) in let k = nat_of_int a.(1) and m = nat_of_int a.(2) in
               run_cv r (ReqSameSize (rest 3, k, m)) true
             | "CI" -> let r = a.(0) in let k = nat_of_int a.(1) and m = nat_of_int a.(2) in
               run_cv r (ReqIndexed (rest 3, k, m)) true
             | "CR" -> (* createCVIID: the drawn folds are read back from the implementation's output *)
               let r = a.(0) in let k = nat_of_int a.(1) and m = nat_of_int a.(2) in
               run_cv r (ReqIID (rest 3, k, m)) true
             | "CF" -> let r = a.(0) in let k = nat_of_int a.(1) and m = nat_of_int a.(2) in
               let n = (Array.length a - 3) / 2 in
               let (f, s) = split_at n (rest 3) in
               run_cv r (ReqFullyIndexed (f, s, k, m)) true
             | "CB" -> let r = a.(0) in let k = nat_of_int a.(1) and m = nat_of_int a.(2) in
               let nc = a.(3) in
               let szs = Array.to_list (Array.sub a 4 nc) in
               let s = ref (rest (4 + nc)) in
               let members = List.map (fun sz -> let (x, y) = split_at sz !s in s := y; x) szs in
               let so = run_cv r (ReqBalanced (members, k, m)) (valid_members (elems regs.(r).lab) members) in
               if so = " INVALIDCHOICE" then so else
                 let sq = List.concat members in
                 let n = List.length sq in
                 so ^ " rfirst=" ^ String.concat "," (List.map (fun i -> string_of_int (int_of_nat i)) sq)
                 ^ " rsecond=" ^ String.concat "," (List.init n (fun t -> string_of_int (t mod a.(1))))
             | "CT" -> let r = a.(0) in let k = nat_of_int a.(1) in
               run_cv r (ReqBatch (rest 2, k)) true
             | _ when String.length cmd = 2 && cmd.[0] = 'X' -> shared cmd a rest
             | _ when String.length cmd = 2 && cmd.[0] = 'Q' -> weighted cmd a rest
             | _ -> " ?")
          with Reject -> " REJECT" | Invalid_argument _ -> " REJECT" in
        Printf.printf "%s ->%s\n" l out
    done
  with End_of_file -> ())
