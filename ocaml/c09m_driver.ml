(* Driver for the extracted models of GaussianKernelMatrix / DifferenceKernelMatrix / PartlyPrecomputedMatrix (C09More.v)
   read directly, through the composed CachedMatrix model and through the composed PrecomputedMatrix model (C09Comp.v).
   Reads the case lines of harness/c09_more.cpp and prints the same fields (hex doubles):
     G ctype gamma n dim maxbatch | x | flips          X n dim maxbatch npairs | x | pairs | flips          Y n dim rows extra | x *)
open C09c_model

let rec nat_of_int n = if n <= 0 then O else S (nat_of_int (n - 1))
let rec int_of_nat = function O -> 0 | S n -> 1 + int_of_nat n
let rec pos_of_int n = if n = 1 then XH else if n land 1 = 0 then XO (pos_of_int (n / 2)) else XI (pos_of_int (n / 2))
let z_of_int n = if n = 0 then Z0 else if n > 0 then Zpos (pos_of_int n) else Zneg (pos_of_int (-n))
let rec int_of_pos = function XH -> 1 | XO p -> 2 * int_of_pos p | XI p -> 2 * int_of_pos p + 1
let int_of_z = function Z0 -> 0 | Zpos p -> int_of_pos p | Zneg p -> - (int_of_pos p)
let ni = nat_of_int and inn = int_of_nat
let cat = String.concat ","

let split_bar toks =
  let rec go cur acc = function
    | [] -> List.rev (List.rev cur :: acc)
    | "|" :: t -> go [] (List.rev cur :: acc) t
    | x :: t -> go (x :: cur) acc t in
  Array.of_list (go [] [] toks)
let rec pairs_of = function a :: b :: t -> (a, b) :: pairs_of t | _ -> []
let points n dim xs = let a = Array.of_list xs in List.init n (fun i -> List.init dim (fun d -> z_of_int (int_of_string a.(i * dim + d))))

(* the four access paths of the harness, for any operation record *)
let paths (ops : ('v, 'b) matOps) (b0 : 'b) (flips : (nat * nat) list) (fmt : 'v -> string) =
  let n = inn (ops.bsize b0) in
  let all f = cat (List.concat (List.init n (fun i -> List.init n (fun j -> fmt (f i j))))) in
  let direct = bflips ops flips b0 in
  let e = all (fun i j -> ops.bentry direct (ni i) (ni j)) in
  let r = cat (List.concat (List.init n (fun i -> List.map fmt (ops.browf direct (ni i) O (ni n))))) in
  (* CachedMatrix: rows cached before the flips *)
  let st = ref (ginit ops b0 (ni (n * n + 1))) in
  let i = ref 0 in
  while !i < n do
    st := gstep ops !st (GRow (ni !i, O, ni (if !i mod 3 = 0 then n else (n + 1) / 2))); i := !i + 2
  done;
  List.iter (fun (a, b) -> st := gstep ops !st (GFlip (a, b))) flips;
  let c = cat (List.concat (List.init n (fun i -> st := gstep ops !st (GRow (ni i, O, ni n)); List.map fmt (gline !st (ni i))))) in
  let pm = List.fold_left (fun m (a, b) -> pm_flip ops a b m) (pm_init ops b0) flips in
  let p = all (fun i j -> pm_entry ops pm (ni i) (ni j)) in
  (direct, Printf.sprintf " E=%s R=%s C=%s P=%s" e r c p)

let hz z = Printf.sprintf "%h" (float_of_int (int_of_z z))

let () =
  let ic = open_in Sys.argv.(1) in
  (try while true do
      let l = input_line ic in
      let toks = List.filter (fun x -> x <> "") (String.split_on_char ' ' l) in
      (try match toks with
      | [] -> print_newline ()
      | "G" :: ctype :: gam :: rest ->
        let sec = split_bar rest in
        let hd = Array.of_list (List.map int_of_string sec.(0)) in
        let n = hd.(0) and dim = hd.(1) in
        let gamma = float_of_string gam in
        let single v = Int32.float_of_bits (Int32.bits_of_float v) in
        let ex z = let v = exp (-. gamma *. float_of_int (int_of_z z)) in if ctype = "f" then single v else v in
        let flips = List.map (fun (a, b) -> (ni (int_of_string a), ni (int_of_string b))) (pairs_of (if Array.length sec > 2 then sec.(2) else [])) in
        let ops = gk_ops ex (-7.0) (ni dim) in
        let (_, s) = paths ops (gk_init (ni dim) (points n dim sec.(1))) flips (fun v -> Printf.sprintf "%h" v) in
        print_endline ("G" ^ s)
      | "X" :: rest ->
        let sec = split_bar rest in
        let hd = Array.of_list (List.map int_of_string sec.(0)) in
        let n = hd.(0) and dim = hd.(1) and mb = hd.(2) in
        let pairs = List.map (fun (a, b) -> (ni (int_of_string a), ni (int_of_string b))) (pairs_of sec.(2)) in
        let flips = List.map (fun (a, b) -> (ni (int_of_string a), ni (int_of_string b))) (pairs_of (if Array.length sec > 3 then sec.(3) else [])) in
        let sizes = match batch_sizes (ni n) (ni mb) with Some s -> s | None -> failwith "division by zero" in
        let bs = split_batches sizes (points n dim sec.(1)) in
        let ops = dk_ops [] (lin (ni dim)) in
        let (direct, s) = paths ops (dk_init bs pairs) flips hz in
        print_endline ("X" ^ s ^ " M=" ^ cat (List.concat (List.map (List.map hz) (ops.bmat direct))))
      | "Y" :: rest ->
        let sec = split_bar rest in
        let hd = Array.of_list (List.map int_of_string sec.(0)) in
        let n = hd.(0) and dim = hd.(1) and rows = hd.(2) and extra = hd.(3) in
        let pts = Array.of_list (points n dim sec.(1)) in
        let k0 a b = lin (ni dim) pts.(inn a) pts.(inn b) in
        let ops = kernel_ops k0 in
        let b = dinit (ni n) [] [] in
        (match pp_init ops (ni 8) (ni (rows * n * 8 + extra)) b with
         | PPok tab ->
           let e = cat (List.concat (List.init n (fun i -> List.init n (fun j -> hz (pp_entry ops b tab (ni i) (ni j)))))) in
           let r = cat (List.concat (List.init n (fun i -> List.map hz (pp_row ops b tab (ni i))))) in
           let c k = if pp_is_cached tab (ni k) then 1 else 0 in
           Printf.printf "Y E=%s R=%s K=%d,%d\n" e r (c 0) (c (n - 1))
         | PPexc -> print_endline "EXC"
         | PPdiv0 -> print_endline "DIV0")
      | _ -> print_endline "ERR unknown"
      with Failure m -> print_endline ("MODELFAIL " ^ m))
    done with End_of_file -> ())
