(* Driver for the extracted C15 model (C15Model.v over Q).  One output line per input line.
   Input lines are written by tools/c15.py from the case line and (after "||") the parameters the C++ returned:
     <KIND> args | batch sizes | X | E1 | E2 || P1 | P2 | ...
   Every number is an exact rational "[-]<binary numerator>[/<binary denominator>]" (doubles are dyadic
   rationals); output "key=r,r,... key=..." in the same number format.  The dataset handed to the model is
   C03Model.chunk sizes elements, i.e. the batch structure of the C++ dataset.
     S n d                 -> mean var cov                    (Statistics.h, accumulated over the batches)
     V zm n d || s[d]      -> mean var law diag off           (uv_params with the candidate standard deviation s_j;
                                                               law_j = 1 iff s_j*s_j == var_j, else diag/off printed for s as given)
     I n d                 -> min max diag off out            (ui_params, affine on every element)
     L lam n d o | .. | X | Y || mat(o*d) | off(o)            -> grad (o*(d+1)): lr_grad at the returned weights
     W/Z tv n d || rows | mat(rows*d) | off(rows)             -> coff omean ocov: center_off, mean and covariance of lin on the data
       Z with 5 more sections | on | oD | oU | epsm | tv  (recorded answer of the eigen-decomposition on the covariance matrix)
                                                               -> zW(d*d) zoff(d) zmet: C15ZcaModel.zca_train with the recorded oracle ("zW=NONE": exception)
     P wh m n d || k | ev(k) | evec(d*k)                      -> mean gram eigres(k*d)
       with 5 more sections  | on | oD(on) | oU(on*on) | epsm | cut   (the values the eigen-decomposition returned on the
       on x on matrix of the branch taken, machine epsilon, the double 1e-15) additionally
                                                               -> mev mevec(d*on) met encA encb decA decb whmet:
                                                                  C15PcaModel.pca_setdata / pca_encoder / pca_decoder run with the
                                                                  recorded values as the oracle's answer and sq = the correctly
                                                                  rounded double square root (exact whenever the root is a double)
     D/DW lam n d K | .. | X | labels [| weights] || mat(K*d) -> prior means cov res(K*d) bpart(K)
   L, D, DW additionally run the AS-CODED models of C15SolveModel.v (statistics as coded + the C02 model of the semi-definite
   solver: pstrf, potrf of L^T L, substitutions; epsm = 2^-52) in two instances of the arithmetic record:
     (x) over Qc with an EXACT square root (defined only where the root is rational; "No_sqrt" otherwise): mx=1, exact results;
     (f) if (x) meets an irrational root: the same extracted functions over OCaml doubles (mx=0) - the computation of the C++ up
         to the order of summation;
   the statistics (zmeans, zcov, mprior; for L: nothing) are always exact rationals (Qc; sqrt(weight) rounded if irrational).
     L  -> mx mrank mbeta(o*(d+1))    (rank found by the pivoted factorisation; "mbeta=NONE" when the model raises an exception)
     D/DW -> zmeans(K*d) zcov(d*d) mprior(K) wmet mx mrank mz(K*d) mbp(K)   ("mz=NONE": exception, e.g. a class without examples) *)
open C15_model

let rec nat_of_int n = if n <= 0 then O else S (nat_of_int (n - 1))
let rec int_of_nat = function O -> 0 | S n -> 1 + int_of_nat n

(* binary strings <-> positive / Z *)
let pos_of_bin (s : string) : positive =
  (* s has a leading '1' *)
  let p = ref XH in
  for i = 1 to String.length s - 1 do p := (if s.[i] = '1' then XI !p else XO !p) done; !p
let strip0 s = let n = String.length s in let i = ref 0 in while !i < n - 1 && s.[!i] = '0' do incr i done; String.sub s !i (n - !i)
let z_of_bin (s : string) : z =
  let neg = String.length s > 0 && s.[0] = '-' in
  let b = strip0 (if neg then String.sub s 1 (String.length s - 1) else s) in
  if b = "0" || b = "" then Z0 else if neg then Zneg (pos_of_bin b) else Zpos (pos_of_bin b)
let bin_of_pos (p : positive) : string =
  let b = Buffer.create 64 in
  let rec go p acc = match p with XH -> '1' :: acc | XO q -> go q ('0' :: acc) | XI q -> go q ('1' :: acc) in
  List.iter (Buffer.add_char b) (go p []); Buffer.contents b
let bin_of_z = function Z0 -> "0" | Zpos p -> bin_of_pos p | Zneg p -> "-" ^ bin_of_pos p
let q_of_string (s : string) : q =
  match String.index_opt s '/' with
  | Some k -> qred { qnum = z_of_bin (String.sub s 0 k); qden = pos_of_bin (strip0 (String.sub s (k + 1) (String.length s - k - 1))) }
  | None -> { qnum = z_of_bin s; qden = XH }
let q_to_string (x : q) : string =
  let x = qred x in if x.qden = XH then bin_of_z x.qnum else bin_of_z x.qnum ^ "/" ^ bin_of_pos x.qden
let q0 = { qnum = Z0; qden = XH }
let q1 = { qnum = Zpos XH; qden = XH }

(* ---- rationals <-> doubles; sq = double square root of the (rounded) argument, returned as the exact rational of that double ---- *)
let bits_of_pos (p : positive) : string = bin_of_pos p
let float_of_bin (b : string) : float * int =
  (* value = m * 2^e with m built from the first 62 bits *)
  let n = String.length b in
  let k = min n 62 in
  let m = ref 0.0 in
  for i = 0 to k - 1 do m := !m *. 2.0 +. (if b.[i] = '1' then 1.0 else 0.0) done;
  (!m, n - k)
let float_of_q (x : q) : float =
  let x = qred x in
  match x.qnum with
  | Z0 -> 0.0
  | Zpos p | Zneg p ->
    let (mn, en) = float_of_bin (bin_of_pos p) and (md, ed) = float_of_bin (bin_of_pos x.qden) in
    let v = ldexp (mn /. md) (en - ed) in
    (match x.qnum with Zneg _ -> -. v | _ -> v)
let bin_of_int64 (v : int64) : string =
  if v = 0L then "0" else begin
    let b = Buffer.create 64 and started = ref false in
    for i = 62 downto 0 do
      let bit = Int64.logand (Int64.shift_right_logical v i) 1L = 1L in
      if bit then started := true;
      if !started then Buffer.add_char b (if bit then '1' else '0')
    done; Buffer.contents b end
let q_of_float (f : float) : q =
  if f = 0.0 || f <> f || f = infinity || f = neg_infinity then q0 else begin
    let (m, e) = frexp (abs_float f) in
    let mant = Int64.of_float (ldexp m 53) and ex = e - 53 in
    let mb = bin_of_int64 mant in
    let num = if ex >= 0 then mb ^ String.make ex '0' else mb in
    let den = if ex >= 0 then "1" else "1" ^ String.make (- ex) '0' in
    let r = qred { qnum = z_of_bin num; qden = pos_of_bin den } in
    if f < 0.0 then qopp r else r end
let q_sqrt (x : q) : q = q_of_float (sqrt (float_of_q x))

(* ---- Qc instance of the arithmetic record of C02Model (qc = canonical q) ---- *)
let qc_of (x : q) : qc = q2Qc x
let fqc = qc_ops (fun x -> q2Qc (q_sqrt x))
let qc_epsm = q2Qc (q_of_float epsilon_float)
let qc_half = q2Qc { qnum = Zpos XH; qden = XO XH }
exception No_sqrt
let q_sqrt_exact (x : q) : q = let r = q_sqrt x in if qeq_bool (qmult r r) x then r else raise No_sqrt
let fqcx = qc_ops (fun x -> q2Qc (q_sqrt_exact x))
let fflt : float ops = { fzero = 0.; fone = 1.; fadd = (+.); fmul = ( *. ); fsub = (-.); fopp = (fun x -> -. x); fdiv = (/.);
                         finv = (fun x -> 1. /. x); feqb = (fun x y -> x = y); fleb = (fun x y -> x <= y); fltb = (fun x y -> x < y); fsqrt = sqrt }
let vec_out (n : int) (v : qc vec) : q list = List.map (fun i -> v (nat_of_int i)) (List.init n (fun i -> i))
let fvec_out (n : int) (v : float vec) : q list = List.map (fun i -> q_of_float (v (nat_of_int i))) (List.init n (fun i -> i))
let rank_of f fa eps n m = match semi_decompose f fa (nat_of_int 20) (nat_of_int 32) (nat_of_int 32) RowMajor (nat_of_int n) eps m with
  | Some dec -> string_of_int (int_of_nat dec.sd_rank) | None -> "-1"
let finite_f x = x = x && x <> infinity && x <> neg_infinity

let split_on sep toks =
  let rec go acc cur = function
    | [] -> List.rev (List.rev cur :: acc)
    | t :: r when t = sep -> go (List.rev cur :: acc) [] r
    | t :: r -> go acc (t :: cur) r in
  go [] [] toks
let nums l = List.map q_of_string l
let rec rows d l = if l = [] then [] else
  let rec take k l acc = if k = 0 then (List.rev acc, l) else match l with [] -> (List.rev acc, []) | x :: r -> take (k - 1) r (x :: acc) in
  let (a, r) = take d l [] in a :: rows d r
let out key l = key ^ "=" ^ String.concat "," (List.map q_to_string l)
let range n = List.init n (fun i -> i)
let arr_fun (a : q array) : nat -> q = fun i -> let k = int_of_nat i in if k < Array.length a then a.(k) else q0
let mat_fun (a : q array) ncols : nat -> nat -> q = fun i j ->
  let k = int_of_nat i * ncols + int_of_nat j in if int_of_nat j < ncols && k < Array.length a then a.(k) else q0

let handle line =
  let toks = List.filter (fun x -> x <> "") (String.split_on_char ' ' line) in
  let halves = split_on "||" toks in
  let case = split_on "|" (List.hd halves) in
  let par = match halves with [_; p] -> split_on "|" p | _ -> [] in
  let hd = List.nth case 0 in
  let kind = List.hd hd and args = List.tl hd in
  let na = List.length args in
  let sizes = List.map (fun s -> nat_of_int (int_of_string s)) (List.nth case 1) in
  let arg k = List.nth args k in
  let sec k = if k < List.length case then nums (List.nth case k) else [] in
  let psec k = if k < List.length par then nums (List.nth par k) else [] in
  match kind with
  | "S" | "V" | "I" | "W" | "Z" | "P" ->
    let n = int_of_string (arg (na - 2)) and d = int_of_string (arg (na - 1)) in
    let xs = rows d (sec 2) in
    let data = chunk sizes xs in
    let ft j = feat (nat_of_int j) in
    let dd = nat_of_int d in
    ignore n;
    (match kind with
     | "S" ->
       String.concat " " [ out "mean" (List.map (fun j -> mean (ft j) data) (range d));
                           out "var" (List.map (fun j -> var (ft j) data) (range d));
                           out "cov" (List.concat_map (fun j -> List.map (fun k -> cov (ft j) (ft k) data) (range d)) (range d)) ]
     | "V" ->
       let s = Array.of_list (psec 0) in
       let ms = List.map (fun j -> mean (ft j) data) (range d) and vs = List.map (fun j -> var (ft j) data) (range d) in
       let law = List.mapi (fun j v -> if qeq_bool (qmult s.(j) s.(j)) v then q1 else q0) vs in
       let ps = List.mapi (fun j m -> uv_params s.(j) m) ms in
       String.concat " " [ out "mean" ms; out "var" vs; out "law" law; out "diag" (List.map fst ps); out "off" (List.map snd ps) ]
     | "I" ->
       (match xs with
        | [] -> "EMPTY"
        | x0 :: rest ->
          let mn = List.map (fun j -> fmin (ft j) x0 rest) (range d) and mx = List.map (fun j -> fmax (ft j) x0 rest) (range d) in
          let ps = List.map2 ui_params mn mx in
          let o = List.concat_map (fun x -> List.mapi (fun j p -> affine p (ft j x)) ps) xs in
          String.concat " " [ out "min" mn; out "max" mx; out "diag" (List.map fst ps); out "off" (List.map snd ps); out "out" o ])
     | "W" | "Z" ->
       let r = (match List.nth par 0 with [s] -> int_of_string s | _ -> 0) in
       let w = mat_fun (Array.of_list (psec 1)) d and b = arr_fun (Array.of_list (psec 2)) in
       let f a = lin dd w b (nat_of_int a) in
       let zx =
         if kind = "Z" && List.length par >= 8 then begin
           let on = (match List.nth par 3 with [s] -> int_of_string s | _ -> 0) in
           let od = arr_fun (Array.of_list (psec 4)) and ou = mat_fun (Array.of_list (psec 5)) on in
           let epsm = List.hd (psec 6) in
           match zca_train q_sqrt (fun _ _ -> (ou, od)) epsm dd (List.hd (psec 7)) data with
           | None -> [ "zW=NONE" ]
           | Some ((zw, zo), met) ->
             [ out "zW" (List.concat_map (fun a -> List.map (fun j -> zw (nat_of_int a) (nat_of_int j)) (range d)) (range d));
               out "zoff" (List.map (fun a -> zo (nat_of_int a)) (range d)); out "zmet" met ]
         end else [] in
       String.concat " " ([ out "coff" (List.map (fun a -> center_off dd w data (nat_of_int a)) (range r));
                           out "omean" (List.map (fun a -> mean (f a) data) (range r));
                           out "ocov" (List.concat_map (fun a -> List.map (fun c -> cov (f a) (f c) data) (range r)) (range r)) ] @ zx)
     | _ ->
       let k = (match List.nth par 0 with [s] -> int_of_string s | _ -> 0) in
       let ev = arr_fun (Array.of_list (psec 1)) and v = mat_fun (Array.of_list (psec 2)) k in
       let base = [ out "mean" (List.map (fun j -> mean (ft j) data) (range d));
                           out "gram" (List.concat_map (fun i -> List.map (fun l -> gram dd v (nat_of_int i) (nat_of_int l)) (range k)) (range k));
                           out "eigres" (List.concat_map (fun i -> List.map (fun j -> eig_residual dd v ev data (nat_of_int i) (nat_of_int j)) (range d)) (range k)) ] in
       let ext =
         if List.length par < 8 then [] else begin
           let on = (match List.nth par 3 with [s] -> int_of_string s | _ -> 0) in
           let od = arr_fun (Array.of_list (psec 4)) and ou = mat_fun (Array.of_list (psec 5)) on in
           let epsm = List.hd (psec 6) and cut = List.hd (psec 7) in
           let wh = (arg 0 = "1") and mreq = int_of_string (arg 1) in
           let oracle _ _ = (ou, od) in
           let ((mv, mev), met) = pca_setdata q_sqrt oracle epsm dd data in
           let mu = pca_mean dd data in
           let m = int_of_nat (pca_m dd (nat_of_int n) (nat_of_int mreq)) in
           let (ea, eb) = pca_encoder q_sqrt cut wh dd mv mev mu and (da, db) = pca_decoder q_sqrt cut wh mv mev mu in
           [ out "mev" (List.map (fun i -> mev (nat_of_int i)) (range on));
             out "mevec" (List.concat_map (fun j -> List.map (fun i -> mv (nat_of_int j) (nat_of_int i)) (range on)) (range d));
             out "met" met;
             out "encA" (List.concat_map (fun a -> List.map (fun j -> ea (nat_of_int a) (nat_of_int j)) (range d)) (range m));
             out "encb" (List.map (fun a -> eb (nat_of_int a)) (range m));
             out "decA" (List.concat_map (fun j -> List.map (fun a -> da (nat_of_int j) (nat_of_int a)) (range m)) (range d));
             out "decb" (List.map (fun j -> db (nat_of_int j)) (range d));
             out "whmet" (if wh then pca_wh_met cut (nat_of_int m) mev else []) ] end in
       String.concat " " (base @ ext))
  | "L" ->
    let lam = q_of_string (arg 0) and d = int_of_string (arg 2) and o = int_of_string (arg 3) in
    let xs = rows d (sec 2) and ys = rows o (sec 3) in
    let data = chunk sizes (List.combine xs ys) in
    let m = Array.of_list (psec 0) and off = Array.of_list (psec 1) in
    let g = List.concat_map (fun c ->
        let beta i = let k = int_of_nat i in if k < d then m.(c * d + k) else if k = d then off.(c) else q0 in
        List.map (fun j -> lr_grad (nat_of_int d) lam data (nat_of_int c) beta (nat_of_int j)) (range (d + 1))) (range o) in
    let rdata = chunk sizes (List.map2 (fun x y -> (List.map qc_of x, List.map qc_of y)) xs ys) in
    let dn = nat_of_int d in
    let lamc = qc_of lam in
    let mb =
      (try
         let r = rank_of fqcx qc_abs qc_epsm (d + 1) (lrc_A fqcx dn lamc rdata) in
         (match lrc_train fqcx qc_abs dn (nat_of_int o) lamc qc_epsm rdata with
          | Some bs -> "mx=1 mrank=" ^ r ^ " " ^ out "mbeta" (List.concat_map (fun b -> vec_out (d + 1) b) bs)
          | None -> "mx=1 mrank=" ^ r ^ " mbeta=NONE")
       with No_sqrt ->
         let fdata = chunk sizes (List.map2 (fun x y -> (List.map float_of_q x, List.map float_of_q y)) xs ys) in
         let lamf = float_of_q lam in
         let r = rank_of fflt abs_float epsilon_float (d + 1) (lrc_A fflt dn lamf fdata) in
         (match lrc_train fflt abs_float dn (nat_of_int o) lamf epsilon_float fdata with
          | Some bs when List.for_all (fun b -> List.for_all (fun i -> finite_f (b (nat_of_int i))) (range (d + 1))) bs ->
            "mx=0 mrank=" ^ r ^ " " ^ out "mbeta" (List.concat_map (fun b -> fvec_out (d + 1) b) bs)
          | _ -> "mx=0 mrank=" ^ r ^ " mbeta=NONE")) in
    String.concat " " [ out "grad" g; mb ]
  | "D" | "DW" ->
    let lam = q_of_string (arg 0) and d = int_of_string (arg 2) and kk = int_of_string (arg 3) in
    let xs = rows d (sec 2) and labs = List.map (fun s -> nat_of_int (int_of_string s)) (List.nth case 3) in
    let ws = if kind = "DW" then sec 4 else List.map (fun _ -> q1) xs in
    let l = List.map2 (fun (x, y) w -> ((x, y), w)) (List.combine xs labs) ws in
    let zm = mat_fun (Array.of_list (psec 0)) d in
    let dn = nat_of_int d and kn = nat_of_int kk in
    let weighted = (kind = "DW") in
    let prior c = lda_prior c l in
    let mn c j = if weighted then lda_mean c j l else lda_mean_u c j l in
    let cv j k = if weighted then lda_cov kn lam j k l else lda_cov_u kn lam j k l in
    let cvt = Array.init (d * d) (fun t -> cv (nat_of_int (t / d)) (nat_of_int (t mod d))) in
    let cf = mat_fun cvt d in
    let cls = range kk in
    String.concat " " [
      out "prior" (List.map (fun c -> prior (nat_of_int c)) cls);
      out "means" (List.concat_map (fun c -> List.map (fun j -> mn (nat_of_int c) (nat_of_int j)) (range d)) cls);
      out "cov" (Array.to_list cvt);
      out "res" (List.concat_map (fun c -> let cn = nat_of_int c in
                   List.map (fun k -> lda_residual dn cf (mn cn) (zm cn) (nat_of_int k)) (range d)) cls);
      out "bpart" (List.map (fun c -> let cn = nat_of_int c in lda_bias_part dn (mn cn) (zm cn)) cls);
      (let lamc = qc_of lam in
       (* statistics: exact rationals *)
       let stats =
         if weighted then
           let wd = chunk sizes (List.map (fun ((x, y), w) -> ((List.map qc_of x, y), qc_of w)) l) in
           String.concat " " [
             out "zmeans" (List.concat_map (fun c -> vec_out d (ldaw_mean fqc dn (nat_of_int c) wd)) cls);
             out "zcov" (List.concat_map (fun j -> vec_out d (ldaw_cov fqc dn kn lamc wd (nat_of_int j))) (range d));
             out "mprior" (List.map (fun c -> fqc.fdiv (ldaw_cw fqc (nat_of_int c) wd) (ldaw_wsum fqc wd)) cls);
             out "wmet" (ldaw_met wd) ]
         else
           let cd = chunk sizes (List.map (fun ((x, y), _) -> (List.map qc_of x, y)) l) in
           String.concat " " [
             out "zmeans" (List.concat_map (fun c -> vec_out d (ldac_mean fqc dn (nat_of_int c) cd)) cls);
             out "zcov" (List.concat_map (fun j -> vec_out d (ldac_cov fqc dn kn lamc cd (nat_of_int j))) (range d));
             out "mprior" (List.map (fun c -> fqc.fdiv (fofnat fqc (ldac_num (nat_of_int c) cd)) (fofnat fqc (nat_of_int (List.length l)))) cls);
             "wmet=" ] in
       let show vo qo mx rk res =
         match res with
         | None -> "mx=" ^ mx ^ " mz=NONE"
         | Some r -> String.concat " " [ "mx=" ^ mx; "mrank=" ^ rk r.lda_covm;
                                         out "mz" (List.concat_map (vo d) r.lda_z); out "mbp" (List.map qo r.lda_bias_parts) ] in
       let solved =
         (try
            let res =
              if weighted then ldaw_train fqcx qc_abs qc_half dn kn lamc qc_epsm (chunk sizes (List.map (fun ((x, y), w) -> ((List.map qc_of x, y), qc_of w)) l))
              else ldac_train fqcx qc_abs qc_half dn kn lamc qc_epsm (chunk sizes (List.map (fun ((x, y), _) -> (List.map qc_of x, y)) l)) in
            show vec_out (fun x -> x) "1" (rank_of fqcx qc_abs qc_epsm d) res
          with No_sqrt ->
            let lamf = float_of_q lam in
            let res =
              if weighted then ldaw_train fflt abs_float 0.5 dn kn lamf epsilon_float (chunk sizes (List.map (fun ((x, y), w) -> ((List.map float_of_q x, y), float_of_q w)) l))
              else ldac_train fflt abs_float 0.5 dn kn lamf epsilon_float (chunk sizes (List.map (fun ((x, y), _) -> (List.map float_of_q x, y)) l)) in
            let res = (match res with
              | Some r when List.for_all (fun z -> List.for_all (fun i -> finite_f (z (nat_of_int i))) (range d)) r.lda_z -> Some r
              | _ -> None) in
            show fvec_out q_of_float "0" (rank_of fflt abs_float epsilon_float d) res) in
       stats ^ " " ^ solved) ]
  | _ -> kind ^ " -"

let () =
  let ic = open_in Sys.argv.(1) in
  (try while true do
      let l = input_line ic in
      print_endline (try handle l with Failure m -> "FAIL " ^ m | Not_found -> "FAIL notfound" | Invalid_argument m -> "FAIL " ^ m)
    done with End_of_file -> ())
