(* Driver for the extracted C17 model.  Reads the same case file as harness/c17_nn.cpp:
     D kd <bucket> <dim> <n> c.. | tree=<dump of the real tree> nth=<recorded std::nth_element results>
     Q h_0 .. h_(dim-1)
   The D line also runs the construction model C17Build.kd_build: its nth_element oracle answers with the
   arrangement the real std::nth_element left behind for the node with the same index set (nth=mp:i,i,..;..),
   each answer is checked with the extracted median_okb at the model's median position; the built tree is
   printed with sorted leaves (built=..) for comparison with the real tree.
   The model works on doubled coordinates (data 2c, query h, thresholds 2*thr as dumped), so model
   squared distances are 4 x real; 16 x real is printed, as by the harness. *)
open C17_model

let rec nat_of_int n = if n <= 0 then O else S (nat_of_int (n - 1))
let rec int_of_nat = function O -> 0 | S n -> 1 + int_of_nat n
let rec pos_of_int n = if n = 1 then XH else if n land 1 = 0 then XO (pos_of_int (n lsr 1)) else XI (pos_of_int (n lsr 1))
let z_of_int n = if n = 0 then Z0 else if n > 0 then Zpos (pos_of_int n) else Zneg (pos_of_int (-n))
let rec int_of_pos = function XH -> 1 | XO p -> 2 * int_of_pos p | XI p -> 2 * int_of_pos p + 1
let int_of_z = function Z0 -> 0 | Zpos p -> int_of_pos p | Zneg p -> - (int_of_pos p)

(* tree dump:  L i,j,k   |   N<cd>:<thr2>(<left>)(<right>) *)
let parse_tree (s : string) : tree =
  let n = String.length s in
  let pos = ref 0 in
  let num () =
    let st = !pos in
    if !pos < n && s.[!pos] = '-' then incr pos;
    while !pos < n && s.[!pos] >= '0' && s.[!pos] <= '9' do incr pos done;
    int_of_string (String.sub s st (!pos - st)) in
  let expect c = if !pos < n && s.[!pos] = c then incr pos else failwith (Printf.sprintf "tree parse: expected %c at %d" c !pos) in
  let rec go () =
    if s.[!pos] = 'L' then begin
      incr pos;
      let l = ref [num ()] in
      while !pos < n && s.[!pos] = ',' do incr pos; l := num () :: !l done;
      Leaf (List.rev_map nat_of_int !l)
    end else begin
      expect 'N'; let cd = num () in expect ':'; let thr = num () in
      expect '('; let l = go () in expect ')'; expect '('; let r = go () in expect ')';
      Node (nat_of_int cd, z_of_int thr, l, r)
    end in
  go ()

let rec dump_tree b = function
  | Leaf idx -> Buffer.add_string b ("L" ^ String.concat "," (List.map (fun i -> string_of_int (int_of_nat i)) idx))
  | Node (cd, thr, l, r) ->
    Buffer.add_string b (Printf.sprintf "N%d:%d(" (int_of_nat cd) (int_of_z thr));
    dump_tree b l; Buffer.add_string b ")("; dump_tree b r; Buffer.add_string b ")"
let rec dump_canon b = function
  | Leaf idx -> Buffer.add_string b ("L" ^ String.concat "," (List.map string_of_int (List.sort compare (List.map int_of_nat idx))))
  | Node (cd, thr, l, r) ->
    Buffer.add_string b (Printf.sprintf "N%d:%d(" (int_of_nat cd) (int_of_z thr));
    dump_canon b l; Buffer.add_string b ")("; dump_canon b r; Buffer.add_string b ")"
let canon t = let b = Buffer.create 256 in dump_canon b t; Buffer.contents b

(* nth=mp:i,i,i;mp:i,i  ->  table: sorted index list -> (mp, arrangement) *)
let parse_nth (s : string) : (int list, int * int list) Hashtbl.t * int =
  let tbl = Hashtbl.create 16 in
  let cnt = ref 0 in
  if s <> "-" && s <> "" then
    List.iter (fun call ->
      match String.split_on_char ':' call with
      | [mp; idx] ->
        let arr = List.map int_of_string (String.split_on_char ',' idx) in
        incr cnt; Hashtbl.replace tbl (List.sort compare arr) (int_of_string mp, arr)
      | _ -> failwith ("nth parse: " ^ call)) (String.split_on_char ';' s);
  (tbl, !cnt)

(* the oracle handed to kd_build; problems are collected in `flags` *)
let make_oracle tbl flags used =
  fun (l : (z * nat) list) ->
    let ids = List.map (fun (_, i) -> int_of_nat i) l in
    match Hashtbl.find_opt tbl (List.sort compare ids) with
    | None -> flags := "MISS" :: !flags; ksort l
    | Some (mp, arr) ->
      incr used;
      let assoc = List.map (fun (k, i) -> (int_of_nat i, (k, i))) l in
      let r = List.map (fun i -> List.assoc i assoc) arr in
      let mpm = median_pos (nat_of_int (List.length l)) in
      if int_of_nat mpm <> mp then flags := Printf.sprintf "MPOS(real=%d,model=%d,n=%d)" mp (int_of_nat mpm) (List.length l) :: !flags;
      if not (median_okb mpm r) then flags := Printf.sprintf "MEDIAN(n=%d)" (List.length l) :: !flags;
      r

let rec nodes = function Leaf _ -> 1 | Node (_, _, l, r) -> 1 + nodes l + nodes r

(* ---------------------------------------------------------------------------------------------
   projection trees (LC, KHC): exact rational arithmetic (Qc) on the exact values of the doubles the
   real tree stores (thresholds, normals, m_normalInvNorm as %.17g), real coordinates (data c, query h/2) *)
let rec shl p k = if k = 0 then p else shl (XO p) (k - 1)
let qc_of_int n = qc_make (z_of_int n) XH
let qc_of_float (x : float) : qc =
  if x = 0.0 then qc_make Z0 XH else begin
    if Float.is_nan x || Float.is_integer x = false && Float.abs x = Float.infinity then failwith "non-finite value in tree dump";
    let m, e = Float.frexp x in
    let mi = Int64.to_int (Int64.of_float (Float.ldexp m 53)) in       (* exact: |m| 2^53 is an integer < 2^53 *)
    let e' = e - 53 in
    let zm = z_of_int mi in
    if e' >= 0 then qc_make (match zm with Z0 -> Z0 | Zpos p -> Zpos (shl p e') | Zneg p -> Zneg (shl p e')) XH
    else qc_make zm (shl XH (- e'))
  end
let rec pos_bits = function XH -> 1 | XO p | XI p -> 1 + pos_bits p
let rec pos_drop p k = if k = 0 then p else match p with XH -> XH | XO p | XI p -> pos_drop p (k - 1)
let rec float_of_pos = function XH -> 1.0 | XO p -> 2.0 *. float_of_pos p | XI p -> 2.0 *. float_of_pos p +. 1.0
(* (mantissa, exponent): value = m * 2^e, from the top 62 bits *)
let me_of_pos p = let n = pos_bits p in if n <= 62 then (float_of_pos p, 0) else (float_of_pos (pos_drop p (n - 62)), n - 62)
let float_of_qc (x : qc) : float =
  match qc_num x with
  | Z0 -> 0.0
  | Zpos p -> let (mn, en) = me_of_pos p and (md, ed) = me_of_pos (qc_den x) in Float.ldexp (mn /. md) (en - ed)
  | Zneg p -> let (mn, en) = me_of_pos p and (md, ed) = me_of_pos (qc_den x) in -. Float.ldexp (mn /. md) (en - ed)
let g17 x = Printf.sprintf "%.17g" x
(* an exact integer (16 d^2) or num/den *)
let str_of_qc (x : qc) : string =
  let n = qc_num x and d = qc_den x in
  if d = XH && (match n with Z0 -> true | Zpos p | Zneg p -> pos_bits p <= 61) then string_of_int (int_of_z n)
  else g17 (float_of_qc x)

(* approximate square root handed to the field record (used by the construction model only) *)
let qc_sqrt (x : qc) : qc = qc_of_float (Float.sqrt (float_of_qc x))
let fq : qc fops = qc_fops qc_sqrt
let qadd = fq.oadd and qmul = fq.omul and qsub = fq.osub

(* 1e100 and 1e-100 of BaseNearestNeighbor::eval, exactly *)
let huge_q = let ten = qc_of_int 10 in let rec pw k acc = if k = 0 then acc else pw (k - 1) (qmul acc ten) in pw 100 (qc_of_int 1)
let tiny_q = fq.odiv (qc_of_int 1) huge_q

type pkind = KLc | KKhc of (qc list -> qc list -> qc)
let parse_ptree (kind : string) (s : string) =
  (* returns (lc tree option, khc tree option) *)
  let n = String.length s in
  let pos = ref 0 in
  let expect c = if !pos < n && s.[!pos] = c then incr pos else failwith (Printf.sprintf "ptree parse: expected %c at %d in %s" c !pos s) in
  let tok stop = let st = !pos in while !pos < n && not (String.contains stop s.[!pos]) do incr pos done; String.sub s st (!pos - st) in
  let leaf () =
    let l = ref [int_of_string (tok ",()")] in
    while !pos < n && s.[!pos] = ',' do incr pos; l := int_of_string (tok ",()") :: !l done;
    List.rev_map nat_of_int !l in
  let rec golc () : qc lcnode ptree =
    if s.[!pos] = 'L' then (incr pos; PLeaf (leaf ()))
    else begin
      expect 'N'; expect '['; let thr = float_of_string (tok ";") in expect ';';
      let nv = List.map float_of_string (String.split_on_char ',' (tok "]")) in expect ']';
      expect '('; let l = golc () in expect ')'; expect '('; let r = golc () in expect ')';
      PNode ({ lc_normal = List.map qc_of_float nv; lc_thr = qc_of_float thr }, l, r)
    end in
  let rec gokhc () : qc khcnode ptree =
    if s.[!pos] = 'L' then (incr pos; PLeaf (leaf ()))
    else begin
      expect 'N'; expect '['; let thr = float_of_string (tok ";") in expect ';';
      let p = int_of_string (tok ";") in expect ';'; let ng = int_of_string (tok ";") in expect ';';
      let inv = float_of_string (tok "]") in expect ']';
      expect '('; let l = gokhc () in expect ')'; expect '('; let r = gokhc () in expect ')';
      PNode ({ kh_pos = nat_of_int p; kh_neg = nat_of_int ng; kh_inv = qc_of_float inv; kh_thr = qc_of_float thr }, l, r)
    end in
  if kind = "lc" then (Some (golc ()), None) else (None, Some (gokhc ()))

(* by how much the points of the real tree violate  left: funct <= threshold,  right: threshold <= funct  (0 = none) *)
let rec pslack (funct : 'n -> qc list -> qc) (thr : 'n -> qc) (data : qc list list) (t : 'n ptree) : qc =
  let qmax a b = if fq.oleb a b then b else a in
  match t with
  | PLeaf _ -> fq.o0
  | PNode (nd, l, r) ->
    let pts t = List.map (fun i -> List.nth data (int_of_nat i)) (pindices t) in
    let a = List.fold_left (fun acc x -> qmax acc (fq.osub (funct nd x) (thr nd))) fq.o0 (pts l) in
    let b = List.fold_left (fun acc x -> qmax acc (fq.osub (thr nd) (funct nd x))) fq.o0 (pts r) in
    qmax (qmax a b) (qmax (pslack funct thr data l) (pslack funct thr data r))
(* ---- construction of projection trees ----
   pnth=mp:post:pre:keys;...  one entry per std::nth_element call of the real buildTree, keyed by the index SET of the node *)
type prec = { mp : int; post : int list; pre : int list; keys : float list }
let parse_pnth (s : string) : (int list, prec) Hashtbl.t * int =
  let tbl = Hashtbl.create 16 in
  let cnt = ref 0 in
  if s <> "-" && s <> "" then
    List.iter (fun call ->
      match String.split_on_char ':' call with
      | [mp; post; pre; keys] ->
        let ints x = List.map int_of_string (String.split_on_char ',' x) in
        let r = { mp = int_of_string mp; post = ints post; pre = ints pre; keys = List.map float_of_string (String.split_on_char ',' keys) } in
        incr cnt; Hashtbl.replace tbl (List.sort compare r.post) r
      | _ -> failwith ("pnth parse: " ^ call)) (String.split_on_char ';' s);
  (tbl, !cnt)
let close a b = Float.abs (a -. b) <= 1e-12 *. (1.0 +. Float.max (Float.abs a) (Float.abs b))
(* the std::nth_element oracle: the recorded arrangement; also compares the recorded (double) keys with the model's keys
   and looks for ties of the exact keys that rounding broke (or made) *)
let make_poracle tbl flags used ftie =
  fun (l : (qc * nat) list) ->
    let ids = List.map (fun (_, i) -> int_of_nat i) l in
    match Hashtbl.find_opt tbl (List.sort compare ids) with
    | None -> flags := "MISS" :: !flags; aksort fq l
    | Some r ->
      incr used;
      let assoc = List.map (fun (k, i) -> (int_of_nat i, (k, i))) l in
      let res = List.map (fun i -> List.assoc i assoc) r.post in
      let mpm = median_pos (nat_of_int (List.length l)) in
      if int_of_nat mpm <> r.mp then flags := Printf.sprintf "MPOS(real=%d,model=%d,n=%d)" r.mp (int_of_nat mpm) (List.length l) :: !flags;
      let fk = List.combine r.post r.keys in
      List.iter (fun (k, i) -> let f = List.assoc (int_of_nat i) fk in
                  if not (close (float_of_qc k) f) then flags := Printf.sprintf "KEY(point=%d,model=%.17g,real=%.17g)" (int_of_nat i) (float_of_qc k) f :: !flags) l;
      (* tie pattern of exact keys vs recorded doubles *)
      let arr = Array.of_list (List.map (fun (k, i) -> (k, List.assoc (int_of_nat i) fk)) l) in
      let broken = ref false in
      Array.iteri (fun a (ka, fa) -> Array.iteri (fun b (kb, fb) -> if a < b then begin
          let eqm = fq.oleb ka kb && fq.oleb kb ka in
          if eqm <> (fa = fb) then broken := true end) arr) arr;
      if !broken then ftie := true
      else if not (amedian_okb fq mpm res) then flags := Printf.sprintf "MEDIAN(n=%d)" (List.length l) :: !flags;
      res
(* the anchors as coded, evaluated on the order the node's points had when buildTree ran (= before std::nth_element) *)
let make_pchoose tbl flags coded =
  fun (elems : nat list) ->
    let ids = List.map int_of_nat elems in
    match Hashtbl.find_opt tbl (List.sort compare ids) with
    | None -> flags := "MISSCHOOSE" :: !flags; coded elems
    | Some r -> coded (List.map nat_of_int r.pre)
let dump_lc_canon t =
  let b = Buffer.create 256 in
  let rec go = function
    | PLeaf idx -> Buffer.add_string b ("L" ^ String.concat "," (List.map string_of_int (List.sort compare (List.map int_of_nat idx))))
    | PNode (nd, l, r) ->
      Buffer.add_string b (Printf.sprintf "N[%s;%s](" (g17 (float_of_qc nd.lc_thr)) (String.concat "," (List.map (fun x -> g17 (float_of_qc x)) nd.lc_normal)));
      go l; Buffer.add_string b ")("; go r; Buffer.add_string b ")" in
  go t; Buffer.contents b
let dump_khc_canon t =
  let b = Buffer.create 256 in
  let rec go = function
    | PLeaf idx -> Buffer.add_string b ("L" ^ String.concat "," (List.map string_of_int (List.sort compare (List.map int_of_nat idx))))
    | PNode (nd, l, r) ->
      Buffer.add_string b (Printf.sprintf "N[%s;%d;%d;%s](" (g17 (float_of_qc nd.kh_thr)) (int_of_nat nd.kh_pos) (int_of_nat nd.kh_neg) (g17 (float_of_qc nd.kh_inv)));
      go l; Buffer.add_string b ")("; go r; Buffer.add_string b ")" in
  go t; Buffer.contents b
let cutting_accuracy = 25

let rec pnodes = function PLeaf _ -> 1 | PNode (_, l, r) -> 1 + pnodes l + pnodes r
let rec pnode_list = function PLeaf _ -> [] | PNode (nd, l, r) -> nd :: pnode_list l @ pnode_list r

let () =
  let ic = open_in Sys.argv.(1) in
  let data = ref [] and tree = ref (Leaf []) and n = ref 0 in
  let scale = ref 1 in
  let kind = ref "kd" and pdata = ref [] and lct = ref None and khct = ref None and kern = ref (lin_k fq) in
  (try
    while true do
      let l = input_line ic in
      let main, extra = match String.index_opt l '|' with
        | Some i -> String.sub l 0 i, String.sub l (i + 1) (String.length l - i - 1)
        | None -> l, "" in
      let toks = List.filter (fun x -> x <> "") (String.split_on_char ' ' main) in
      (* "lc/8": coordinate scale 8 (real value = c/8, queries h/16); squared distances are printed in scaled integer units *)
      let toks = (match toks with
        | "D" :: k :: rest ->
          (match String.index_opt k '/' with
           | Some i -> scale := int_of_string (String.sub k (i + 1) (String.length k - i - 1)); "D" :: String.sub k 0 i :: rest
           | None -> scale := 1; toks)
        | _ -> toks) in
      match toks with
      | [] -> ()
      | "D" :: knd :: _bucket :: dim :: nn :: cs when knd <> "kd" ->
        let dim = int_of_string dim in
        n := int_of_string nn; kind := knd;
        let cs = Array.of_list (List.map int_of_string cs) in
        pdata := List.init !n (fun i -> List.init dim (fun d -> fq.odiv (qc_of_int cs.(i * dim + d)) (qc_of_int !scale)));
        kern := (if knd = "khc2" then poly2_k fq (qc_of_int 1) else lin_k fq);
        let e = String.trim extra in
        let fields = List.filter (fun x -> x <> "") (String.split_on_char ' ' e) in
        let ts = List.fold_left (fun acc f -> if String.length f > 6 && String.sub f 0 6 = "ptree=" then String.sub f 6 (String.length f - 6) else acc) "" fields in
        if ts = "" then failwith "D line without ptree";
        let (a, b) = parse_ptree knd ts in lct := a; khct := b;
        let wf, slack, units, nn, perm = (match a, b with
          | Some t, _ ->
            pwf_treeb fq (lc_funct fq) (fun nd -> nd.lc_thr) !pdata t, pslack (lc_funct fq) (fun nd -> nd.lc_thr) !pdata t,
            List.map (fun nd -> (lc_unitb fq nd, float_of_qc (dot fq nd.lc_normal nd.lc_normal))) (pnode_list t), pnodes t,
            List.sort compare (List.map int_of_nat (pindices t))
          | _, Some t ->
            pwf_treeb fq (khc_funct fq !kern !pdata) (fun nd -> nd.kh_thr) !pdata t, pslack (khc_funct fq !kern !pdata) (fun nd -> nd.kh_thr) !pdata t,
            List.map (fun nd -> (khc_nodeb fq !kern !pdata nd,
                                 float_of_qc (qmul (qmul nd.kh_inv nd.kh_inv) (kd2 fq !kern (List.nth !pdata (int_of_nat nd.kh_pos)) (List.nth !pdata (int_of_nat nd.kh_neg)))))) (pnode_list t), pnodes t,
            List.sort compare (List.map int_of_nat (pindices t))
          | _ -> failwith "no tree") in
        let pn = List.fold_left (fun acc f -> if String.length f > 5 && String.sub f 0 5 = "pnth=" then String.sub f 5 (String.length f - 5) else acc) "" fields in
        let built =
          if pn = "" then "" else begin
            let tbl, ncalls = parse_pnth pn in
            let flags = ref [] and used = ref 0 and ftie = ref false in
            let ca = nat_of_int cutting_accuracy in
            let dump, mwf, munit = (match knd with
              | "lc" ->
                let t = lc_build fq !pdata (make_pchoose tbl flags (lc_coded_choose fq ca !pdata)) (make_poracle tbl flags used ftie) in
                dump_lc_canon t, pwf_treeb fq (lc_funct fq) (fun nd -> nd.lc_thr) !pdata t,
                List.for_all (fun nd -> close (float_of_qc (dot fq nd.lc_normal nd.lc_normal)) 1.0) (pnode_list t)
              | _ ->
                let t = khc_build fq !kern !pdata (make_pchoose tbl flags (khc_coded_choose fq !kern ca !pdata)) (make_poracle tbl flags used ftie) in
                dump_khc_canon t, pwf_treeb fq (khc_funct fq !kern !pdata) (fun nd -> nd.kh_thr) !pdata t,
                List.for_all (fun nd -> close (float_of_qc (qmul (qmul nd.kh_inv nd.kh_inv) (kd2 fq !kern (List.nth !pdata (int_of_nat nd.kh_pos)) (List.nth !pdata (int_of_nat nd.kh_neg))))) 1.0) (pnode_list t)) in
            Printf.sprintf " built=%s oracle=%s calls=%d/%d ftie=%s modelwf=%s modelunit=%s" dump
              (if !flags = [] then "ok" else String.concat "," (List.rev !flags)) !used ncalls (if !ftie then "yes" else "no")
              (if mwf then "WF" else "NOTWF") (if munit then "ok" else "BAD")
          end in
        Printf.printf "D n=%d nodes=%d wf=%s slack=%s partition=%s unitok=%d/%d unit=%s%s\n" !n nn (if wf then "WF" else "NOTWF") (g17 (float_of_qc slack))
          (if perm = List.init !n (fun i -> i) then "ok" else "BAD")
          (List.length (List.filter fst units)) (List.length units)
          (if units = [] then "-" else String.concat "," (List.map (fun (_, u) -> g17 u) units)) built
      | "V" :: u :: nc :: rest ->
        (* vote of NearestNeighborModel (classification) on the neighbour list a real back-end returned:  V <uniform 0/1> <classes> d:l,d:l,.. *)
        let nb = List.map (fun t -> match String.split_on_char ':' t with
                   | [d; l] -> (qc_of_float (float_of_string d), nat_of_int (int_of_string l)) | _ -> failwith "V parse")
                   (String.split_on_char ',' (String.concat "" rest)) in
        let uni = (u = "1") and ncn = nat_of_int (int_of_string nc) in
        let sc = nn_scores fq tiny_q huge_q uni ncn nb in
        (* indices whose score equals the maximum in exact arithmetic (rounding to double can hide a difference) *)
        let mx = List.fold_left (fun m x -> if fq.oleb m x then x else m) (List.hd sc) sc in
        let exm = List.filter (fun i -> let x = List.nth sc i in fq.oleb mx x && fq.oleb x mx) (List.init (List.length sc) (fun i -> i)) in
        Printf.printf "V %d %s %s\n" (int_of_nat (nn_classify fq tiny_q huge_q uni ncn nb)) (String.concat "," (List.map (fun x -> g17 (float_of_qc x)) sc))
          (String.concat "," (List.map string_of_int exm))
      | "W" :: u :: dl :: rest ->
        (* regression:  W <uniform 0/1> <label dimension> d:l0,l1;d:l0,l1;.. *)
        let nb = List.map (fun t -> match String.split_on_char ':' t with
                   | [d; l] -> (qc_of_float (float_of_string d), List.map (fun x -> qc_of_float (float_of_string x)) (String.split_on_char ',' l)) | _ -> failwith "W parse")
                   (String.split_on_char ';' (String.concat "" rest)) in
        let r = nn_regress fq tiny_q huge_q (u = "1") (nat_of_int (int_of_string dl)) nb in
        Printf.printf "W %s\n" (String.concat "," (List.map (fun x -> g17 (float_of_qc x)) r))
      | "Q" :: hs when !kind <> "kd" ->
        let q = List.map (fun h -> fq.odiv (qc_of_int (int_of_string h)) (qc_of_int (2 * !scale))) hs in
        let b = Buffer.create 1024 in
        let sixteen = qc_of_int (16 * !scale * !scale * (if !kind = "khc2" then !scale * !scale else 1)) in
        let tr, bounds, qk = (match !lct, !khct with
          | Some t, _ -> lc_query_trace fq !pdata t q (nat_of_int !n), pbounds fq (lc_funct fq) (fun nd -> nd.lc_thr) q [] t,
                         (fun k -> lc_query fq !pdata t q (nat_of_int k))
          | _, Some t -> khc_query_trace fq !kern !pdata t q (nat_of_int !n), pbounds fq (khc_funct fq !kern !pdata) (fun nd -> nd.kh_thr) q [] t,
                         (fun k -> khc_query fq !kern !pdata t q (nat_of_int k))
          | _ -> failwith "no tree") in
        Buffer.add_string b "Q it=";
        Buffer.add_string b (String.concat ";" (List.map (fun (((d, i), qs), r) ->
          Printf.sprintf "%s:%d:%d:%s" (str_of_qc (qmul sixteen d)) (int_of_nat i) (int_of_nat qs)
            (match r with None -> "inf" | Some r -> g17 (float_of_qc r))) tr));
        Buffer.add_string b " lb="; Buffer.add_string b (String.concat "," (List.map (fun x -> g17 (float_of_qc x)) bounds));
        let fps = (match !lct, !khct with
          | Some t, _ -> List.map (fun nd -> qsub (lc_funct fq nd q) nd.lc_thr) (pnode_list t)
          | _, Some t -> List.map (fun nd -> qsub (khc_funct fq !kern !pdata nd q) nd.kh_thr) (pnode_list t)
          | _ -> []) in
        Buffer.add_string b " fp="; Buffer.add_string b (if fps = [] then "-" else String.concat "," (List.map (fun x -> g17 (float_of_qc x)) fps));
        for k = 1 to !n do
          if not (!n > 10 && not (k <= 3 || k = !n / 2 || k + 1 >= !n)) then begin
            Buffer.add_string b (Printf.sprintf " k%d=" k);
            Buffer.add_string b (String.concat ";" (List.map (fun (d, i) -> Printf.sprintf "%s:%d" (str_of_qc (qmul sixteen d)) (int_of_nat i)) (qk k)))
          end
        done;
        print_endline (Buffer.contents b)
      | "D" :: _kind :: _bucket :: dim :: nn :: cs ->
        let dim = int_of_string dim in
        n := int_of_string nn; kind := "kd";
        let cs = Array.of_list (List.map int_of_string cs) in
        data := List.init !n (fun i -> List.init dim (fun d -> z_of_int (2 * cs.(i * dim + d))));
        let e = String.trim extra in
        let fields = List.filter (fun x -> x <> "") (String.split_on_char ' ' e) in
        let field name = List.fold_left (fun acc f ->
          let k = String.length name in
          if String.length f > k && String.sub f 0 (k + 1) = name ^ "=" then Some (String.sub f (k + 1) (String.length f - k - 1)) else acc) None fields in
        let ts = match field "tree" with Some t -> t | None -> failwith "D line without tree" in
        tree := parse_tree ts;
        let b = Buffer.create 256 in
        dump_tree b !tree;
        let built = match field "nth" with
          | None -> ""
          | Some ns ->
            let tbl, ncalls = parse_nth ns in
            let flags = ref [] and used = ref 0 in
            let t = kd_build !data (make_oracle tbl flags used) in
            let ts = kd_build !data ksort in
            Printf.sprintf " built=%s real=%s oracle=%s calls=%d/%d sortoracle=%s modelwf=%s" (canon t) (canon !tree)
              (if !flags = [] then "ok" else String.concat "," (List.rev !flags)) !used ncalls
              (if canon ts = canon t then "same" else "DIFF")
              (if wf_treeb !data t then "WF" else "NOTWF") in
        Printf.printf "D n=%d nodes=%d tree=%s %s%s\n" !n (nodes !tree) (Buffer.contents b)
          (if wf_treeb !data !tree then "WF" else "NOTWF") built
      | "Q" :: hs ->
        let q = List.map (fun h -> z_of_int (int_of_string h)) hs in
        let b = Buffer.create 1024 in
        Buffer.add_string b "Q it=";
        let tr = query_trace !data !tree q (nat_of_int !n) in
        Buffer.add_string b (String.concat ";" (List.map (fun (((d, i), qs), r) ->
          Printf.sprintf "%d:%d:%d:%s" (4 * int_of_z d) (int_of_nat i) (int_of_nat qs)
            (match r with None -> "inf" | Some r -> string_of_int (4 * int_of_z r))) tr));
        for k = 1 to !n do
          if not (!n > 10 && not (k <= 3 || k = !n / 2 || k + 1 >= !n)) then begin
            let r = query !data !tree q (nat_of_int k) in
            Buffer.add_string b (Printf.sprintf " k%d=" k);
            Buffer.add_string b (String.concat ";" (List.map (fun (d, i) -> Printf.sprintf "%d:%d" (4 * int_of_z d) (int_of_nat i)) r))
          end
        done;
        print_endline (Buffer.contents b)
      | _ -> print_endline "?"
    done
  with End_of_file -> ())
