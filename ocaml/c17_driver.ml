(* Driver for the extracted C17 model.  Reads the same case file as harness/c17_nn.cpp:
     D kd <bucket> <dim> <n> c.. | tree=<dump of the real tree> nth=<recorded std::nth_element results>
     Q h_0 .. h_(dim-1)
   The D line also runs the construction model C17Build.kd_build: its nth_element oracle answers with the
   arrangement the real std::nth_element left behind for the node with the same index set (nth=mp:i,i,..;..),
   each answer is checked with the extracted median_okb at the model's median position; the built tree is
   printed with sorted leaves (built=..) for comparison with the real tree.
   The model works on doubled coordinates (data 2c, query h, thresholds 2*thr as dumped), so model
   squared distances are 4 x real; 16 x real is printed, as by the harness. *)
open C17_model

let rec nat_of_int n = if n <= 0 then O else S (nat_of_int (n - 1))
let rec int_of_nat = function O -> 0 | S n -> 1 + int_of_nat n
let rec pos_of_int n = if n = 1 then XH else if n land 1 = 0 then XO (pos_of_int (n lsr 1)) else XI (pos_of_int (n lsr 1))
let z_of_int n = if n = 0 then Z0 else if n > 0 then Zpos (pos_of_int n) else Zneg (pos_of_int (-n))
let rec int_of_pos = function XH -> 1 | XO p -> 2 * int_of_pos p | XI p -> 2 * int_of_pos p + 1
let int_of_z = function Z0 -> 0 | Zpos p -> int_of_pos p | Zneg p -> - (int_of_pos p)

(* tree dump:  L i,j,k   |   N<cd>:<thr2>(<left>)(<right>) *)
let parse_tree (s : string) : tree =
  let n = String.length s in
  let pos = ref 0 in
  let num () =
    let st = !pos in
    if !pos < n && s.[!pos] = '-' then incr pos;
    while !pos < n && s.[!pos] >= '0' && s.[!pos] <= '9' do incr pos done;
    int_of_string (String.sub s st (!pos - st)) in
  let expect c = if !pos < n && s.[!pos] = c then incr pos else failwith (Printf.sprintf "tree parse: expected %c at %d" c !pos) in
  let rec go () =
    if s.[!pos] = 'L' then begin
      incr pos;
      let l = ref [num ()] in
      while !pos < n && s.[!pos] = ',' do incr pos; l := num () :: !l done;
      Leaf (List.rev_map nat_of_int !l)
    end else begin
      expect 'N'; let cd = num () in expect ':'; let thr = num () in
      expect '('; let l = go () in expect ')'; expect '('; let r = go () in expect ')';
      Node (nat_of_int cd, z_of_int thr, l, r)
    end in
  go ()

let rec dump_tree b = function
  | Leaf idx -> Buffer.add_string b ("L" ^ String.concat "," (List.map (fun i -> string_of_int (int_of_nat i)) idx))
  | Node (cd, thr, l, r) ->
    Buffer.add_string b (Printf.sprintf "N%d:%d(" (int_of_nat cd) (int_of_z thr));
    dump_tree b l; Buffer.add_string b ")("; dump_tree b r; Buffer.add_string b ")"
let rec dump_canon b = function
  | Leaf idx -> Buffer.add_string b ("L" ^ String.concat "," (List.map string_of_int (List.sort compare (List.map int_of_nat idx))))
  | Node (cd, thr, l, r) ->
    Buffer.add_string b (Printf.sprintf "N%d:%d(" (int_of_nat cd) (int_of_z thr));
    dump_canon b l; Buffer.add_string b ")("; dump_canon b r; Buffer.add_string b ")"
let canon t = let b = Buffer.create 256 in dump_canon b t; Buffer.contents b

(* nth=mp:i,i,i;mp:i,i  ->  table: sorted index list -> (mp, arrangement) *)
let parse_nth (s : string) : (int list, int * int list) Hashtbl.t * int =
  let tbl = Hashtbl.create 16 in
  let cnt = ref 0 in
  if s <> "-" && s <> "" then
    List.iter (fun call ->
      match String.split_on_char ':' call with
      | [mp; idx] ->
        let arr = List.map int_of_string (String.split_on_char ',' idx) in
        incr cnt; Hashtbl.replace tbl (List.sort compare arr) (int_of_string mp, arr)
      | _ -> failwith ("nth parse: " ^ call)) (String.split_on_char ';' s);
  (tbl, !cnt)

(* the oracle handed to kd_build; problems are collected in `flags` *)
let make_oracle tbl flags used =
  fun (l : (z * nat) list) ->
    let ids = List.map (fun (_, i) -> int_of_nat i) l in
    match Hashtbl.find_opt tbl (List.sort compare ids) with
    | None -> flags := "MISS" :: !flags; ksort l
    | Some (mp, arr) ->
      incr used;
      let assoc = List.map (fun (k, i) -> (int_of_nat i, (k, i))) l in
      let r = List.map (fun i -> List.assoc i assoc) arr in
      let mpm = median_pos (nat_of_int (List.length l)) in
      if int_of_nat mpm <> mp then flags := Printf.sprintf "MPOS(real=%d,model=%d,n=%d)" mp (int_of_nat mpm) (List.length l) :: !flags;
      if not (median_okb mpm r) then flags := Printf.sprintf "MEDIAN(n=%d)" (List.length l) :: !flags;
      r

let rec nodes = function Leaf _ -> 1 | Node (_, _, l, r) -> 1 + nodes l + nodes r

let () =
  let ic = open_in Sys.argv.(1) in
  let data = ref [] and tree = ref (Leaf []) and n = ref 0 in
  (try
    while true do
      let l = input_line ic in
      let main, extra = match String.index_opt l '|' with
        | Some i -> String.sub l 0 i, String.sub l (i + 1) (String.length l - i - 1)
        | None -> l, "" in
      let toks = List.filter (fun x -> x <> "") (String.split_on_char ' ' main) in
      match toks with
      | [] -> ()
      | "D" :: _kind :: _bucket :: dim :: nn :: cs ->
        let dim = int_of_string dim in
        n := int_of_string nn;
        let cs = Array.of_list (List.map int_of_string cs) in
        data := List.init !n (fun i -> List.init dim (fun d -> z_of_int (2 * cs.(i * dim + d))));
        let e = String.trim extra in
        let fields = List.filter (fun x -> x <> "") (String.split_on_char ' ' e) in
        let field name = List.fold_left (fun acc f ->
          let k = String.length name in
          if String.length f > k && String.sub f 0 (k + 1) = name ^ "=" then Some (String.sub f (k + 1) (String.length f - k - 1)) else acc) None fields in
        let ts = match field "tree" with Some t -> t | None -> failwith "D line without tree" in
        tree := parse_tree ts;
        let b = Buffer.create 256 in
        dump_tree b !tree;
        let built = match field "nth" with
          | None -> ""
          | Some ns ->
            let tbl, ncalls = parse_nth ns in
            let flags = ref [] and used = ref 0 in
            let t = kd_build !data (make_oracle tbl flags used) in
            let ts = kd_build !data ksort in
            Printf.sprintf " built=%s real=%s oracle=%s calls=%d/%d sortoracle=%s modelwf=%s" (canon t) (canon !tree)
              (if !flags = [] then "ok" else String.concat "," (List.rev !flags)) !used ncalls
              (if canon ts = canon t then "same" else "DIFF")
              (if wf_treeb !data t then "WF" else "NOTWF") in
        Printf.printf "D n=%d nodes=%d tree=%s %s%s\n" !n (nodes !tree) (Buffer.contents b)
          (if wf_treeb !data !tree then "WF" else "NOTWF") built
      | "Q" :: hs ->
        let q = List.map (fun h -> z_of_int (int_of_string h)) hs in
        let b = Buffer.create 1024 in
        Buffer.add_string b "Q it=";
        let tr = query_trace !data !tree q (nat_of_int !n) in
        Buffer.add_string b (String.concat ";" (List.map (fun (((d, i), qs), r) ->
          Printf.sprintf "%d:%d:%d:%s" (4 * int_of_z d) (int_of_nat i) (int_of_nat qs)
            (match r with None -> "inf" | Some r -> string_of_int (4 * int_of_z r))) tr));
        for k = 1 to !n do
          if not (!n > 10 && not (k <= 3 || k = !n / 2 || k + 1 >= !n)) then begin
            let r = query !data !tree q (nat_of_int k) in
            Buffer.add_string b (Printf.sprintf " k%d=" k);
            Buffer.add_string b (String.concat ";" (List.map (fun (d, i) -> Printf.sprintf "%d:%d" (4 * int_of_z d) (int_of_nat i)) r))
          end
        done;
        print_endline (Buffer.contents b)
      | _ -> print_endline "?"
    done
  with End_of_file -> ())
