(* Driver for the extracted C11 model, float instantiation (IEEE double = OCaml float; operations are
   passed as ordinary record fields, no Extract Constant).  One output line per input line.
   U n lambda mu cC c1 cMu cSigma dSigma muEff counter sigma mean[n] C[n*n] pc[n] ps[n] B[n*n] ws[mu] (fit x[n] z[n])*lambda
       -> U sigma' mean'[n] C'[n*n] pc'[n] ps'[n] bestfit bestpoint[n]
   E active v0 nanc anc[nanc] (unp pen)*k   -> E (val anc[nanc])*k        (state after every prefix of the history)
   P n lo hi penalty c x[n]                 -> P unp pen                  (objective sum (x_i-c)^2 on the box [lo,hi]^n)
   S n lambda mu cC L[n*n] (fit x[n] step[n] sigma_i)*lambda
       -> S sigma' mean'[n] L'[n*n]   |  S EXC          (cmsa_update; None = the Cholesky update throws)
   C n cp d ptarget cc ccov cu pthresh active nanc anc[nanc] pen L[n*n] pc[n] step[n] z[n] sigma psucc
       -> C L'[n*n] pc'[n] sigma' psucc'   |  C EXC     (ecma_chrom_step)
   V n lambda mu cC c1 cMu cSigma dSigma muEff counter sigma mean[n] D[n] vn[n] normv pc[n] ps[n] ws[mu] (fit x[n] y[n])*lambda
     [z[n]]
       -> V sigma' mean'[n] D'[n] vn'[n] normv' pc'[n] ps'[n] cov'[n*n] [x[n] y[n]]
          (vd_update; cov' = vd_cov D' (normv' vn'); x, y = vd_sample on the PRE state with the normal draws z)
   H n alpha beta L[n*n] v[n]   -> H L'[n*n]  |  H EXC                  (chol_update)
   NI n big p0len p0[p0len] start[n] k (val pt[n])*k
       -> NI (val pt[n])*(n+1) B bestval bplen bestpt[bplen] L nlook miss (pt[n])*nlook
          (sd_init — as repaired by d2acfe00, big and p0 are ignored; the objective is the TABLE of the implementation's own evaluations (k entries): a point the model asks for that
           the implementation did not evaluate sets miss = 1; the points the model asked for are listed in order)
   NS n (val pt[n])*(n+1) bestval bplen bestpt[bplen] k (val pt[n])*k
       -> NS (val pt[n])*(n+1) B bestval bplen bestpt[bplen] L nlook miss (pt[n])*nlook          (sd_step, same oracle convention)
   X n lambda mu kind a b counter mean[n] var[n] (z[n])*lambda (fit x[n])*lambda
       -> X S <r> U <r> Z (x[n])*lambda     <r> = EXC | mean'[n] var'[n] bestval bestpt[n] miss
          (S: cem_step on the draws z with the table (x -> fit) as oracle; U: cem_select_update on the recorded offspring;
           Z: cem_sample of every draw; kind 0/1 = cem_noise_const a (0: a = 0), 2 = cem_noise_linear a b)
   UW <the U line> eig[n]
       -> UW sigma' mean'[n] C'[n*n] pc'[n] ps'[n] X (x[n])*lambda D dist
          (cma_step: the offspring are SAMPLED by the model from the recorded draws z with the sampling matrix Q diag(sqrt(max(eig,0)))
           and evaluated by the oracle "fitness of the nearest recorded search point"; dist = largest distance to that point)
   SW n lambda mu cC cSigma sigma mean[n] L[n*n] (fit x[n] step[n] sigma_i)*lambda (z[n] g)*lambda
       -> SW sigma' mean'[n] L'[n*n] X (x[n])*lambda D dist  |  SW EXC      (cmsa_step, same oracle convention)
   Cholesky factors travel as full row-major n*n matrices; the model takes the list of trailing columns
   (column j = L(j,j), L(j+1,j), .., L(n-1,j)); the driver converts in both directions (zeros above the diagonal). *)
open C11_model

let rec nat_of_int n = if n <= 0 then O else S (nat_of_int (n - 1))
let rec int_of_nat = function O -> 0 | S n -> 1 + int_of_nat n

let fops : float ops = {
  o_zero = 0.0; o_one = 1.0; o_two = 2.0;
  o_add = ( +. ); o_sub = ( -. ); o_mul = ( *. ); o_div = ( /. );
  o_ltb = (fun a b -> a < b);
  o_sqrt = sqrt; o_exp = exp; o_pow = ( ** );
  o_ofnat = (fun n -> float_of_int (int_of_nat n)) }

let pf x = if x <> x then "nan" else if x = infinity then "inf" else if x = neg_infinity then "-inf" else Printf.sprintf "%h" x
let fos s = match s with "inf" -> infinity | "-inf" -> neg_infinity | "nan" | "-nan" -> nan | _ -> float_of_string s

(* full row-major matrix (list of rows) <-> trailing columns *)
let cols_of_full n (rows : float list list) : float list list =
  let a = Array.of_list (List.map Array.of_list rows) in
  List.init n (fun j -> List.init (n - j) (fun i -> a.(j + i).(j)))
let full_of_cols n (cols : float list list) : float list =
  let c = Array.of_list (List.map Array.of_list cols) in
  List.concat (List.init n (fun i -> List.init n (fun j ->
    if i >= j && j < Array.length c && i - j < Array.length c.(j) then c.(j).(i - j) else 0.0)))
let sv v = String.concat " " (List.map pf v)

let () =
  let ic = open_in Sys.argv.(1) in
  (try while true do
      let l = input_line ic in
      let t = Array.of_list (List.filter (fun x -> x <> "" && x <> "|") (String.split_on_char ' ' l)) in
      if Array.length t = 0 then print_newline () else
      match t.(0) with
      | "U" ->
        let n = int_of_string t.(1) and lambda = int_of_string t.(2) and mu = int_of_string t.(3) in
        let f i = fos t.(i) in
        let k = { k_cC = f 4; k_c1 = f 5; k_cMu = f 6; k_cSigma = f 7; k_dSigma = f 8; k_muEff = f 9 } in
        let counter = int_of_string t.(10) and sigma = f 11 in
        let p = ref 12 in
        let vecn m = let v = List.init m (fun i -> f (!p + i)) in p := !p + m; v in
        let matn m = List.init m (fun _ -> vecn m) in
        let mean = vecn n in let c = matn n in let pc = vecn n in let ps = vecn n in let b = matn n in
        let ws = vecn mu in
        let off = List.init lambda (fun _ -> let fit = f !p in incr p; let x = vecn n in let z = vecn n in (fit, (x, z))) in
        let st = { s_mean = mean; s_sigma = sigma; s_C = c; s_pc = pc; s_ps = ps; s_counter = nat_of_int counter } in
        let st' = cma_update fops k (nat_of_int n) (nat_of_int mu) ws b st off in
        let best = List.hd (select fops (nat_of_int mu) off) in
        let sv v = String.concat " " (List.map pf v) in
        Printf.printf "U %s %s %s %s %s %s %s\n" (pf st'.s_sigma) (sv st'.s_mean) (sv (List.concat st'.s_C)) (sv st'.s_pc) (sv st'.s_ps)
          (pf (fst best)) (sv (fst (snd best)))
      | "E" ->
        let active = t.(1) = "1" in
        let v0 = fos t.(2) and na = int_of_string t.(3) in
        let anc = List.init na (fun i -> fos t.(4 + i)) in
        let s = ref { e_point = -1; e_value = v0; e_anc = anc } in
        let b = Buffer.create 256 in
        Buffer.add_string b "E";
        let p = ref (4 + na) and id = ref 0 in
        while !p + 1 < Array.length t do
          let unp = fos t.(!p) and pen = fos t.(!p + 1) in
          s := elitist_step fops active !s ((!id, unp), pen);
          Buffer.add_string b (" " ^ pf !s.e_value);
          List.iter (fun a -> Buffer.add_string b (" " ^ pf a)) !s.e_anc;
          p := !p + 2; incr id
        done;
        print_endline (Buffer.contents b)
      | "P" ->
        let n = int_of_string t.(1) in
        let lo = fos t.(2) and hi = fos t.(3) and pen = fos t.(4) and c = fos t.(5) in
        let x = List.init n (fun i -> fos t.(6 + i)) in
        let fobj v = List.fold_left (fun s xi -> s +. (xi -. c) *. (xi -. c)) 0.0 v in
        let feasible v = not (List.exists (fun xi -> xi +. 1.e-13 < lo || xi -. 1.e-13 > hi) v) in
        let closest v = List.map (fun xi -> Float.min (Float.max xi lo) hi) v in
        let (u, pz) = penalized_eval fops fobj feasible closest pen x in
        Printf.printf "P %s %s\n" (pf u) (pf pz)
      | "S" ->
        let n = int_of_string t.(1) and lambda = int_of_string t.(2) and mu = int_of_string t.(3) in
        let f i = fos t.(i) in
        let cC = f 4 in
        let p = ref 5 in
        let vecn m = let v = List.init m (fun i -> f (!p + i)) in p := !p + m; v in
        let matn m = List.init m (fun _ -> vecn m) in
        let l = cols_of_full n (matn n) in
        let off = List.init lambda (fun _ -> let fit = f !p in incr p; let x = vecn n in let st = vecn n in
                                             let si = f !p in incr p; (fit, (x, (st, si)))) in
        (match cmsa_update fops (nat_of_int n) (nat_of_int mu) cC l off with
         | Some ((mean, sigma), l') -> Printf.printf "S %s %s %s\n" (pf sigma) (sv mean) (sv (full_of_cols n l'))
         | None -> print_endline "S EXC")
      | "C" ->
        let n = int_of_string t.(1) in
        let f i = fos t.(i) in
        let k = { q_cp = f 2; q_d = f 3; q_ptarget = f 4; q_cc = f 5; q_ccov = f 6; q_cu = f 7; q_pthresh = f 8 } in
        let active = t.(9) = "1" in
        let na = int_of_string t.(10) in
        let p = ref 11 in
        let vecn m = let v = List.init m (fun i -> f (!p + i)) in p := !p + m; v in
        let matn m = List.init m (fun _ -> vecn m) in
        let anc = vecn na in
        let pen = f !p in incr p;
        let l = cols_of_full n (matn n) in
        let pc = vecn n in let step = vecn n in let z = vecn n in
        let sigma = f !p in let psucc = f (!p + 1) in
        let c = { h_L = l; h_pc = pc; h_step = step; h_z = z; h_sigma = sigma; h_psucc = psucc } in
        (match ecma_chrom_step fops k active anc pen c with
         | Some c' -> Printf.printf "C %s %s %s %s\n" (sv (full_of_cols n c'.h_L)) (sv c'.h_pc) (pf c'.h_sigma) (pf c'.h_psucc)
         | None -> print_endline "C EXC")
      | "V" ->
        let n = int_of_string t.(1) and lambda = int_of_string t.(2) and mu = int_of_string t.(3) in
        let f i = fos t.(i) in
        let k = { k_cC = f 4; k_c1 = f 5; k_cMu = f 6; k_cSigma = f 7; k_dSigma = f 8; k_muEff = f 9 } in
        let counter = int_of_string t.(10) and sigma = f 11 in
        let p = ref 12 in
        let vecn m = let v = List.init m (fun i -> f (!p + i)) in p := !p + m; v in
        let mean = vecn n in let d = vecn n in let vn = vecn n in
        let normv = f !p in incr p;
        let pc = vecn n in let ps = vecn n in
        let ws = vecn mu in
        let off = List.init lambda (fun _ -> let fit = f !p in incr p; let x = vecn n in let y = vecn n in (fit, (x, y))) in
        let st = { v_mean = mean; v_sigma = sigma; v_D = d; v_vn = vn; v_normv = normv; v_pc = pc; v_ps = ps; v_counter = nat_of_int counter } in
        let st' = vd_update fops k (nat_of_int n) (nat_of_int mu) ws st off in
        (* optional: the normal draws z[n] of one createSample call on the PRE state -> vd_sample; always: vd_cov of the POST state *)
        let smp = if !p + n <= Array.length t then (let z = vecn n in let (x, y) = vd_sample fops mean sigma d vn normv z in sv x ^ " " ^ sv y) else "" in
        let v' = List.map (fun a -> st'.v_normv *. a) st'.v_vn in
        Printf.printf "V %s %s %s %s %s %s %s %s %s\n" (pf st'.v_sigma) (sv st'.v_mean) (sv st'.v_D) (sv st'.v_vn) (pf st'.v_normv) (sv st'.v_pc) (sv st'.v_ps)
          (sv (List.concat (vd_cov fops st'.v_D v'))) smp
      | "H" ->
        let n = int_of_string t.(1) in
        let f i = fos t.(i) in
        let alpha = f 2 and beta = f 3 in
        let rows = List.init n (fun i -> List.init n (fun j -> f (4 + i * n + j))) in
        let v = List.init n (fun i -> f (4 + n * n + i)) in
        (match chol_update fops alpha beta (cols_of_full n rows) v with
         | Some c -> Printf.printf "H %s\n" (sv (full_of_cols n c))
         | None -> print_endline "H EXC")
      | "UW" ->
        let n = int_of_string t.(1) and lambda = int_of_string t.(2) and mu = int_of_string t.(3) in
        let f i = fos t.(i) in
        let k = { k_cC = f 4; k_c1 = f 5; k_cMu = f 6; k_cSigma = f 7; k_dSigma = f 8; k_muEff = f 9 } in
        let counter = int_of_string t.(10) and sigma = f 11 in
        let p = ref 12 in
        let vecn m = let v = List.init m (fun i -> f (!p + i)) in p := !p + m; v in
        let matn m = List.init m (fun _ -> vecn m) in
        let mean = vecn n in let c = matn n in let pc = vecn n in let ps = vecn n in let b = matn n in
        let ws = vecn mu in
        let off = List.init lambda (fun _ -> let fit = f !p in incr p; let x = vecn n in let z = vecn n in (fit, (x, z))) in
        let eigv = vecn n in
        let smat = List.map (fun row -> List.map2 (fun q l -> q *. sqrt (Float.max l 0.0)) row eigv) b in
        let dist = ref 0.0 and xs = ref [] in
        let oracle x =
          xs := x :: !xs;
          let d (_, (y, _)) = List.fold_left2 (fun m a b -> Float.max m (Float.abs (a -. b))) 0.0 x y in
          let best = List.fold_left (fun acc o -> match acc with None -> Some o | Some o' -> if d o < d o' then Some o else acc) None off in
          match best with Some o -> dist := Float.max !dist (d o); fst o | None -> nan in
        let st = { s_mean = mean; s_sigma = sigma; s_C = c; s_pc = pc; s_ps = ps; s_counter = nat_of_int counter } in
        let zs = List.map (fun (_, (_, z)) -> z) off in
        let st' = cma_step fops oracle (fun _ -> (b, smat)) k (nat_of_int n) (nat_of_int mu) ws st zs in
        (* the sampled points in offspring order (the oracle may be called in any order) *)
        let sampled = List.map (fun z -> fst (snd (cma_offspring fops (fun _ -> 0.0) smat mean sigma z))) zs in
        Printf.printf "UW %s %s %s %s %s X %s D %s\n" (pf st'.s_sigma) (sv st'.s_mean) (sv (List.concat st'.s_C)) (sv st'.s_pc) (sv st'.s_ps)
          (String.concat " " (List.map sv sampled)) (pf !dist)
      | "SW" ->
        let n = int_of_string t.(1) and lambda = int_of_string t.(2) and mu = int_of_string t.(3) in
        let f i = fos t.(i) in
        let cC = f 4 and cSigma = f 5 and sigma = f 6 in
        let p = ref 7 in
        let vecn m = let v = List.init m (fun i -> f (!p + i)) in p := !p + m; v in
        let matn m = List.init m (fun _ -> vecn m) in
        let mean = vecn n in
        let l = cols_of_full n (matn n) in
        let off = List.init lambda (fun _ -> let fit = f !p in incr p; let x = vecn n in let st = vecn n in
                                             let si = f !p in incr p; (fit, (x, (st, si)))) in
        let draws = List.init lambda (fun _ -> let z = vecn n in let g = f !p in incr p; (z, g)) in
        let dist = ref 0.0 in
        let oracle x =
          let d (_, (y, _)) = List.fold_left2 (fun m a b -> Float.max m (Float.abs (a -. b))) 0.0 x y in
          let best = List.fold_left (fun acc o -> match acc with None -> Some o | Some o' -> if d o < d o' then Some o else acc) None off in
          match best with Some o -> dist := Float.max !dist (d o); fst o | None -> nan in
        let sampled = List.map (fun zg -> fst (snd (cmsa_offspring fops (fun _ -> 0.0) cSigma mean sigma l zg))) draws in
        (match cmsa_step fops oracle cSigma cC (nat_of_int n) (nat_of_int mu) ((mean, sigma), l) draws with
         | Some ((mean', sigma'), l') ->
           Printf.printf "SW %s %s %s X %s D %s\n" (pf sigma') (sv mean') (sv (full_of_cols n l')) (String.concat " " (List.map sv sampled)) (pf !dist)
         | None -> print_endline "SW EXC")
      | "NI" | "NS" ->
        let n = int_of_string t.(1) in
        let f i = fos t.(i) in
        let p = ref 2 in
        let vecn m = let v = List.init m (fun i -> f (!p + i)) in p := !p + m; v in
        let soln () = let v = f !p in incr p; let pt = vecn n in (v, pt) in
        let nxt () = let v = f !p in incr p; v in
        let nxti () = let v = int_of_string t.(!p) in incr p; v in
        let looked = ref [] and miss = ref 0 in
        let oracle tbl pt =
          looked := pt :: !looked;
          match List.find_opt (fun (_, q) -> q = pt) tbl with
          | Some (v, _) -> v
          | None -> miss := 1; nan in
        let st' =
          if t.(0) = "NI" then begin
            let big = nxt () in
            let p0 = let k = nxti () in vecn k in
            let start = vecn n in
            let tbl = let k = nxti () in List.init k (fun _ -> soln ()) in
            ignore big; ignore p0;    (* the repaired init (d2acfe00) no longer depends on the literal / the stale point *)
            sd_init fops (oracle tbl) start
          end else begin
            let simplex = List.init (n + 1) (fun _ -> soln ()) in
            let bv = nxt () in let bp = let k = nxti () in vecn k in
            let tbl = let k = nxti () in List.init k (fun _ -> soln ()) in
            sd_step fops (oracle tbl) { sd_simplex = simplex; sd_best = (bv, bp) }
          end in
        let b = Buffer.create 256 in
        Buffer.add_string b t.(0);
        List.iter (fun (v, pt) -> Buffer.add_string b (" " ^ pf v ^ " " ^ sv pt)) st'.sd_simplex;
        let (bv, bp) = st'.sd_best in
        Buffer.add_string b (Printf.sprintf " B %s %d %s L %d %d" (pf bv) (List.length bp) (sv bp) (List.length !looked) !miss);
        List.iter (fun pt -> Buffer.add_string b (" " ^ sv pt)) (List.rev !looked);
        print_endline (Buffer.contents b)
      | "X" ->
        let n = int_of_string t.(1) and lambda = int_of_string t.(2) and mu = int_of_string t.(3) in
        let kind = int_of_string t.(4) in
        let f i = fos t.(i) in
        let na = f 5 and nb = f 6 in
        let counter = int_of_string t.(7) in
        let p = ref 8 in
        let vecn m = let v = List.init m (fun i -> f (!p + i)) in p := !p + m; v in
        let mean = vecn n in let var = vecn n in
        let zs = List.init lambda (fun _ -> vecn n) in
        let off = List.init lambda (fun _ -> let fit = f !p in incr p; let x = vecn n in (fit, x)) in
        let noise = if kind = 2 then cem_noise_linear fops na nb else cem_noise_const fops (if kind = 0 then 0.0 else na) in
        let miss = ref 0 in
        let oracle pt = match List.find_opt (fun (_, q) -> q = pt) off with Some (v, _) -> v | None -> miss := 1; nan in
        let show = function
          | None -> "EXC"
          | Some st -> let (bv, bp) = st.c_best in Printf.sprintf "%s %s %s %s %d" (sv st.c_mean) (sv st.c_var) (pf bv) (sv bp) !miss in
        let st0 = { c_mean = mean; c_var = var; c_counter = nat_of_int counter; c_best = (nan, []) } in
        let rs = show (cem_step fops oracle noise (nat_of_int n) (nat_of_int mu) st0 zs) in
        miss := 0;
        let ru = show (cem_select_update fops noise (nat_of_int n) (nat_of_int mu) (nat_of_int counter) off) in
        Printf.printf "X S %s U %s Z %s\n" rs ru (String.concat " " (List.map (fun z -> sv (cem_sample fops mean var z)) zs))
      | _ -> print_endline "?"
    done with End_of_file -> ())
