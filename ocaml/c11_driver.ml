(* Driver for the extracted C11 model, float instantiation (IEEE double = OCaml float; operations are
   passed as ordinary record fields, no Extract Constant).  One output line per input line.
   U n lambda mu cC c1 cMu cSigma dSigma muEff counter sigma mean[n] C[n*n] pc[n] ps[n] B[n*n] ws[mu] (fit x[n] z[n])*lambda
       -> U sigma' mean'[n] C'[n*n] pc'[n] ps'[n] bestfit bestpoint[n]
   E active v0 nanc anc[nanc] (unp pen)*k   -> E (val anc[nanc])*k        (state after every prefix of the history)
   P n lo hi penalty c x[n]                 -> P unp pen                  (objective sum (x_i-c)^2 on the box [lo,hi]^n) *)
open C11_model

let rec nat_of_int n = if n <= 0 then O else S (nat_of_int (n - 1))
let rec int_of_nat = function O -> 0 | S n -> 1 + int_of_nat n

let fops : float ops = {
  o_zero = 0.0; o_one = 1.0; o_two = 2.0;
  o_add = ( +. ); o_sub = ( -. ); o_mul = ( *. ); o_div = ( /. );
  o_ltb = (fun a b -> a < b);
  o_sqrt = sqrt; o_exp = exp; o_pow = ( ** );
  o_ofnat = (fun n -> float_of_int (int_of_nat n)) }

let pf x = if x <> x then "nan" else if x = infinity then "inf" else if x = neg_infinity then "-inf" else Printf.sprintf "%h" x
let fos s = match s with "inf" -> infinity | "-inf" -> neg_infinity | "nan" | "-nan" -> nan | _ -> float_of_string s

let () =
  let ic = open_in Sys.argv.(1) in
  (try while true do
      let l = input_line ic in
      let t = Array.of_list (List.filter (fun x -> x <> "" && x <> "|") (String.split_on_char ' ' l)) in
      if Array.length t = 0 then print_newline () else
      match t.(0) with
      | "U" ->
        let n = int_of_string t.(1) and lambda = int_of_string t.(2) and mu = int_of_string t.(3) in
        let f i = fos t.(i) in
        let k = { k_cC = f 4; k_c1 = f 5; k_cMu = f 6; k_cSigma = f 7; k_dSigma = f 8; k_muEff = f 9 } in
        let counter = int_of_string t.(10) and sigma = f 11 in
        let p = ref 12 in
        let vecn m = let v = List.init m (fun i -> f (!p + i)) in p := !p + m; v in
        let matn m = List.init m (fun _ -> vecn m) in
        let mean = vecn n in let c = matn n in let pc = vecn n in let ps = vecn n in let b = matn n in
        let ws = vecn mu in
        let off = List.init lambda (fun _ -> let fit = f !p in incr p; let x = vecn n in let z = vecn n in (fit, (x, z))) in
        let st = { s_mean = mean; s_sigma = sigma; s_C = c; s_pc = pc; s_ps = ps; s_counter = nat_of_int counter } in
        let st' = cma_update fops k (nat_of_int n) (nat_of_int mu) ws b st off in
        let best = List.hd (select fops (nat_of_int mu) off) in
        let sv v = String.concat " " (List.map pf v) in
        Printf.printf "U %s %s %s %s %s %s %s\n" (pf st'.s_sigma) (sv st'.s_mean) (sv (List.concat st'.s_C)) (sv st'.s_pc) (sv st'.s_ps)
          (pf (fst best)) (sv (fst (snd best)))
      | "E" ->
        let active = t.(1) = "1" in
        let v0 = fos t.(2) and na = int_of_string t.(3) in
        let anc = List.init na (fun i -> fos t.(4 + i)) in
        let s = ref { e_point = -1; e_value = v0; e_anc = anc } in
        let b = Buffer.create 256 in
        Buffer.add_string b "E";
        let p = ref (4 + na) and id = ref 0 in
        while !p + 1 < Array.length t do
          let unp = fos t.(!p) and pen = fos t.(!p + 1) in
          s := elitist_step fops active !s ((!id, unp), pen);
          Buffer.add_string b (" " ^ pf !s.e_value);
          List.iter (fun a -> Buffer.add_string b (" " ^ pf a)) !s.e_anc;
          p := !p + 2; incr id
        done;
        print_endline (Buffer.contents b)
      | "P" ->
        let n = int_of_string t.(1) in
        let lo = fos t.(2) and hi = fos t.(3) and pen = fos t.(4) and c = fos t.(5) in
        let x = List.init n (fun i -> fos t.(6 + i)) in
        let fobj v = List.fold_left (fun s xi -> s +. (xi -. c) *. (xi -. c)) 0.0 v in
        let feasible v = not (List.exists (fun xi -> xi +. 1.e-13 < lo || xi -. 1.e-13 > hi) v) in
        let closest v = List.map (fun xi -> Float.min (Float.max xi lo) hi) v in
        let (u, pz) = penalized_eval fops fobj feasible closest pen x in
        Printf.printf "P %s %s\n" (pf u) (pf pz)
      | _ -> print_endline "?"
    done with End_of_file -> ())
