(* Driver for the extracted C07 models (coq/extract/C07Extract.v).
   input lines (all reals are C hex doubles "%a"):
     A id kind bias n two unc r0 r1 param warm  v_0..v_{n-1}  [w_0..] [prev_0..]
         kind csvm | csvmw | epssvr | oneclass;  v = labels 0/1 for csvm and csvmw, or targets (epssvr), ignored (oneclass)
         r0 r1 = regularisation PARAMETERS (log-encoded when unc = 1); two = 1: two regularisers
         param = epsilon (epssvr) / nu (oneclass); weights only for csvmw; prev only when warm = 1
       -> Q id dims lin.. lo.. hi.. alpha0..      the assembly model of C07Setup.v run on IEEE doubles
          (epssvr: followed by a line  B id dims idx..  = BlockMatrix2x2 index map bidx)
     S id n v_0..v_{2n-1}                     -> COEF id n c_0..       svr_coef on doubles
     C id eq target hasbias bias eps slack_eq slack_b lin n d x_00.. | mat n k_00..   alpha_0..alpha_{dims-1}
         certifies the candidate for the problem assembled by the LAST A line; the kernel matrix is
         the exact rational Gram matrix of the data (lin) or the given doubles converted exactly (mat);
         for epssvr the 2x2 block matrix of it
       -> CERT id code [kkt mult]     code 0 = accepted (C07Cert.cert_code); kkt/mult printed (rounded) on rejection
   Doubles are converted EXACTLY to Coq's Q (binary positive / Z datatypes). *)
open C07_model

let rec nat_of_int n = if n <= 0 then O else S (nat_of_int (n - 1))
let rec int_of_nat = function O -> 0 | S n -> 1 + int_of_nat n

let fops : float ops = {
  o_zero = 0.0; o_add = ( +. ); o_sub = ( -. ); o_mul = ( *. ); o_div = ( /. );
  o_ltb = (fun a b -> a < b); o_eqb = (fun a b -> a = b);
  o_thr = 1e-12; o_two = 2.0; o_half = 0.5; o_big = 1e100; o_ten = 10.0 }
let f_ofnat (n : nat) : float = float_of_int (int_of_nat n)

let pf x = if x = 0.0 && 1.0 /. x < 0.0 then "-0x0p+0" else Printf.sprintf "%h" x
let fos s = match s with "inf" -> infinity | "-inf" -> neg_infinity | "nan" | "-nan" -> nan | _ -> float_of_string s

(* ---- exact conversion double -> Q ---- *)
let rec pos_of_int n = if n <= 1 then XH else if n land 1 = 0 then XO (pos_of_int (n lsr 1)) else XI (pos_of_int (n lsr 1))
let rec shiftl p k = if k <= 0 then p else shiftl (XO p) (k - 1)
let q_of_float (x : float) : q =
  if x = 0.0 then { qnum = Z0; qden = XH }
  else begin
    if Float.is_nan x || Float.abs x = infinity then failwith "non-finite";
    let (m, e) = Float.frexp x in                       (* x = m * 2^e, 0.5 <= |m| < 1 *)
    let mi = ref (Int64.to_int (Int64.of_float (Float.ldexp m 53))) and ex = ref (e - 53) in   (* exact: |mi| < 2^53 *)
    while !mi land 1 = 0 do mi := !mi / 2; incr ex done;
    let p = pos_of_int (abs !mi) in
    let num, den = if !ex >= 0 then shiftl p !ex, XH else p, shiftl XH (- !ex) in
    { qnum = (if !mi > 0 then Zpos num else Zneg num); qden = den }
  end
(* rounded value of a Q, for diagnostics only *)
let rec float_of_pos = function XH -> 1.0 | XO p -> 2.0 *. float_of_pos p | XI p -> 2.0 *. float_of_pos p +. 1.0
let float_of_q (x : q) : float =
  let n = match x.qnum with Z0 -> 0.0 | Zpos p -> float_of_pos p | Zneg p -> -. float_of_pos p in
  n /. float_of_pos x.qden

let getf (a : float array) (i : nat) = let k = int_of_nat i in if k < Array.length a then a.(k) else 0.0
let getq (a : q array) (i : nat) = let k = int_of_nat i in if k < Array.length a then a.(k) else { qnum = Z0; qden = XH }

(* the problem assembled by the last A line *)
let last_kind = ref "" and last_n = ref 0
let last_p : float qp option ref = ref None

let () =
  let ic = open_in Sys.argv.(1) in
  (try
    while true do
      let l = input_line ic in
      let t = Array.of_list (List.filter (fun x -> x <> "") (String.split_on_char ' ' l)) in
      if Array.length t > 0 then
      match t.(0) with
      | "A" ->
        let id = t.(1) and kind = t.(2) in
        let bias = t.(3) = "1" and n = int_of_string t.(4) and two = t.(5) = "1" and unc = t.(6) = "1" in
        let r0 = fos t.(7) and r1 = fos t.(8) and param = fos t.(9) and warm = t.(10) = "1" in
        let arr k = Array.init n (fun i -> fos t.(11 + k * n + i)) in
        let v = arr 0 in
        let d0 = reg_decode exp unc r0 and d1 = reg_decode exp unc r1 in
        let cn = reg_Cn d0 d1 two and cp = reg_Cp d0 d1 two in
        let nn = nat_of_int n in
        let lab i = getf v i <> 0.0 in
        let p =
          (match kind with
           | "csvm" ->
             let prev = if warm then Some (getf (arr 1)) else None in
             csvm_problem fops 1.0 bias nn lab cn cp prev
           | "csvmw" ->
             let w = arr 1 in
             let prev = if warm then Some (getf (arr 2)) else None in
             csvmw_problem fops 1.0 bias nn lab cn cp (getf w) prev
           | "epssvr" -> svr_problem fops nn (getf v) cn param
           | "oneclass" -> oc_problem fops 1.0 f_ofnat nn param
           | _ -> failwith "bad kind") in
        last_kind := kind; last_n := n; last_p := Some p;
        let dims = int_of_nat p.q_dim in
        let b = Buffer.create 1024 in
        Buffer.add_string b (Printf.sprintf "Q %s %d" id dims);
        let idx = List.init dims nat_of_int in
        List.iter (fun f -> List.iter (fun a -> Buffer.add_char b ' '; Buffer.add_string b (pf (f a))) idx)
          [p.q_lin; p.q_lo; p.q_hi; p.q_init];
        print_endline (Buffer.contents b);
        if kind = "epssvr" then begin
          let b = Buffer.create 256 in
          Buffer.add_string b (Printf.sprintf "B %s %d" id dims);
          List.iter (fun a -> Buffer.add_string b (Printf.sprintf " %d" (int_of_nat (bidx nn a)))) idx;
          print_endline (Buffer.contents b)
        end
      | "S" ->
        let id = t.(1) and n = int_of_string t.(2) in
        let v = Array.init (2 * n) (fun i -> fos t.(3 + i)) in
        let b = Buffer.create 256 in
        Buffer.add_string b (Printf.sprintf "COEF %s %d" id n);
        List.iter (fun a -> Buffer.add_char b ' '; Buffer.add_string b (pf (svr_coef fops (nat_of_int n) (getf v) a)))
          (List.init n nat_of_int);
        print_endline (Buffer.contents b)
      | "C" ->
        let id = t.(1) in
        let p = (match !last_p with Some p -> p | None -> failwith "C before A") in
        let eq = t.(2) = "1" and target = q_of_float (fos t.(3)) and hasbias = t.(4) = "1" in
        let bias = q_of_float (fos t.(5)) and eps = q_of_float (fos t.(6)) in
        let seq = q_of_float (fos t.(7)) and sb = q_of_float (fos t.(8)) in
        let n = int_of_string t.(10) in
        let nn = nat_of_int n in
        let k0, pos =
          (match t.(9) with
           | "lin" ->
             let d = int_of_string t.(11) in
             let x = Array.init (n * d) (fun i -> q_of_float (fos t.(12 + i))) in
             let xf a k = getq x (nat_of_int (int_of_nat a * d + int_of_nat k)) in
             (* the Gram matrix is computed once, by the extracted [gram], and stored *)
             let g = Array.init (n * n) (fun i -> gram (nat_of_int d) xf (nat_of_int (i / n)) (nat_of_int (i mod n))) in
             (fun a c -> let i = int_of_nat a and j = int_of_nat c in if i < n && j < n then g.(i * n + j) else { qnum = Z0; qden = XH }),
             12 + n * d
           | "mat" ->
             let g = Array.init (n * n) (fun i -> q_of_float (fos t.(11 + i))) in
             (fun a c -> let i = int_of_nat a and j = int_of_nat c in if i < n && j < n then g.(i * n + j) else { qnum = Z0; qden = XH }),
             11 + n * n
           | _ -> failwith "bad kernel mode") in
        let kq = if !last_kind = "epssvr" then block2 nn k0 else k0 in
        let dims = int_of_nat p.q_dim in
        if p.q_eq <> eq then failwith "equality flag differs from the assembled problem";
        let al = Array.init dims (fun i -> q_of_float (fos t.(pos + i))) in
        let conv f = let a = Array.init dims (fun i -> q_of_float (f (nat_of_int i))) in getq a in
        let pq : q qp = { q_dim = p.q_dim; q_lin = conv p.q_lin; q_lo = conv p.q_lo; q_hi = conv p.q_hi;
                          q_init = conv p.q_init; q_eq = p.q_eq } in
        let ok = certify_qp kq pq target (getq al) hasbias bias eps seq sb in
        if ok then Printf.printf "CERT %s 0\n" id
        else begin
          let code = int_of_nat (cert_code pq.q_dim kq pq.q_lin pq.q_lo pq.q_hi pq.q_eq target (getq al) hasbias bias eps seq sb) in
          let kkt = float_of_q (cert_kkt pq.q_dim kq pq.q_lin pq.q_lo pq.q_hi pq.q_eq (getq al)) in
          let mu = float_of_q (cert_mult pq.q_dim kq pq.q_lin pq.q_lo pq.q_hi (getq al)) in
          Printf.printf "CERT %s %d %s %s\n" id code (pf kkt) (pf mu)
        end
      | _ -> ()
    done
  with End_of_file -> ());
  close_in ic
