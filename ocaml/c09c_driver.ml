(* Driver for the composed C09 models (C09Comp.v over the operation records of C09More.v): reads the case file
   of harness/c09_comp.cpp and prints the same canonical lines.
   C kind wrap n dim mb cap g | x | diag | labels | pairs | pre-flips ;  R k a e | Q k a e | F i j | M m | X *)
open C09c_model

let rec nat_of_int n = if n <= 0 then O else S (nat_of_int (n - 1))
let rec int_of_nat = function O -> 0 | S n -> 1 + int_of_nat n
let rec pos_of_int n = if n = 1 then XH else if n land 1 = 0 then XO (pos_of_int (n / 2)) else XI (pos_of_int (n / 2))
let z_of_int n = if n = 0 then Z0 else if n > 0 then Zpos (pos_of_int n) else Zneg (pos_of_int (-n))
let rec int_of_pos = function XH -> 1 | XO p -> 2 * int_of_pos p | XI p -> 2 * int_of_pos p + 1
let int_of_z = function Z0 -> 0 | Zpos p -> int_of_pos p | Zneg p -> - (int_of_pos p)
let ni = nat_of_int and inn = int_of_nat
let cat = String.concat ","

let sections toks =
  let rec go cur acc = function
    | [] -> List.rev (List.rev cur :: acc)
    | "|" :: t -> go [] (List.rev cur :: acc) t
    | x :: t -> go (int_of_string x :: cur) acc t in
  go [] [] toks

let rec pairs_of = function a :: b :: t -> (a, b) :: pairs_of t | _ -> []

(* one case: polymorphic in the base state and the entry type *)
type runner = { head : unit -> string; op : string -> int list -> string option }

let cache_runner (ops : ('v, 'b) matOps) (b : 'b) (cap : int) (fmt : 'v -> string) : runner =
  let st = ref (ginit ops b (ni cap)) in
  let n () = inn (gsize ops !st) in
  let dump entries =
    let s = !st in let nn = n () in
    let lens = List.init nn (fun k -> inn (glinelen s (ni k))) in
    let bf = Buffer.create 256 in
    Buffer.add_string bf (Printf.sprintf " sz=%d lines=%d lru=%s len=%s acc=%d/%d rs=%s data="
      (inn s.gcsize) (inn (gcm_cached_lines s)) (cat (List.map (fun k -> string_of_int (inn k)) s.glru))
      (cat (List.map string_of_int lens)) (inn s.gcsize) (inn s.gcmax)
      (cat (List.map (fun l -> string_of_int l ^ (if l <> 0 then "+" else "-")) lens)));
    List.iteri (fun k l -> if l > 0 then
      Buffer.add_string bf (Printf.sprintf "%d:%s;" k (cat (List.map fmt (gline s (ni k)))))) lens;
    if entries then begin
      Buffer.add_string bf " E=";
      Buffer.add_string bf (cat (List.concat (List.init nn (fun i -> List.init nn (fun j -> fmt (gcm_entry ops s (ni i) (ni j)))))))
    end;
    if s.gerr then Buffer.add_string bf " UB";
    Buffer.contents bf in
  let rec take k l = match k, l with 0, _ -> [] | _, [] -> [] | k, x :: t -> x :: take (k - 1) t in
  { head = (fun () -> dump true);
    op = (fun cmd a ->
      let g i = ni (List.nth a i) in
      let o = match cmd with
        | "R" -> GRow (g 0, g 1, g 2) | "Q" -> GRowC (g 0, g 1, g 2) | "F" -> GFlip (g 0, g 1)
        | "M" -> GSetMax (g 0) | "X" -> GClear | _ -> failwith ("bad op " ^ cmd) in
      if not (gwf_op ops !st o) then None
      else begin
        let pre = !st in
        st := gstep ops pre o;
        let extra = match o with
          | GRow (k, _, e) -> " ret=" ^ cat (List.map fmt (take (inn e) (gline !st k)))
          | GRowC (k, a0, e) ->
            " ret=" ^ cat (List.map fmt (gcm_row_const ops k a0 e pre))
          | _ -> "" in
        Some (extra ^ dump (match o with GFlip _ -> true | _ -> false))
      end) }

let pre_runner (ops : ('v, 'b) matOps) (b : 'b) (fmt : 'v -> string) : runner =
  let m = ref (pm_init ops b) in
  let nn = inn (ops.bsize b) in
  let dump () =
    let t = !m in
    Printf.sprintf " acc=%d/%d/%d E=%s" (inn (pm_max_cache_size t)) (inn (pm_size t)) (inn (pm_size t))
      (cat (List.concat (List.init nn (fun i -> List.init nn (fun j -> fmt (pm_entry ops t (ni i) (ni j))))))) in
  { head = dump;
    op = (fun cmd a ->
      let g i = List.nth a i in
      match cmd with
      | "F" -> if g 0 < nn && g 1 < nn then begin m := pm_flip ops (ni (g 0)) (ni (g 1)) !m; Some (dump ()) end else None
      | "R" | "Q" ->
        if g 0 < nn && g 1 <= g 2 && g 2 <= nn then
          Some (" ret=" ^ cat (List.map fmt (pm_row !m (ni (g 0)) (ni (g 1)) (ni (g 2)))) ^ dump ())
        else None
      | _ -> None) }

let () =
  let ic = open_in Sys.argv.(1) in
  let caseno = ref (-1) in
  let cur = ref { head = (fun () -> ""); op = (fun _ _ -> None) } in
  let fz z = string_of_int (int_of_z z) in
  (try while true do
      let l = input_line ic in
      let toks = List.filter (fun x -> x <> "") (String.split_on_char ' ' l) in
      match toks with
      | [] -> print_newline ()
      | "C" :: kind :: wrap :: rest ->
        incr caseno;
        let sec = Array.of_list (sections rest) in
        let sec i = if i < Array.length sec then sec.(i) else [] in
        let hd = Array.of_list (sec 0) in
        let n = hd.(0) and dim = hd.(1) and mb = hd.(2) and cap = hd.(3) and g = hd.(4) in
        let xs = Array.of_list (sec 1) in
        let pts = Array.init n (fun i -> List.init dim (fun d -> z_of_int xs.(i * dim + d))) in
        let diag = List.map z_of_int (sec 2) and labs = List.map ni (sec 3) in
        let pairs = List.map (fun (a, b) -> (ni a, ni b)) (pairs_of (sec 4)) in
        let pre = List.map (fun (a, b) -> (ni a, ni b)) (pairs_of (sec 5)) in
        let ndim = ni dim in
        let k0 a b = lin ndim pts.(inn a) pts.(inn b) in
        let wrapit : 'v 'b. ('v, 'b) matOps -> 'b -> ('v -> string) -> runner = fun ops b0 fmt ->
          let b = bflips ops pre b0 in
          if wrap = "c" then cache_runner ops b cap fmt else pre_runner ops b fmt in
        let d0 = dinit (ni n) diag labs in
        cur := (match kind with
          | "K" -> wrapit (kernel_ops k0) d0 fz
          | "R" -> wrapit (reg_ops k0) d0 fz
          | "M" -> wrapit (mod_ops k0 (z_of_int 2) (z_of_int (-1))) d0 fz
          | "E" -> wrapit (exmod_ops k0) d0 fz
          | "B" -> let kb = kernel_ops k0 in wrapit (blk_ops kb d0) (blk_init kb d0) fz
          | "D" ->
            let sizes = match batch_sizes (ni n) (ni mb) with Some s -> s | None -> failwith "createDataFromRange: division by zero" in
            let bs = split_batches sizes (Array.to_list pts) in
            wrapit (dk_ops [] (lin ndim)) (dk_init bs pairs) fz
          | "G" ->
            let gamma = ldexp 1.0 (- g) in
            let ex z = exp (-. gamma *. float_of_int (int_of_z z)) in
            wrapit (gk_ops ex (-7.0) ndim) (gk_init ndim (Array.to_list pts)) (fun v -> Printf.sprintf "%h" v)
          | _ -> failwith "kind");
        Printf.printf "%d C%s\n" !caseno (!cur.head ())
      | cmd :: args ->
        (match !cur.op cmd (List.map int_of_string args) with
         | None -> Printf.printf "%d %s REJECT\n" !caseno l
         | Some s -> Printf.printf "%d %s%s\n" !caseno l s)
    done with End_of_file -> ())
