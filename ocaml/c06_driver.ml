(* Driver for the extracted C06 model.  Same case file as harness/c06_loss.cpp, one output line per input line.
   Exact part (Q, Coq datatypes): numbers are integers or fractions a/b; output numbers are reduced fractions
   printed as  [-]hexnum/hexden.  Cross-entropy ("ce") lines run the Section-polymorphic model instantiated
   with OCaml floats (operations passed as ordinary arguments) and print %h.  Lines the model does not cover
   print "<kind> -".
     G reg | mask | x
     L name param dim | labels | preds [| cost]
     M name param dim T | sizes | labels | preds [| cost]
     E name param T nin nout | sizes | params | inputs | labels
     W name param T nin nout | sizes | params | inputs | labels | weights
     R name param T nin nout reg lam | sizes | params | inputs | labels | mask
     B name param seed nin nout | sizes | params | inputs | labels      (all candidate mini-batch results)
     N name param T nin nhid nout | sizes | params | inputs | labels    (ErrorFunction on LinearModel >> LinearModel)
     Z zov thr dim | sizes | labels | preds | weights                   (ZeroOneLoss weighted eval)
     A invert T [dim] | sizes | labels | scores (n*dim numbers)         (NegativeAUC: a=<q> | a=nan | EXC)
     P T nin | sizes | params | inputs                                  (NegativeLogLikelihood of LinearModel(nin,1) with offset; the
                                                                         model's logarithm parameter = float log embedded into Q)
     S sq ignore dim reuse | lens | labels | preds                      (SquaredLoss<Sequence,Sequence>; EXC = documented exception)
   With the arguments `ctx <n> <casefile>` the calling-context stage is printed instead (see handle_ctx below).
   Lines with real (non-rational) data run the float instantiation of the Section-polymorphic functions for
   ce, cev, huber, abs (L lines); all other real-data lines print "<kind> -". *)
open C06_model

let rec nat_of_int n = if n <= 0 then O else S (nat_of_int (n - 1))
let rec pos_of_int n = if n = 1 then XH else if n land 1 = 0 then XO (pos_of_int (n / 2)) else XI (pos_of_int (n / 2))
let z_of_int n = if n = 0 then Z0 else if n > 0 then Zpos (pos_of_int n) else Zneg (pos_of_int (-n))
let rec pos_bits = function XH -> [1] | XO q -> 0 :: pos_bits q | XI q -> 1 :: pos_bits q   (* little endian *)
let pos_to_hex p =
  let bits = Array.of_list (pos_bits p) in
  let n = Array.length bits in
  let nd = (n + 3) / 4 in
  let b = Buffer.create (nd + 1) in
  for d = nd - 1 downto 0 do
    let v = ref 0 in
    for k = 3 downto 0 do let i = 4 * d + k in v := 2 * !v + (if i < n then bits.(i) else 0) done;
    Buffer.add_char b "0123456789abcdef".[!v]
  done;
  Buffer.contents b
let z_to_hex = function Z0 -> "0" | Zpos p -> pos_to_hex p | Zneg p -> "-" ^ pos_to_hex p
let qs x = let r = qred x in z_to_hex r.qnum ^ "/" ^ pos_to_hex r.qden
let qv l = if l = [] then "-" else String.concat "," (List.map qs l)

let parse_q s =
  match String.index_opt s '/' with
  | Some k -> { qnum = z_of_int (int_of_string (String.sub s 0 k)); qden = pos_of_int (int_of_string (String.sub s (k + 1) (String.length s - k - 1))) }
  | None -> { qnum = z_of_int (int_of_string s); qden = XH }
let parse_f s =
  match String.index_opt s '/' with
  | Some k -> float_of_string (String.sub s 0 k) /. float_of_string (String.sub s (k + 1) (String.length s - k - 1))
  | None -> float_of_string s

let split_groups toks =
  let rec go acc cur = function
    | [] -> List.rev (List.rev cur :: acc)
    | "|" :: r -> go (List.rev cur :: acc) [] r
    | t :: r -> go acc (t :: cur) r in
  go [] [] toks

let rec take n l = if n <= 0 then [] else match l with [] -> [] | x :: r -> x :: take (n - 1) r
let rec drop n l = if n <= 0 then l else match l with [] -> [] | _ :: r -> drop (n - 1) r
let rec rows d l = if l = [] || d <= 0 then [] else take d l :: rows d (drop d l)
let rec chunk szs l = match szs with [] -> [] | s :: r -> take s l :: chunk r (drop s l)

let q0 = { qnum = Z0; qden = XH }

(* exact conversions between Q and IEEE doubles (every finite double is a rational number) *)
let rec pos_to_float = function XH -> 1.0 | XO q -> 2.0 *. pos_to_float q | XI q -> 2.0 *. pos_to_float q +. 1.0
let z_to_float = function Z0 -> 0.0 | Zpos p -> pos_to_float p | Zneg p -> -. pos_to_float p
let float_of_q (x : q) = z_to_float x.qnum /. pos_to_float x.qden
let rec pos_shift p k = if k <= 0 then p else pos_shift (XO p) (k - 1)
let q_of_float (f : float) : q =
  if f = 0.0 then q0 else begin
    let (m, e) = frexp f in
    let mi = int_of_float (ldexp (abs_float m) 53) in       (* 53-bit integer mantissa *)
    let e' = e - 53 in
    let num = pos_of_int mi in
    let num, den = if e' >= 0 then (pos_shift num e', XH) else (num, pos_shift XH (- e')) in
    { qnum = (if f > 0.0 then Zpos num else Zneg num); qden = den }
  end
let qhd l = match l with x :: _ -> x | [] -> q0

type family = VV | CV | CC | Other
let family = function
  | "sq" | "eps" | "sqeps" | "huber" | "abs" -> VV
  | "sqc" | "hinge" | "sqhinge" | "zov" | "ce" -> CV
  | "zo" | "disc" -> CC
  | _ -> Other
let table name param = match name with
  | "sq" -> Some LSq | "sqc" -> Some LSqC | "hinge" -> Some LHinge | "sqhinge" -> Some LSqHinge
  | "eps" -> Some (LEps param) | "sqeps" -> Some (LSqEps param) | "huber" -> Some (LHuber param) | _ -> None

(* float instantiation of the cross-entropy section *)
let fpf x = if x <> x then "nan" else if x = infinity then "inf" else if x = neg_infinity then "-inf" else Printf.sprintf "%h" x
let rec int_of_nat = function O -> 0 | S n -> 1 + int_of_nat n
let fofnat n = float_of_int (int_of_nat n)
let flt (a : float) (b : float) = a < b
let fneg x = -. x
let fce_batch_eval b = ce_batch_eval 0.0 1.0 ( +. ) ( -. ) ( *. ) fneg exp log flt fofnat b
let fce_batch_evald b = ce_batch_evald 0.0 1.0 ( +. ) ( -. ) ( *. ) ( /. ) fneg exp log flt fofnat b
let fcev_eval b = cev_eval 0.0 ( +. ) ( -. ) ( *. ) exp log flt b
let fcev_evald b = cev_evald 0.0 ( +. ) ( -. ) ( *. ) ( /. ) exp log flt b
let fhuber_eval d b = huberA_eval 0.0 1.0 ( +. ) ( -. ) ( *. ) ( /. ) flt sqrt d b
let fhuber_evald d b = huberA_evald 0.0 1.0 ( +. ) ( -. ) ( *. ) ( /. ) flt sqrt d b
let fabs_eval b = absA_eval 0.0 ( +. ) ( -. ) ( *. ) sqrt b
let fv l = if l = [] then "-" else String.concat "," (List.map fpf l)

(* batch of (label, prediction) pairs for the table losses *)
let mk_batch_vv dim (labs : q list) (preds : q list) : (lab * vec) list =
  List.map2 (fun l p -> ((O, l), p)) (rows dim labs) (rows dim preds)
let mk_batch_cv dim (labs : int list) (preds : q list) : (lab * vec) list =
  List.map2 (fun c p -> ((nat_of_int c, []), p)) labs (rows dim preds)

let handle l =
  let toks = List.filter (fun x -> x <> "") (String.split_on_char ' ' l) in
  match toks with
  | [] -> ""
  | kind :: _ ->
    let g = Array.of_list (split_groups toks) in
    let sec i = if i < Array.length g then g.(i) else [] in
    let hd = Array.of_list g.(0) in
    let qsec i = List.map parse_q (sec i) in
    let isec i = List.map int_of_string (sec i) in
    (* lines with non-rational data (hex / decimal floats) are outside the exact model; cross-entropy L lines use the float model *)
    let is_real = List.exists (fun t -> String.contains t 'x' || String.contains t '.') (List.concat (List.tl (Array.to_list g))) in
    let fmodel = Array.length hd > 1 && List.mem hd.(1) ["ce"; "cev"; "huber"; "abs"] in
    if (is_real || (Array.length hd > 1 && (hd.(1) = "ce" || hd.(1) = "cev"))) && not (kind = "L" && fmodel) then kind ^ " -" else
    if kind = "L" && fmodel && (is_real || hd.(1) = "ce" || hd.(1) = "cev") then begin
      (* float instantiation; a batch and its single-element sub-batches go through the same batch functions *)
      let name = hd.(1) and dim = int_of_string hd.(3) in
      let preds = rows dim (List.map parse_f (sec 2)) in
      let out v dv g ev edv eg = Printf.sprintf "L v=%s dv=%s g=%s ev=%s edv=%s eg=%s" v dv g ev edv eg in
      if name = "ce" then begin
        let b = List.map2 (fun c p -> (nat_of_int c, p)) (isec 1) preds in
        let (dv, gr) = fce_batch_evald b in
        let ed = List.map (fun e -> fce_batch_evald [e]) b in
        out (fpf (fce_batch_eval b)) (fpf dv) (fv (List.concat gr)) (fv (List.map (fun e -> fce_batch_eval [e]) b))
          (fv (List.map fst ed)) (fv (List.concat (List.map (fun (_, r) -> List.concat r) ed)))
      end else begin
        let b = List.map2 (fun l p -> (l, p)) (rows dim (List.map parse_f (sec 1))) preds in
        if name = "abs" then
          Printf.sprintf "L v=%s dv=- g=- ev=%s edv=- eg=-" (fpf (fabs_eval b)) (fv (List.map (fun e -> fabs_eval [e]) b))
        else begin
          let (ev, evd) = if name = "cev" then (fcev_eval, fcev_evald) else (let d = parse_f hd.(2) in (fhuber_eval d, fhuber_evald d)) in
          let (dv, gr) = evd b in
          let ed = List.map (fun e -> evd [e]) b in
          out (fpf (ev b)) (fpf dv) (fv (List.concat gr)) (fv (List.map (fun e -> ev [e]) b))
            (fv (List.map fst ed)) (fv (List.concat (List.map (fun (_, r) -> List.concat r) ed)))
        end
      end
    end else
    match kind with
    | "G" ->
      let mask = qsec 1 and x = qsec 2 in
      let v, gr = if hd.(1) = "one" then one_eval mask x, one_grad mask x else two_eval mask x, two_grad mask x in
      Printf.sprintf "G v=%s dv=%s g=%s" (qs v) (qs v) (qv gr)
    | "L" | "M" ->
      let name = hd.(1) in
      let dim = int_of_string hd.(3) in
      let off = if kind = "M" then 2 else 1 in
      let fam = family name in
      if fam = Other || name = "ce" then kind ^ " -"
      else begin
        let param = parse_q hd.(2) in
        (* eval on a batch, and evalDerivative where it exists; elements as an opaque list *)
        let (n, eval_idx, evald_idx) : int * (int list -> q) * ((int list -> q * vec list) option) =
          match fam with
          | CC ->
            let labs = Array.of_list (isec off) and preds = Array.of_list (isec (off + 1)) in
            let cost = rows (int_of_string hd.(2)) (qsec (off + 2)) in
            let pairs idx = List.map (fun i -> (nat_of_int labs.(i), nat_of_int preds.(i))) idx in
            (Array.length labs, (fun idx -> if name = "zo" then zo_eval (pairs idx) else disc_eval cost (pairs idx)), None)
          | _ ->
            let b = Array.of_list (if fam = VV then mk_batch_vv dim (qsec off) (qsec (off + 1)) else mk_batch_cv dim (isec off) (qsec (off + 1))) in
            let sub idx = List.map (fun i -> b.(i)) idx in
            let nd = nat_of_int dim in
            (match table name param with
             | Some k -> (Array.length b, (fun idx -> loss_eval k nd (sub idx)), Some (fun idx -> loss_evald k nd (sub idx)))
             | None ->
               if name = "abs" then (Array.length b, (fun idx -> abs_eval (List.map (fun ((_, l), p) -> (l, p)) (sub idx))), None)
               else (Array.length b, (fun idx -> zov_eval param (List.map (fun ((c, _), p) -> (c, p)) (sub idx))), None))
        in
        let all = List.init n (fun i -> i) in
        if kind = "L" then begin
          let v = eval_idx all in
          let ev = List.map (fun i -> eval_idx [i]) all in
          match evald_idx with
          | None -> Printf.sprintf "L v=%s dv=- g=- ev=%s edv=- eg=-" (qs v) (qv ev)
          | Some f ->
            let (dv, gr) = f all in
            let ed = List.map (fun i -> f [i]) all in
            Printf.sprintf "L v=%s dv=%s g=%s ev=%s edv=%s eg=%s" (qs v) (qs dv) (qv (List.concat gr)) (qv ev)
              (qv (List.map fst ed)) (qv (List.concat (List.map (fun (_, r) -> List.concat r) ed)))
        end else begin
          let szs = isec 1 in
          let d = chunk szs all in
          let m = data_mean (fun b -> [eval_idx b]) d in
          Printf.sprintf "M m=%s" (qs (qhd m))
        end
      end
    | "E" | "W" | "R" | "B" ->
      let name = hd.(1) in
      (match table name (parse_q hd.(2)) with
       | None -> kind ^ " -"
       | Some k ->
         let t = int_of_string hd.(3) and nin = int_of_string hd.(4) and nout = int_of_string hd.(5) in
         let szs = isec 1 and params = qsec 2 and ins = rows nin (qsec 3) in
         let m = { lW = rows nin (take (nin * nout) params); lb = drop (nin * nout) params } in
         let n = List.length ins in
         let labs : lab list =
           if family name = VV then List.map (fun r -> (O, r)) (rows (List.length (sec 4) / (max n 1)) (qsec 4))
           else List.map (fun c -> (nat_of_int c, [])) (isec 4) in
         let es : elem list = List.map2 (fun x lb -> (x, lb)) ins labs in
         let d = chunk szs es in
         let el = List.map (fun e -> qhd (lin_bq_eval k m [e])) es in
         let nt = nat_of_int (if kind = "B" then 1 else t) in   (* B: the header field is the seed of the batch choice *)
         (match kind with
          | "E" ->
            let v = qhd (ef_eval k m nt d) and r = ef_evald k m nt d in
            Printf.sprintf "E v=%s dv=%s g=%s el=%s" (qs v) (qs (qhd r)) (qv (List.tl r)) (qv el)
          | "W" ->
            let ws = qsec 5 in
            let wd = chunk szs (List.map2 (fun e w -> (e, w)) es ws) in
            let v = qhd (wef_eval k m wd) and r = wef_evald k m wd in
            Printf.sprintf "W v=%s dv=%s g=%s el=%s" (qs v) (qs (qhd r)) (qv (List.tl r)) (qv el)
          | "R" ->
            let lam = parse_q hd.(7) and mask = qsec 5 in
            let one = hd.(6) = "one" in
            let rv = if one then one_eval mask params else two_eval mask params in
            let rg = if one then one_grad mask params else two_grad mask params in
            let pe = ef_eval k m nt d and pr = ef_evald k m nt d in
            let v = qhd (add_reg_eval lam rv pe) and r = add_reg lam rv rg pr in
            Printf.sprintf "R v=%s dv=%s g=%s el=%s rv=%s rdv=%s rg=%s pv=%s pdv=%s pg=%s" (qs v) (qs (qhd r)) (qv (List.tl r)) (qv el)
              (qs rv) (qs rv) (qv rg) (qs (qhd pe)) (qs (qhd pr)) (qv (List.tl pr))
          | _ ->
            let nb = List.length d in
            let cands = List.init nb (fun i ->
                let v = qhd (minibatch (lin_bq_eval k m) (nat_of_int i) d) and r = minibatch (lin_bq k m) (nat_of_int i) d in
                Printf.sprintf "b%d=%s:%s:%s" i (qs v) (qs (qhd r)) (qv (List.tl r))) in
            "B " ^ String.concat " " cands))
    | "Z" ->
      let thr = parse_q hd.(2) and dim = int_of_string hd.(3) in
      let es = List.map2 (fun c p -> (nat_of_int c, p)) (isec 2) (rows dim (qsec 3)) in
      Printf.sprintf "Z z=%s" (qs (zow_eval thr (chunk (isec 1) es) (qsec 4)))
    | "A" ->
      let inv = hd.(1) = "1" in
      (* optional 4th header field: number of prediction columns (default 1) *)
      let dim = if Array.length hd > 3 then int_of_string hd.(3) else 1 in
      let es = List.map2 (fun c s -> (nat_of_int c, s)) (isec 2) (rows dim (qsec 3)) in
      (match nauc_eval_vec inv (chunk (isec 1) es) with
       | AucExc -> "A EXC"
       | AucNaN -> "A a=nan"
       | AucVal a -> "A a=" ^ qs a)
    | "P" ->
      let t = int_of_string hd.(1) and nin = int_of_string hd.(2) in
      let szs = isec 1 and params = qsec 2 and ins = rows nin (qsec 3) in
      let m = { lW = rows nin (take nin params); lb = drop nin params } in
      let lg x = q_of_float (log (float_of_q x)) in
      let minp = q_of_float 1e-100 in
      let peval x = qhd (lin_eval m x) in
      let d = chunk szs ins in
      let v = nll_eval lg minp peval d and r = nll_evald lg minp peval lin_wpd (nat_of_int t) d in
      Printf.sprintf "P v=%s dv=%s g=%s" (qs v) (qs (qhd r)) (qv (List.tl r))
    | "S" ->
      (* the caller's gradient object: empty, or (reuse = 1) the result of an earlier call on other data (all ones, same shape) *)
      let ign = nat_of_int (int_of_string hd.(2)) and dim = int_of_string hd.(3) and reuse = hd.(4) = "1" in
      let lens = isec 1 in
      let ls = chunk lens (rows dim (qsec 2)) and ps = chunk lens (rows dim (qsec 3)) in
      let b = List.map2 (fun l p -> (l, p)) ls ps in
      let q1 = { qnum = Zpos XH; qden = XH } in
      let old = if reuse then List.map (fun l -> List.map (fun v -> List.map (fun _ -> q1) v) l) ls else [] in
      (match seq_eval ign b, seq_evald ign old b with
       | Some v, Some (dv, g) ->
         Printf.sprintf "S v=%s dv=%s gn=%d gl=%s g=%s" (qs v) (qs dv) (List.length g)
           (String.concat "," (List.map (fun sq -> string_of_int (List.length sq)) g)) (qv (List.concat (List.concat g)))
       | _ -> "S EXC")
    | "N" ->
      let name = hd.(1) in
      (match table name (parse_q hd.(2)) with
       | None -> "N -"
       | Some k ->
         let t = int_of_string hd.(3) and nin = int_of_string hd.(4) and nh = int_of_string hd.(5) and nout = int_of_string hd.(6) in
         let szs = isec 1 and params = qsec 2 and ins = rows nin (qsec 3) in
         let p1 = take (nin * nh + nh) params and p2 = drop (nin * nh + nh) params in
         let m = { n1 = { lW = rows nin (take (nin * nh) p1); lb = drop (nin * nh) p1 };
                   n2 = { lW = rows nh (take (nh * nout) p2); lb = drop (nh * nout) p2 } } in
         let n = List.length ins in
         let labs : lab list =
           if family name = VV then List.map (fun r -> (O, r)) (rows (List.length (sec 4) / (max n 1)) (qsec 4))
           else List.map (fun c -> (nat_of_int c, [])) (isec 4) in
         let es : elem list = List.map2 (fun x lb -> (x, lb)) ins labs in
         let d = chunk szs es in
         let el = List.map (fun e -> qhd (net2_bq_eval k m [e])) es in
         let nt = nat_of_int t in
         let v = qhd (net2_ef_eval k m nt d) and r = net2_ef_evald k m nt d in
         Printf.sprintf "N v=%s dv=%s g=%s el=%s" (qs v) (qs (qhd r)) (qv (List.tl r)) (qv el))
    | k -> k ^ " -"

(* calling-context stage (usage: c06_model ctx <ignored> <casefile>): for E, R and N lines on rational data the error function in
   the calling contexts of harness/c06_loss.cpp `ctx` -- cs: serial reference (one thread); c2o / c3o: called from inside a parallel
   region of 2 / 3 threads, i.e. C06Ctx.errfn_ctx with SHARK_NUM_THREADS = 2 / 3, every range assigned to thread 0, ranges in
   increasing order; c2a / c3a: the same on every thread of the region (independent instances).  Other lines: "<kind> -". *)
let handle_ctx l =
  let toks = List.filter (fun x -> x <> "") (String.split_on_char ' ' l) in
  match toks with
  | [] -> ""
  | kind :: _ ->
    let g = Array.of_list (split_groups toks) in
    let sec i = if i < Array.length g then g.(i) else [] in
    let hd = Array.of_list g.(0) in
    let is_real = List.exists (fun t -> String.contains t 'x' || String.contains t '.') (List.concat (List.tl (Array.to_list g))) in
    if is_real || not (List.mem kind ["E"; "R"; "N"]) then kind ^ " -" else
    match table hd.(1) (parse_q hd.(2)) with
    | None -> kind ^ " -"
    | Some k ->
      let qsec i = List.map parse_q (sec i) and isec i = List.map int_of_string (sec i) in
      let name = hd.(1) in
      let nin = int_of_string hd.(4) in
      let szs = isec 1 and params = qsec 2 and ins = rows nin (qsec 3) in
      let n = List.length ins in
      let labs : lab list =
        if family name = VV then List.map (fun r -> (O, r)) (rows (List.length (sec 4) / (max n 1)) (qsec 4))
        else List.map (fun c -> (nat_of_int c, [])) (isec 4) in
      let es : elem list = List.map2 (fun x lb -> (x, lb)) ins labs in
      let d = chunk szs es in
      let a0 = fun _ -> O in
      (* (eval, evalDerivative) of the error function with SHARK_NUM_THREADS = t: None = call from serial code, Some = nested call *)
      let pair : int option -> vec * vec =
        if kind = "N" then begin
          let nh = int_of_string hd.(5) and nout = int_of_string hd.(6) in
          let p1 = take (nin * nh + nh) params and p2 = drop (nin * nh + nh) params in
          let m = { n1 = { lW = rows nin (take (nin * nh) p1); lb = drop (nin * nh) p1 };
                    n2 = { lW = rows nh (take (nh * nout) p2); lb = drop (nh * nout) p2 } } in
          (function None -> (net2_ef_eval k m (nat_of_int 1) d, net2_ef_evald k m (nat_of_int 1) d)
                  | Some t -> let nt = nat_of_int t in let ord = nested_order nt d in
                    (net2_ef_ctx_eval k m a0 ord nt d, net2_ef_ctx_evald k m a0 ord nt d))
        end else begin
          let nout = int_of_string hd.(5) in
          let m = { lW = rows nin (take (nin * nout) params); lb = drop (nin * nout) params } in
          let reg pe pr =
            if kind <> "R" then (pe, pr) else begin
              let lam = parse_q hd.(7) and mask = qsec 5 in
              let one = hd.(6) = "one" in
              let rv = if one then one_eval mask params else two_eval mask params in
              let rg = if one then one_grad mask params else two_grad mask params in
              (add_reg_eval lam rv pe, add_reg lam rv rg pr)
            end in
          (function None -> reg (ef_eval k m (nat_of_int 1) d) (ef_evald k m (nat_of_int 1) d)
                  | Some t -> let nt = nat_of_int t in let ord = nested_order nt d in
                    reg (ef_ctx_eval k m a0 ord nt d) (ef_ctx_evald k m a0 ord nt d))
        end in
      let triple c = let (pe, pr) = pair c in Printf.sprintf "%s:%s:%s" (qs (qhd pe)) (qs (qhd pr)) (qv (List.tl pr)) in
      let t2 = triple (Some 2) and t3 = triple (Some 3) in
      Printf.sprintf "%s cs=%s c2o=%s c3o=%s c2a=%s;%s c3a=%s;%s;%s" kind (triple None) t2 t3 t2 t2 t3 t3 t3

let () =
  let ctx = Array.length Sys.argv >= 4 && Sys.argv.(1) = "ctx" in
  let ic = open_in Sys.argv.(if ctx then 3 else 1) in
  (try while true do
      let l = input_line ic in
      let out = try (if ctx then handle_ctx l else handle l) with e -> (if l = "" then "?" else String.make 1 l.[0]) ^ " MODELEXC " ^ Printexc.to_string e in
      print_endline out
    done with End_of_file -> ())
