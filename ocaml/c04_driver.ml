(* Driver for the extracted C04 model, float instantiation (IEEE double = OCaml float; the ring operations and the
   scalar activation functions are passed as ordinary function arguments, no Extract Constant).
   Reads the case file of harness/c04_models.cpp, one output line per input line:
     LIN act off nin nout | params | B nin X | C       -> OK np= rt= eb= e1= wpd= wid= wdp= wdi= km=(kink margin of rectifier layers)
     NET k (1 LIN act off nin nout)*k | params | X | C  -> the same keys (net_eval / net_eval_batch / net_back)
     NRM n off | params | X | C                         -> OK np= rt= eb= e1=
     CLS off nin nout nb bias.. | params | X            -> OK np= rt= eb= e1=
     CONV act H W C F fh fw pad | params | X | C        -> OK np= rt= eb= e1= wpd= wid= wdp= wdi=   (C04Conv.v: conv_set / conv_eval_batch /
                                                           conv_eval / conv_wpd / conv_wid / conv_wd, index-level model of Conv2DModel)
     POOL H W C ph pw | | X | C                         -> OK np=0 rt= eb= e1= wpd= wid= wdp= wdi=   (C04Pool.v: pool_eval_batch / pool_eval / pool_wid)
     RESIZE H W C oh ow | | X | C                       -> the same keys (C04Pool.v: resize_eval_batch / resize_eval / resize_wid; the sample
                                                           points, B-spline weights and clamped indices are computed by the model from
                                                           float division / floor passed as function arguments)
   every other model kind (monitored only, not modelled in Coq) -> SKIP *)
open C04_model

let rec nat_of_int n = if n <= 0 then O else S (nat_of_int (n - 1))
let rec int_of_nat = function O -> 0 | S n -> 1 + int_of_nat n

let z = 0.0
let ( +% ) = ( +. ) and ( *% ) = ( *. )
let fadd = ( +. ) and fmul = ( *. ) and fsub = ( -. ) and fdiv = ( /. )

let pf x = if x <> x then "nan" else if x = infinity then "inf" else if x = neg_infinity then "-inf" else Printf.sprintf "%h" x
let fos s = match s with "inf" -> infinity | "-inf" -> neg_infinity | "nan" | "-nan" -> nan | _ -> float_of_string s

let act_of = function
  | 0 -> id_act
  | 1 -> ew_act fmul (fun x -> if x > 0.0 then x else 0.0) (fun y -> if y > 0.0 then 1.0 else 0.0)
  | 2 -> ew_act fmul tanh (fun y -> 1.0 -. y *. y)
  | 3 -> ew_act fmul (fun x -> (tanh (x /. 2.0) +. 1.0) /. 2.0) (fun y -> y *. (1.0 -. y))
  | 4 -> ew_act fmul (fun x -> x /. (1.0 +. Float.abs x)) (fun y -> let u = 1.0 -. Float.abs y in u *. u)
  | 5 -> softmax_act z fadd fmul fsub fdiv exp
  | 6 -> normalizer_act z fadd fmul fsub fdiv
  | _ -> failwith "activation"

let split_seg l =
  let re = Str.regexp_string " | " in
  Str.split_delim re l

let toks s = List.filter (fun x -> x <> "") (String.split_on_char ' ' s)
let csv v = String.concat "," (List.map pf v)
let rec chunks n = function [] -> [] | l ->
  let rec take k acc r = if k = 0 then (List.rev acc, r) else (match r with [] -> (List.rev acc, []) | x :: r' -> take (k - 1) (x :: acc) r') in
  let (a, r) = take n [] l in a :: chunks n r

(* kink margin of a rectifier layer on one input row: min_o |pre_o| / (1 + sum_i |w_oi x_i| + |b_o|); a value below ~1e-10 on a
   non-dyadic case means the sign of the rectifier argument is decided by rounding (the derivative comparison is then skipped by
   tools/c04.py, the values are still compared) *)
let margin_row (ly : float layer) (x : float list) : float =
  let pre = lin_pre z fadd fmul ly x in
  let absl = { lW = List.map (List.map Float.abs) ly.lW; lb = List.map Float.abs ly.lb; lact = ly.lact } in
  let sc = lin_pre z fadd fmul absl (List.map Float.abs x) in
  List.fold_left2 (fun m p s -> Float.min m (Float.abs p /. (1.0 +. s))) infinity pre sc

let read_x seg =
  match toks seg with
  | b :: n :: rest -> let b = int_of_string b and n = int_of_string n in
      let v = List.map fos rest in
      if n = 0 then (b, n, List.init b (fun _ -> [])) else (b, n, chunks n v)
  | _ -> failwith "X"

let () =
  let ic = open_in Sys.argv.(1) in
  (try while true do
      let l = input_line ic in
      if l = "" || l.[0] = '#' then print_newline () else begin
        let out =
          try
            let seg = Array.of_list (split_seg l) in
            let spec = Array.of_list (toks seg.(0)) in
            let params = List.map fos (toks seg.(1)) in
            let (b, nin, x) = read_x seg.(2) in
            let i k = int_of_string spec.(k) in
            match spec.(0) with
            | "LIN" ->
              let a = i 1 and off = i 2 <> 0 and ni = i 3 and no = i 4 in
              let cs = List.map fos (toks seg.(3)) in
              let c = if no = 0 then List.init b (fun _ -> []) else chunks no cs in
              let np = int_of_nat (lin_nparams (nat_of_int ni) (nat_of_int no) off) in
              let ly = lin_set (nat_of_int ni) (nat_of_int no) off (act_of a) params in
              let eb = lin_eval_batch z fadd fmul ly x in
              let e1 = List.map (lin_eval z fadd fmul ly) x in
              let wpd = lin_wpd z fadd fmul (nat_of_int ni) (nat_of_int no) ly x c in
              let wid = lin_wid z fadd fmul (nat_of_int ni) ly x c in
              let (wdp, wdi) = lin_wd z fadd fmul (nat_of_int ni) (nat_of_int no) ly x c in
              let km = if a = 1 then List.fold_left (fun m r -> Float.min m (margin_row ly r)) infinity x else infinity in
              Printf.sprintf "OK np=%d rt=%s eb=%s e1=%s wpd=%s wid=%s wdp=%s wdi=%s km=%s" np (csv (lin_params ly))
                (csv (List.concat eb)) (csv (List.concat e1)) (csv wpd) (csv (List.concat wid)) (csv wdp) (csv (List.concat wdi)) (pf km)
            | "NET" ->
              let k = i 1 in
              let ok = ref (Array.length spec = 2 + 6 * k) in
              let sh = ref [] in
              if !ok then
                for j = k - 1 downto 0 do
                  let o = 2 + 6 * j in
                  if spec.(o) <> "1" || spec.(o + 1) <> "LIN" then ok := false
                  else sh := (((nat_of_int (i (o + 4)), nat_of_int (i (o + 5))), i (o + 3) <> 0), act_of (i (o + 2))) :: !sh
                done;
              if not !ok then "SKIP" else begin
                let no = int_of_nat (snd (fst (fst (List.nth !sh (k - 1))))) in
                let cs = List.map fos (toks seg.(3)) in
                let c = if no = 0 then List.init b (fun _ -> []) else chunks no cs in
                let np = int_of_nat (net_nparams (List.map fst !sh)) in
                let nt = net_set !sh params in
                let eb = net_eval_batch z fadd fmul nt x in
                let e1 = List.map (net_eval z fadd fmul nt) x in
                let (g, d) = net_back z fadd fmul nt x c in
                let acts = List.init k (fun j -> i (2 + 6 * j + 2)) in
                let km = List.fold_left (fun m row ->
                    let (m', _) = List.fold_left2 (fun (m, xr) ((_, ly) : (nat * nat) * float layer) a ->
                        ((if a = 1 then Float.min m (margin_row ly xr) else m), lin_eval z fadd fmul ly xr)) (m, row) nt acts in m') infinity x in
                Printf.sprintf "OK np=%d rt=%s eb=%s e1=%s wpd=%s wid=%s wdp=%s wdi=%s km=%s" np (csv (net_params nt))
                  (csv (List.concat eb)) (csv (List.concat e1)) (csv g) (csv (List.concat d)) (csv g) (csv (List.concat d)) (pf km)
              end
            | "NRM" ->
              let n = i 1 and off = i 2 <> 0 in
              let (dg, bb) = norm_set (nat_of_int n) off params in
              let eb = norm_eval_batch fadd fmul dg bb x in
              let e1 = List.map (norm_eval fadd fmul dg bb) x in
              Printf.sprintf "OK np=%d rt=%s eb=%s e1=%s" (n + (if off then n else 0)) (csv (norm_params dg bb)) (csv (List.concat eb)) (csv (List.concat e1))
            | "CLS" ->
              let off = i 1 <> 0 and ni = i 2 and no = i 3 and nb = i 4 in
              let bias = List.init nb (fun j -> fos spec.(5 + j)) in
              let np = int_of_nat (lin_nparams (nat_of_int ni) (nat_of_int no) off) in
              let ly = lin_set (nat_of_int ni) (nat_of_int no) off id_act params in
              let ltb a b = a < b in
              let eb = classifier_eval_batch z fadd fmul ltb ly bias x in
              let e1 = List.map (classifier_eval z fadd fmul ltb ly bias) x in
              let ci v = String.concat "," (List.map (fun n -> string_of_int (int_of_nat n)) v) in
              Printf.sprintf "OK np=%d rt=%s eb=%s e1=%s" np (csv (lin_params ly)) (ci eb) (ci e1)
            | "CONV" ->
              let a = i 1 in
              let g = { gC = nat_of_int (i 4); gF = nat_of_int (i 5); gH = nat_of_int (i 2); gW = nat_of_int (i 3);
                        gfh = nat_of_int (i 6); gfw = nat_of_int (i 7); gpad = (i 8 <> 0) } in
              let no = int_of_nat (conv_nout g) in
              let cs = List.map fos (toks seg.(3)) in
              let c = if no = 0 then List.init b (fun _ -> []) else chunks no cs in
              let np = int_of_nat (conv_nparams g) in
              let m = conv_set z g (act_of a) params in
              let eb = conv_eval_batch z fadd fmul m x in
              let e1 = List.map (conv_eval z fadd fmul m) x in
              let wpd = conv_wpd z fadd fmul m x c in
              let wid = conv_wid z fadd fmul m x c in
              let (wdp, wdi) = conv_wd z fadd fmul m x c in
              Printf.sprintf "OK np=%d rt=%s eb=%s e1=%s wpd=%s wid=%s wdp=%s wdi=%s" np (csv (conv_params m))
                (csv (List.concat eb)) (csv (List.concat e1)) (csv wpd) (csv (List.concat wid)) (csv wdp) (csv (List.concat wdi))
            | "POOL" ->
              let g = { pH = nat_of_int (i 1); pW = nat_of_int (i 2); pC = nat_of_int (i 3); pph = nat_of_int (i 4); ppw = nat_of_int (i 5) } in
              let no = int_of_nat (pool_nout g) in
              let cs = List.map fos (toks seg.(3)) in
              let c = if no = 0 then List.init b (fun _ -> []) else chunks no cs in
              let ltb a b = a < b in
              let eb = pool_eval_batch z ltb g x in
              let e1 = List.map (pool_eval z ltb g) x in
              let wid = pool_wid z fadd ltb g x c in
              Printf.sprintf "OK np=0 rt= eb=%s e1=%s wpd= wid=%s wdp= wdi=%s" (csv (List.concat eb)) (csv (List.concat e1))
                (csv (List.concat wid)) (csv (List.concat wid))
            | "RESIZE" ->
              let g = { rH = nat_of_int (i 1); rW = nat_of_int (i 2); rC = nat_of_int (i 3); roh = nat_of_int (i 4); row_ = nat_of_int (i 5) } in
              let no = int_of_nat (resize_nout g) in
              let cs = List.map fos (toks seg.(3)) in
              let c = if no = 0 then List.init b (fun _ -> []) else chunks no cs in
              let ofnat n = float_of_int (int_of_nat n) in
              let floorn v = nat_of_int (int_of_float (Float.floor v)) in
              let eb = resize_eval_batch z fadd fmul fsub fdiv Float.neg ofnat floorn g x in
              let e1 = List.map (resize_eval z fadd fmul fsub fdiv Float.neg ofnat floorn g) x in
              let wid = resize_wid z fadd fmul fsub fdiv Float.neg ofnat floorn g c in
              Printf.sprintf "OK np=0 rt= eb=%s e1=%s wpd= wid=%s wdp= wdi=%s" (csv (List.concat eb)) (csv (List.concat e1))
                (csv (List.concat wid)) (csv (List.concat wid))
            | _ -> "SKIP"
          with Failure m -> "MODELERR " ^ m | Invalid_argument m -> "MODELERR " ^ m | Not_found -> "MODELERR notfound"
        in
        print_endline out
      end
    done with End_of_file -> ())
