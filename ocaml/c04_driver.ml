(* Driver for the extracted C04 model, float instantiation (IEEE double = OCaml float; the ring operations and the
   scalar activation functions are passed as ordinary function arguments, no Extract Constant).
   Reads the case file of harness/c04_models.cpp, one output line per input line:
     LIN act off nin nout | params | B nin X | C       -> OK np= rt= eb= e1= wpd= wid= wdp= wdi= km=(kink margin of rectifier layers)
     NET k (1 LIN act off nin nout)*k | params | X | C  -> the same keys (net_eval / net_eval_batch / net_back)
     NRM n off | params | X | C                         -> OK np= rt= eb= e1=
     CLS off nin nout nb bias.. | params | X            -> OK np= rt= eb= e1=
     CONV act H W C F fh fw pad | params | X | C        -> OK np= rt= eb= e1= wpd= wid= wdp= wdi=   (C04Conv.v: conv_set / conv_eval_batch /
                                                           conv_eval / conv_wpd / conv_wid / conv_wd, index-level model of Conv2DModel)
     POOL H W C ph pw | | X | C                         -> OK np=0 rt= eb= e1= wpd= wid= wdp= wdi=   (C04Pool.v: pool_eval_batch / pool_eval / pool_wid)
     RESIZE H W C oh ow | | X | C                       -> the same keys (C04Pool.v: resize_eval_batch / resize_eval / resize_wid; the sample
                                                           points, B-spline weights and clamped indices are computed by the model from
                                                           float division / floor passed as function arguments)
     NEU act n | | X | C                                -> the same keys (C04Het.v: neu_eval / neu_eval1 / neu_wid)
     NET k (flag <LIN|NEU|NRM|CONV|POOL|RESIZE|RBF spec> [inline params if flag = 0])*k | params | X | C
                                                        -> OK np= rt= ft= eb= e1= [wpd=] [wid=] [wdp= wdi=] km=   (C04Het.v: hnet_set /
                                                           hnet_eval / hnet_eval1 / hnet_features / hnet_wpd / hnet_wid / hnet_wd over the layer
                                                           kinds lin_kind, neu_kind, norm_kind, conv_kind, pool_kind, resize_kind, rbf_kind)
     RBF nin nout tc tw g.. | params | X | C            -> OK np= rt= eb= e1= wpd=   (C04Misc.v: rbf_set_gamma / rbf_set / rbf_params / rbf_eval(_batch) / rbf_wpd)
     CMAC nin nout tilings tiles lo hi | params | X | C -> OK np= rt= eb= e1= wpd=   (C04Misc.v: cmac_eval(_batch) / cmac_wpd)
     ENS m (w LIN act off nin nout p..)*m | | X | C     -> OK np=0 rt= eb= e1=       (C04Misc.v: ens_eval_batch / ens_eval over LinearModel members)
     KEXP / KEXB kern par .. | params | X | C           -> OK np= rt= eb= e1=        (C04Kexp.v: ke_set / ke_params / ke_eval_batch / ke_eval with the
                                                           kernels kx_lin, kx_poly of C04Kexp.v; the Gaussian kernel is an OCaml closure)
   every other model kind -> SKIP *)
open C04_model

let rec nat_of_int n = if n <= 0 then O else S (nat_of_int (n - 1))
let rec int_of_nat = function O -> 0 | S n -> 1 + int_of_nat n

let z = 0.0
let ( +% ) = ( +. ) and ( *% ) = ( *. )
let fadd = ( +. ) and fmul = ( *. ) and fsub = ( -. ) and fdiv = ( /. )

let pf x = if x <> x then "nan" else if x = infinity then "inf" else if x = neg_infinity then "-inf" else Printf.sprintf "%h" x
let fos s = match s with "inf" -> infinity | "-inf" -> neg_infinity | "nan" | "-nan" -> nan | _ -> float_of_string s

let act_of = function
  | 0 -> id_act
  | 1 -> ew_act fmul (fun x -> if x > 0.0 then x else 0.0) (fun y -> if y > 0.0 then 1.0 else 0.0)
  | 2 -> ew_act fmul tanh (fun y -> 1.0 -. y *. y)
  | 3 -> ew_act fmul (fun x -> (tanh (x /. 2.0) +. 1.0) /. 2.0) (fun y -> y *. (1.0 -. y))
  | 4 -> ew_act fmul (fun x -> x /. (1.0 +. Float.abs x)) (fun y -> let u = 1.0 -. Float.abs y in u *. u)
  | 5 -> softmax_act z fadd fmul fsub fdiv exp
  | 6 -> normalizer_act z fadd fmul fsub fdiv
  | _ -> failwith "activation"

let split_seg l =
  let re = Str.regexp_string " | " in
  Str.split_delim re l

let toks s = List.filter (fun x -> x <> "") (String.split_on_char ' ' s)
let csv v = String.concat "," (List.map pf v)
let rec chunks n = function [] -> [] | l ->
  let rec take k acc r = if k = 0 then (List.rev acc, r) else (match r with [] -> (List.rev acc, []) | x :: r' -> take (k - 1) (x :: acc) r') in
  let (a, r) = take n [] l in a :: chunks n r

(* kink margin of a rectifier layer on one input row: min_o |pre_o| / (1 + sum_i |w_oi x_i| + |b_o|); a value below ~1e-10 on a
   non-dyadic case means the sign of the rectifier argument is decided by rounding (the derivative comparison is then skipped by
   tools/c04.py, the values are still compared) *)
let margin_row (ly : float layer) (x : float list) : float =
  let pre = lin_pre z fadd fmul ly x in
  let absl = { lW = List.map (List.map Float.abs) ly.lW; lb = List.map Float.abs ly.lb; lact = ly.lact } in
  let sc = lin_pre z fadd fmul absl (List.map Float.abs x) in
  List.fold_left2 (fun m p s -> Float.min m (Float.abs p /. (1.0 +. s))) infinity pre sc

let read_x seg =
  match toks seg with
  | b :: n :: rest -> let b = int_of_string b and n = int_of_string n in
      let v = List.map fos rest in
      if n = 0 then (b, n, List.init b (fun _ -> [])) else (b, n, chunks n v)
  | _ -> failwith "X"

(* ---- heterogeneous concatenations: layer kinds of C04Het.v from a spec token stream ----
   parse_kind toks pos -> (kind, kink probe, next position) ; the kink probe returns, for one input batch, the margin of the
   non-differentiable points of the layer: rectifier pre-activations |pre| / (1 + max |pre|), max pooling gap between the two
   largest entries of a patch / (1 + |max|); infinity for smooth layers.  Unknown kinds raise Not_modelled. *)
exception Not_modelled
let ofnat_f n = float_of_int (int_of_nat n)
let floorn_f v = nat_of_int (int_of_float (Float.floor v))
let rect_margin (pre : float list list) : float =
  let mx = List.fold_left (fun m r -> List.fold_left (fun m v -> Float.max m (Float.abs v)) m r) 0.0 pre in
  List.fold_left (fun m r -> List.fold_left (fun m v -> Float.min m (Float.abs v /. (1.0 +. mx))) m r) infinity pre
let pool_margin (g : pgeo) (x : float list list) : float =
  let hh = int_of_nat g.pH and w = int_of_nat g.pW and c = int_of_nat g.pC and ph = int_of_nat g.pph and pw = int_of_nat g.ppw in
  let oh = hh / ph and ow = w / pw in
  List.fold_left (fun m row ->
      let a = Array.of_list row in
      let m = ref m in
      for p = 0 to oh * ow - 1 do for ch = 0 to c - 1 do
          let vals = ref [] in
          for i = (p / ow) * ph to (p / ow) * ph + ph - 1 do for j = (p mod ow) * pw to (p mod ow) * pw + pw - 1 do
              vals := a.((i * w + j) * c + ch) :: !vals done done;
          (match List.sort (fun u v -> compare v u) !vals with
           | v1 :: v2 :: _ -> m := Float.min !m ((v1 -. v2) /. (1.0 +. Float.abs v1))
           | _ -> ())
        done done; !m) infinity x
let rec parse_kind (spec : string array) (p : int) : float lkind * (float list -> float list list -> float) * int =
  let i k = int_of_string spec.(p + k) in
  let smooth = fun _ _ -> infinity in
  match spec.(p) with
  | "LIN" ->
    let a = i 1 and off = i 2 <> 0 and ni = nat_of_int (i 3) and no = nat_of_int (i 4) in
    let probe = if a = 1 then (fun par x -> rect_margin (lin_pre_batch z fadd fmul (lin_set ni no off (act_of a) par) x)) else smooth in
    (lin_kind z fadd fmul ni no off (act_of a), probe, p + 5)
  | "NEU" ->
    let a = i 1 and n = nat_of_int (i 2) in
    (neu_kind n (act_of a), (if a = 1 then (fun _ x -> rect_margin x) else smooth), p + 3)
  | "NRM" -> (norm_kind fadd fmul (nat_of_int (i 1)) (i 2 <> 0), smooth, p + 3)
  | "CONV" ->
    let a = i 1 in
    let g = { gC = nat_of_int (i 4); gF = nat_of_int (i 5); gH = nat_of_int (i 2); gW = nat_of_int (i 3);
              gfh = nat_of_int (i 6); gfw = nat_of_int (i 7); gpad = (i 8 <> 0) } in
    let probe = if a = 1 then (fun par x -> rect_margin (conv_pre_batch z fadd fmul (conv_set z g (act_of a) par) x)) else smooth in
    (conv_kind z fadd fmul g (act_of a), probe, p + 9)
  | "POOL" ->
    let g = { pH = nat_of_int (i 1); pW = nat_of_int (i 2); pC = nat_of_int (i 3); pph = nat_of_int (i 4); ppw = nat_of_int (i 5) } in
    (pool_kind z fadd (fun a b -> a < b) g, (fun _ x -> pool_margin g x), p + 6)
  | "RESIZE" ->
    let g = { rH = nat_of_int (i 1); rW = nat_of_int (i 2); rC = nat_of_int (i 3); roh = nat_of_int (i 4); row_ = nat_of_int (i 5) } in
    (resize_kind z fadd fmul fsub fdiv Float.neg ofnat_f floorn_f g, smooth, p + 6)
  | "RBF" ->
    let ni = i 1 and no = i 2 and tc = i 3 <> 0 and tw = i 4 <> 0 in
    let gam = List.init no (fun j -> fos spec.(p + 5 + j)) in
    let logpi = log (4.0 *. atan 1.0) in
    let m0 = { r_nin = nat_of_int ni; r_nout = nat_of_int no; r_tc = tc; r_tw = tw;
               r_centers = List.init no (fun _ -> List.init ni (fun _ -> 0.0)); r_gamma = []; r_logn = [] } in
    let m0 = rbf_set_gamma fmul fsub log ofnat_f 0.5 logpi m0 gam in
    (rbf_kind z fadd fmul fsub Float.neg exp log ofnat_f 0.5 logpi m0, smooth, p + 5 + no)
  | _ -> raise Not_modelled
(* NET k (flag <spec> [inline parameters if flag = 0])*k *)
let parse_net (spec : string array) : float hnet * (float list -> float list list -> float) list =
  let k = int_of_string spec.(1) in
  let pos = ref 2 and layers = ref [] and probes = ref [] in
  for _ = 1 to k do
    let flag = spec.(!pos) <> "0" in
    let (kind, probe, q) = parse_kind spec (!pos + 1) in
    let np = int_of_nat kind.k_np in
    let (par, q) = if flag then (List.init np (fun _ -> 0.0), q) else (List.init np (fun j -> fos spec.(q + j)), q + np) in
    layers := { h_opt = flag; h_kind = kind; h_par = par } :: !layers; probes := probe :: !probes; pos := q
  done;
  (List.rev !layers, List.rev !probes)

let () =
  let ic = open_in Sys.argv.(1) in
  (try while true do
      let l = input_line ic in
      if l = "" || l.[0] = '#' then print_newline () else begin
        let out =
          try
            let seg = Array.of_list (split_seg l) in
            let spec = Array.of_list (toks seg.(0)) in
            let params = List.map fos (toks seg.(1)) in
            let (b, nin, x) = read_x seg.(2) in
            let i k = int_of_string spec.(k) in
            match spec.(0) with
            | "LIN" ->
              let a = i 1 and off = i 2 <> 0 and ni = i 3 and no = i 4 in
              let cs = List.map fos (toks seg.(3)) in
              let c = if no = 0 then List.init b (fun _ -> []) else chunks no cs in
              let np = int_of_nat (lin_nparams (nat_of_int ni) (nat_of_int no) off) in
              let ly = lin_set (nat_of_int ni) (nat_of_int no) off (act_of a) params in
              let eb = lin_eval_batch z fadd fmul ly x in
              let e1 = List.map (lin_eval z fadd fmul ly) x in
              let wpd = lin_wpd z fadd fmul (nat_of_int ni) (nat_of_int no) ly x c in
              let wid = lin_wid z fadd fmul (nat_of_int ni) ly x c in
              let (wdp, wdi) = lin_wd z fadd fmul (nat_of_int ni) (nat_of_int no) ly x c in
              let km = if a = 1 then List.fold_left (fun m r -> Float.min m (margin_row ly r)) infinity x else infinity in
              Printf.sprintf "OK np=%d rt=%s eb=%s e1=%s wpd=%s wid=%s wdp=%s wdi=%s km=%s" np (csv (lin_params ly))
                (csv (List.concat eb)) (csv (List.concat e1)) (csv wpd) (csv (List.concat wid)) (csv wdp) (csv (List.concat wdi)) (pf km)
            | "NET" ->
              let k = i 1 in
              let ok = ref (Array.length spec = 2 + 6 * k) in
              let sh = ref [] in
              if !ok then
                for j = k - 1 downto 0 do
                  let o = 2 + 6 * j in
                  if spec.(o) <> "1" || spec.(o + 1) <> "LIN" then ok := false
                  else sh := (((nat_of_int (i (o + 4)), nat_of_int (i (o + 5))), i (o + 3) <> 0), act_of (i (o + 2))) :: !sh
                done;
              if not !ok then begin
                (* heterogeneous layers and / or frozen layers: C04Het.v *)
                try
                  let (n0, probes) = parse_net spec in
                  let np = int_of_nat (hnet_np n0) in
                  let nt = hnet_set n0 params in
                  let eb = hnet_eval nt x in
                  let e1 = List.map (hnet_eval1 nt) x in
                  let (pD, iD) = hnet_features nt in
                  let no = match eb with r :: _ -> List.length r | [] -> 0 in
                  let cs = List.map fos (toks seg.(3)) in
                  let c = if no = 0 then List.init b (fun _ -> []) else chunks no cs in
                  let (_, km) = List.fold_left2 (fun (xin, m) (ly : float hlayer) probe ->
                      (ly.h_kind.k_eval ly.h_par xin, Float.min m (probe ly.h_par xin))) (x, infinity) nt probes in
                  let buf = Buffer.create 1024 in
                  Buffer.add_string buf (Printf.sprintf "OK np=%d rt=%s ft=%d eb=%s e1=%s" np (csv (hnet_params nt))
                                           ((if pD then 1 else 0) + (if iD then 4 else 0)) (csv (List.concat eb)) (csv (List.concat e1)));
                  if pD then Buffer.add_string buf (Printf.sprintf " wpd=%s" (csv (hnet_wpd nt x c)));
                  if iD then Buffer.add_string buf (Printf.sprintf " wid=%s" (csv (List.concat (hnet_wid nt x c))));
                  if pD && iD then begin
                    let (g, d) = hnet_wd nt x c in
                    Buffer.add_string buf (Printf.sprintf " wdp=%s wdi=%s" (csv g) (csv (List.concat d))) end;
                  Buffer.add_string buf (Printf.sprintf " km=%s" (pf km));
                  Buffer.contents buf
                with Not_modelled -> "SKIP"
              end else begin
                let no = int_of_nat (snd (fst (fst (List.nth !sh (k - 1))))) in
                let cs = List.map fos (toks seg.(3)) in
                let c = if no = 0 then List.init b (fun _ -> []) else chunks no cs in
                let np = int_of_nat (net_nparams (List.map fst !sh)) in
                let nt = net_set !sh params in
                let eb = net_eval_batch z fadd fmul nt x in
                let e1 = List.map (net_eval z fadd fmul nt) x in
                let (g, d) = net_back z fadd fmul nt x c in
                let acts = List.init k (fun j -> i (2 + 6 * j + 2)) in
                let km = List.fold_left (fun m row ->
                    let (m', _) = List.fold_left2 (fun (m, xr) ((_, ly) : (nat * nat) * float layer) a ->
                        ((if a = 1 then Float.min m (margin_row ly xr) else m), lin_eval z fadd fmul ly xr)) (m, row) nt acts in m') infinity x in
                (* the same network through the general model of C04Het.v must give the same lists *)
                let (h0, _) = parse_net spec in
                let ht = hnet_set h0 params in
                let (hg, hd) = hnet_wd ht x c in
                if hnet_eval ht x <> eb || hnet_params ht <> net_params nt || compare hg g <> 0 || compare hd d <> 0
                   || compare (hnet_wpd ht x c) g <> 0 || compare (hnet_wid ht x c) d <> 0
                then failwith "C04Het model differs from C04Model on a LinearModel network";
                Printf.sprintf "OK np=%d rt=%s eb=%s e1=%s wpd=%s wid=%s wdp=%s wdi=%s km=%s" np (csv (net_params nt))
                  (csv (List.concat eb)) (csv (List.concat e1)) (csv g) (csv (List.concat d)) (csv g) (csv (List.concat d)) (pf km)
              end
            | "NRM" ->
              let n = i 1 and off = i 2 <> 0 in
              let (dg, bb) = norm_set (nat_of_int n) off params in
              let eb = norm_eval_batch fadd fmul dg bb x in
              let e1 = List.map (norm_eval fadd fmul dg bb) x in
              Printf.sprintf "OK np=%d rt=%s eb=%s e1=%s" (n + (if off then n else 0)) (csv (norm_params dg bb)) (csv (List.concat eb)) (csv (List.concat e1))
            | "CLS" ->
              let off = i 1 <> 0 and ni = i 2 and no = i 3 and nb = i 4 in
              let bias = List.init nb (fun j -> fos spec.(5 + j)) in
              let np = int_of_nat (lin_nparams (nat_of_int ni) (nat_of_int no) off) in
              let ly = lin_set (nat_of_int ni) (nat_of_int no) off id_act params in
              let ltb a b = a < b in
              let eb = classifier_eval_batch z fadd fmul ltb ly bias x in
              let e1 = List.map (classifier_eval z fadd fmul ltb ly bias) x in
              let ci v = String.concat "," (List.map (fun n -> string_of_int (int_of_nat n)) v) in
              Printf.sprintf "OK np=%d rt=%s eb=%s e1=%s" np (csv (lin_params ly)) (ci eb) (ci e1)
            | "CONV" ->
              let a = i 1 in
              let g = { gC = nat_of_int (i 4); gF = nat_of_int (i 5); gH = nat_of_int (i 2); gW = nat_of_int (i 3);
                        gfh = nat_of_int (i 6); gfw = nat_of_int (i 7); gpad = (i 8 <> 0) } in
              let no = int_of_nat (conv_nout g) in
              let cs = List.map fos (toks seg.(3)) in
              let c = if no = 0 then List.init b (fun _ -> []) else chunks no cs in
              let np = int_of_nat (conv_nparams g) in
              let m = conv_set z g (act_of a) params in
              let eb = conv_eval_batch z fadd fmul m x in
              let e1 = List.map (conv_eval z fadd fmul m) x in
              let wpd = conv_wpd z fadd fmul m x c in
              let wid = conv_wid z fadd fmul m x c in
              let (wdp, wdi) = conv_wd z fadd fmul m x c in
              Printf.sprintf "OK np=%d rt=%s eb=%s e1=%s wpd=%s wid=%s wdp=%s wdi=%s" np (csv (conv_params m))
                (csv (List.concat eb)) (csv (List.concat e1)) (csv wpd) (csv (List.concat wid)) (csv wdp) (csv (List.concat wdi))
            | "NEU" ->
              let a = act_of (i 1) and n = i 2 in
              let cs = List.map fos (toks seg.(3)) in
              let c = if n = 0 then List.init b (fun _ -> []) else chunks n cs in
              let eb = neu_eval a x in
              let e1 = List.map (neu_eval1 a) x in
              let wid = neu_wid a x c in
              let km = if i 1 = 1 then rect_margin x else infinity in
              Printf.sprintf "OK np=0 rt= eb=%s e1=%s wpd= wid=%s wdp= wdi=%s km=%s" (csv (List.concat eb)) (csv (List.concat e1))
                (csv (List.concat wid)) (csv (List.concat wid)) (pf km)
            | "RBF" ->
              let ni = i 1 and no = i 2 and tc = i 3 <> 0 and tw = i 4 <> 0 in
              let gam = List.init no (fun j -> fos spec.(5 + j)) in
              let half = 0.5 and logpi = log (4.0 *. atan 1.0) in
              let m0 = { r_nin = nat_of_int ni; r_nout = nat_of_int no; r_tc = tc; r_tw = tw;
                         r_centers = List.init no (fun _ -> List.init ni (fun _ -> 0.0)); r_gamma = []; r_logn = [] } in
              let m0 = rbf_set_gamma fmul fsub log ofnat_f half logpi m0 gam in
              let m = rbf_set fmul fsub exp log ofnat_f half logpi m0 params in
              let cs = List.map fos (toks seg.(3)) in
              let c = if no = 0 then List.init b (fun _ -> []) else chunks no cs in
              let eb = rbf_eval_batch z fadd fmul fsub Float.neg exp m x in
              let e1 = List.map (rbf_eval z fadd fmul fsub Float.neg exp m) x in
              let wpd = rbf_wpd z fadd fmul fsub Float.neg exp ofnat_f half m x c in
              Printf.sprintf "OK np=%d rt=%s eb=%s e1=%s wpd=%s" (int_of_nat (rbf_nparams m)) (csv (rbf_params log m))
                (csv (List.concat eb)) (csv (List.concat e1)) (csv wpd)
            | "CMAC" ->
              let g = { c_nin = nat_of_int (i 1); c_nout = nat_of_int (i 2); c_tilings = nat_of_int (i 3); c_tiles = nat_of_int (i 4);
                        c_lower = fos spec.(5); c_upper = fos spec.(6) } in
              let no = i 2 in
              let cs = List.map fos (toks seg.(3)) in
              let c = if no = 0 then List.init b (fun _ -> []) else chunks no cs in
              let trunc v = nat_of_int (int_of_float v) in
              let eb = cmac_eval_batch z fadd fmul fsub fdiv ofnat_f 0.5 trunc 1.0 g params x in
              let e1 = List.map (cmac_eval z fadd fmul fsub fdiv ofnat_f 0.5 trunc 1.0 g params) x in
              let wpd = cmac_wpd z fadd fmul fsub fdiv ofnat_f 0.5 trunc 1.0 g x c in
              Printf.sprintf "OK np=%d rt=%s eb=%s e1=%s wpd=%s" (int_of_nat (cmac_nparams g)) (csv params)
                (csv (List.concat eb)) (csv (List.concat e1)) (csv wpd)
            | "ENS" ->
              let nm = i 1 in
              let pos = ref 2 and members = ref [] and no = ref 0 in
              for _ = 1 to nm do
                let w = fos spec.(!pos) in
                if spec.(!pos + 1) <> "LIN" then failwith "ENS member";
                let off = int_of_string spec.(!pos + 3) <> 0 and ni = int_of_string spec.(!pos + 4) and nout = int_of_string spec.(!pos + 5) in
                let np = int_of_nat (lin_nparams (nat_of_int ni) (nat_of_int nout) off) in
                let par = List.init np (fun j -> fos spec.(!pos + 6 + j)) in
                let ly = lin_set (nat_of_int ni) (nat_of_int nout) off id_act par in
                members := (w, (fun xs -> lin_eval_batch z fadd fmul ly xs)) :: !members; no := nout; pos := !pos + 6 + np
              done;
              let members = List.rev !members in
              let eb = ens_eval_batch z fadd fmul fdiv (nat_of_int !no) members x in
              let e1 = List.map (ens_eval z fadd fmul fdiv (nat_of_int !no) members) x in
              Printf.sprintf "OK np=0 rt= eb=%s e1=%s" (csv (List.concat eb)) (csv (List.concat e1))
            | "KEXP" | "KEXB" ->
              (* KEXP kern par bs nb nin nout off basis..  (batches made by createDataFromRange: the model takes ONE batch; by
                 C04_kexp_blocks the value does not depend on the partition)   KEXB kern par k s_1..s_k nin nout off basis.. *)
              let kern = i 1 and par = fos spec.(2) in
              let (sizes, q) = if spec.(0) = "KEXP" then ([i 4], 5) else (List.init (i 3) (fun j -> i (4 + j)), 4 + i 3) in
              let ni = i q and no = i (q + 1) and off = i (q + 2) <> 0 in
              let pos = ref (q + 3) in
              let basis = List.map (fun sz -> List.init sz (fun _ -> let r = List.init ni (fun j -> fos spec.(!pos + j)) in pos := !pos + ni; r)) sizes in
              let kf = if kern = 0 then kx_lin z fadd fmul
                else if kern = 1 then (fun u v -> exp (Float.neg par *. List.fold_left2 (fun a p q -> a +. (p -. q) *. (p -. q)) 0.0 u v))
                else kx_poly z 1.0 fadd fmul (nat_of_int kern) par in
              let m0 = { ke_basis = basis; ke_nout = nat_of_int no; ke_alpha = []; ke_b = (if off then List.init no (fun _ -> 0.0) else []) } in
              let m = ke_set m0 params in
              let eb = ke_eval_batch z fadd fmul kf m x in
              let e1 = List.map (ke_eval z fadd fmul kf m) x in
              Printf.sprintf "OK np=%d rt=%s eb=%s e1=%s" (int_of_nat (ke_nparams m)) (csv (ke_params m)) (csv (List.concat eb)) (csv (List.concat e1))
            | "POOL" ->
              let g = { pH = nat_of_int (i 1); pW = nat_of_int (i 2); pC = nat_of_int (i 3); pph = nat_of_int (i 4); ppw = nat_of_int (i 5) } in
              let no = int_of_nat (pool_nout g) in
              let cs = List.map fos (toks seg.(3)) in
              let c = if no = 0 then List.init b (fun _ -> []) else chunks no cs in
              let ltb a b = a < b in
              let eb = pool_eval_batch z ltb g x in
              let e1 = List.map (pool_eval z ltb g) x in
              let wid = pool_wid z fadd ltb g x c in
              Printf.sprintf "OK np=0 rt= eb=%s e1=%s wpd= wid=%s wdp= wdi=%s" (csv (List.concat eb)) (csv (List.concat e1))
                (csv (List.concat wid)) (csv (List.concat wid))
            | "RESIZE" ->
              let g = { rH = nat_of_int (i 1); rW = nat_of_int (i 2); rC = nat_of_int (i 3); roh = nat_of_int (i 4); row_ = nat_of_int (i 5) } in
              let no = int_of_nat (resize_nout g) in
              let cs = List.map fos (toks seg.(3)) in
              let c = if no = 0 then List.init b (fun _ -> []) else chunks no cs in
              let ofnat n = float_of_int (int_of_nat n) in
              let floorn v = nat_of_int (int_of_float (Float.floor v)) in
              let eb = resize_eval_batch z fadd fmul fsub fdiv Float.neg ofnat floorn g x in
              let e1 = List.map (resize_eval z fadd fmul fsub fdiv Float.neg ofnat floorn g) x in
              let wid = resize_wid z fadd fmul fsub fdiv Float.neg ofnat floorn g c in
              Printf.sprintf "OK np=0 rt= eb=%s e1=%s wpd= wid=%s wdp= wdi=%s" (csv (List.concat eb)) (csv (List.concat e1))
                (csv (List.concat wid)) (csv (List.concat wid))
            | _ -> "SKIP"
          with Failure m -> "MODELERR " ^ m | Invalid_argument m -> "MODELERR " ^ m | Not_found -> "MODELERR notfound"
        in
        print_endline out
      end
    done with End_of_file -> ())
