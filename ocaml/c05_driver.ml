(* Driver for the C05 model (C05Model.v).  Same case file as harness/c05_kernels.cpp, one output line per
   input line.  The model is polymorphic in its arithmetic; this driver instantiates it twice:
     * Coq's canonical rationals Qc (the extracted Qcplus, Qcmult, ...): exact.  The square root handed to
       the model is defined on perfect squares of rationals, the exponential only at 0; anything else raises
       Inexact and the case is re-run with
     * OCaml floats (IEEE doubles, libm sqrt/exp).
   Numbers are printed as p/q (exact run) or as C99 hex floats (float run); the first token says which.
   The driver only parses the kernel expression and composes the extracted combinators (values k_*, b_*, coded
   gradients g_xxx, p_xxx); it contains no kernel arithmetic of its own (it only counts the parameters).
   WI = wid (coded weightedInputDerivative), WP = wpdv (coded weightedParameterDerivative, whole parameter vector),
   WP1 = wpd (one-parameter leaves); a field is absent when the modelled class has no such derivative.
   SE/BE = den / bden of the same expression as a C05Expr.kexp value; MX = C05Blocks.gram_mixed (calculateMixedKernelMatrix,
   X1 in the given partition, X2 in batches of 2 as in the harness); KD = C05Blocks.kmpd (calculateKernelMatrixParameterDerivative
   over the partitioned X1 with the symmetric weights CS(i,j) = C(i, j mod n2) + C(j, i mod n2) that the harness builds).
   Magnitude stream: W lines = V lines whose input coordinates are multiplied by 2^e (floats only unless e = 0); for NORM K at the
   root the same kernel is also evaluated through C05Norm (NK = k_norm_coded, NBK = b_norm_nostate, NBSK = b_norm_state).
   N lines carry the base-kernel numbers the C++ harness printed (hex doubles): NS = C05Norm.norm_single_mat, NB = norm_rowdiv,
   NBS = norm_outer (the three as-coded operation orders of NormalizedKernel), ND = norm_doc_mat (the documented one-division order). *)
open C05_model

let rec nat_of_int n = if n <= 0 then O else S (nat_of_int (n - 1))
let rec pos_of_int n = if n = 1 then XH else if n land 1 = 0 then XO (pos_of_int (n / 2)) else XI (pos_of_int (n / 2))
let z_of_int n = if n = 0 then Z0 else if n > 0 then Zpos (pos_of_int n) else Zneg (pos_of_int (-n))
let rec pos_digits p = match p with XH -> [1] | XO q -> 0 :: pos_digits q | XI q -> 1 :: pos_digits q
let pos_to_string p =
  let bits = List.rev (pos_digits p) in
  let digits = ref [0] in
  let double_add b =
    let carry = ref b in
    digits := List.map (fun d -> let v = 2 * d + !carry in carry := v / 10; v mod 10) !digits;
    if !carry > 0 then digits := !digits @ [!carry] in
  List.iter double_add bits;
  String.concat "" (List.rev_map string_of_int !digits)
let z_to_string = function Z0 -> "0" | Zpos p -> pos_to_string p | Zneg p -> "-" ^ pos_to_string p
(* small values only (square roots of k(x,x) on the generated inputs) *)
let rec int_of_pos = function XH -> 1 | XO p -> 2 * int_of_pos p | XI p -> 2 * int_of_pos p + 1
let rec pos_size = function XH -> 1 | XO p | XI p -> 1 + pos_size p

exception Inexact
exception Unsupported

module type ARITH = sig
  type t
  val tag : string
  val zero : t val one : t
  val add : t -> t -> t val mul : t -> t -> t val sub : t -> t -> t val div : t -> t -> t
  val opp : t -> t val sqrt : t -> t val exp : t -> t val isz : t -> bool
  val parse : string -> t
  val show : t -> string
  val scale2 : int -> t -> t      (* multiplication by 2^e (input preparation of the magnitude stream) *)
end

module QA : ARITH = struct
  type t = qc
  let tag = "Q"
  let mkq n d = qc_make (z_of_int n) (pos_of_int d)
  let zero = mkq 0 1 let one = mkq 1 1
  let add = qcplus let mul = qcmult let sub = qcminus let opp = qcopp
  let isz = qc_isz
  let div a b = if isz b then raise Inexact else qcdiv a b      (* the float run shows what IEEE does with x/0 *)
  let isqrt n = let r = ref (int_of_float (Stdlib.sqrt (float_of_int n))) in
    while !r * !r > n do decr r done; while (!r + 1) * (!r + 1) <= n do incr r done; !r
  let sqrt x =
    let n = qc_num x and d = qc_den x in
    (match n with Zneg _ -> raise Inexact | Z0 -> zero | Zpos p ->
      if pos_size p > 40 || pos_size d > 40 then raise Inexact;
      let n = int_of_pos p and d = int_of_pos d in
      let rn = isqrt n and rd = isqrt d in
      if rn * rn = n && rd * rd = d then mkq rn rd else raise Inexact)
  let exp x = if isz x then one else raise Inexact
  let parse s =
    match String.index_opt s '/' with
    | Some k -> mkq (int_of_string (String.sub s 0 k)) (int_of_string (String.sub s (k + 1) (String.length s - k - 1)))
    | None -> mkq (int_of_string s) 1
  let show x = let d = qc_den x in if d = XH then z_to_string (qc_num x) else z_to_string (qc_num x) ^ "/" ^ pos_to_string d
  let scale2 e x = if e = 0 then x else raise Inexact
end

module FA : ARITH = struct
  type t = float
  let tag = "F"
  let zero = 0.0 let one = 1.0
  let add = ( +. ) let mul = ( *. ) let sub = ( -. ) let div = ( /. )
  let opp x = -. x let sqrt = Stdlib.sqrt let exp = Stdlib.exp let isz x = (x = 0.0)
  let parse s =
    match String.index_opt s '/' with
    | Some k -> float_of_string (String.sub s 0 k) /. float_of_string (String.sub s (k + 1) (String.length s - k - 1))
    | None -> float_of_string s
  let show x = Printf.sprintf "%h" x
  let scale2 e x = Float.ldexp x e
end

let split_groups toks =
  let rec go acc cur = function
    | [] -> List.rev (List.rev cur :: acc)
    | "|" :: r -> go (List.rev cur :: acc) [] r
    | t :: r -> go acc (t :: cur) r in
  go [] [] toks

let rec take n l = if n = 0 then [] else match l with [] -> failwith "short" | x :: r -> x :: take (n - 1) r
let rec drop n l = if n = 0 then l else match l with [] -> failwith "short" | _ :: r -> drop (n - 1) r
let rec chunks n l = if l = [] then [] else take n l :: chunks n (drop n l)
let rec chunks2 l = match l with [] -> [] | [x] -> [[x]] | x :: y :: r -> [x; y] :: chunks2 r
let rec split_sizes sz l = match sz with [] -> [] | s :: r -> take s l :: split_sizes r (drop s l)

module Make (A : ARITH) = struct
  open A
  type vec = A.t list
  type node = {
    k : vec -> vec -> A.t;
    bk : vec list -> vec list -> A.t list list;
    normalized : bool;
    g : (vec -> vec -> vec) option;          (* coded input gradient per pair of points (None: the class has none) *)
    p1 : (vec -> vec -> A.t) option;         (* one-parameter leaves: the scalar derivative (for wpd) *)
    pv : (int * (vec -> vec -> vec)) option; (* number of parameters, coded gradient w.r.t. the parameter vector per pair *)
    e : A.t kexp;                            (* the same expression as a value of C05Expr.kexp: den e / bden e are printed as SE / BE *)
  }
  let toks = ref ([] : string list)
  let next () = match !toks with [] -> failwith "spec" | t :: r -> toks := r; t
  let nexti () = int_of_string (next ())
  let all_some f l = if List.for_all (fun b -> f b <> None) l then Some (List.map (fun b -> match f b with Some v -> v | None -> assert false) l) else None
  let rec parse dim : node =
    match next () with
    | "LIN" -> { k = k_lin zero add mul; bk = b_lin zero add mul; normalized = false; g = Some g_lin; p1 = None; pv = Some (0, p_none); e = ELin }
    | "POLY" ->
      let d = nexti () in let c = A.parse (next ()) in let dp = next () = "1" in let un = next () = "1" in
      let d' = nat_of_int d in
      let p = p_poly zero one add mul div isz d' c in
      { k = k_poly zero one add mul d' c; bk = b_poly zero one add mul d' c; normalized = false;
        g = Some (g_poly zero one add mul div isz d' c);
        p1 = if dp || un then None else Some p;
        (* unconstrained encoding: offset = exp(parameter), the coded gradient is multiplied by the offset *)
        pv = if dp then None else Some (1, if un then g_scaled mul c (p_one p) else p_one p); e = EPoly (d', c) }
    | "MONO" -> let d' = nat_of_int (nexti ()) in
      { k = k_mono zero one add mul d'; bk = b_mono zero one add mul d'; normalized = false;
        g = Some (g_mono zero one add mul div isz d'); p1 = None; pv = Some (0, p_none); e = EMono d' }
    | "RBF" -> let gm = A.parse (next ()) in let un = next () = "1" in
      let p = p_gauss zero add mul sub opp exp gm in
      { k = k_gauss zero add mul sub opp exp gm; bk = b_gauss zero add mul sub opp exp gm; normalized = true;
        g = Some (g_gauss zero one add mul sub opp exp gm);
        p1 = if un then None else Some p;
        pv = Some (1, if un then g_scaled mul gm (p_one p) else p_one p); e = ERbf gm }
    | "ARD" -> let gs = List.init dim (fun _ -> A.parse (next ())) in
      { k = k_ard zero add mul sub opp exp gs; bk = b_ard zero add mul sub opp exp gs; normalized = true;
        g = Some (g_ard zero one add mul sub opp exp gs); p1 = None; pv = Some (dim, p_ard zero add mul sub opp exp gs); e = EArd gs }
    | "NORM" -> let b = parse dim in
      { k = k_norm div sqrt b.k; bk = b_norm zero mul div sqrt b.bk; normalized = true;
        g = (match b.g with Some g -> Some (g_norm one add mul div opp sqrt b.k g) | None -> None); p1 = None;
        pv = (match b.pv with Some (m, p) -> Some (m, p_norm one add mul div opp sqrt b.k p) | None -> None); e = ENorm b.e }
    | "SCALED" -> let f = A.parse (next ()) in let b = parse dim in
      { k = k_scaled mul f b.k; bk = b_scaled mul f b.bk; normalized = false;
        g = (match b.g with Some g -> Some (g_scaled mul f g) | None -> None); p1 = None;
        pv = (match b.pv with Some (m, p) -> Some (m, g_scaled mul f p) | None -> None); e = EScaled (f, b.e) }
    | "WSUM" ->
      let n = nexti () in
      let lw = List.init (n - 1) (fun _ -> A.parse (next ())) in
      let ws = one :: List.map (fun l -> A.exp l) lw in
      let ks = List.init n (fun _ -> parse dim) in
      wsum dim ws ks
    | "PROD" -> let n = nexti () in let ks = List.init n (fun _ -> parse dim) in
      (* ProductKernel: no coded derivative *)
      { k = k_prod one mul (List.map (fun b -> b.k) ks); bk = b_prod one mul (List.map (fun b -> b.bk) ks);
        normalized = List.for_all (fun b -> b.normalized) ks; g = None; p1 = None; pv = None; e = EProd (List.map (fun b -> b.e) ks) }
    | "SUBR" ->
      let n = nexti () in
      let ks = List.init n (fun _ ->
        let a = nexti () in let b = nexti () in let inner = parse (b - a) in
        let a' = nat_of_int a and b' = nat_of_int b in
        { k = k_sub a' b' inner.k; bk = b_sub a' b' inner.bk; normalized = false;
          g = (match inner.g with Some g -> Some (g_sub zero (nat_of_int dim) a' b' g) | None -> None); p1 = None;
          pv = (match inner.pv with Some (m, p) -> Some (m, p_sub a' b' p) | None -> None); e = ESub (a', b', inner.e) }) in
      wsum dim (List.map (fun _ -> one) ks) ks
    | "MODEL" ->
      let m = nexti () in
      let w = List.init m (fun _ -> List.init dim (fun _ -> A.parse (next ()))) in
      let b = List.init m (fun _ -> A.parse (next ())) in
      let inner = parse m in
      let f = linmap zero add mul w b in
      (* ModelKernel: parameter derivative iff the inner kernel has input and parameter derivative; no input derivative *)
      { k = k_pull f inner.k; bk = b_pull f inner.bk; normalized = false; g = None; p1 = None;
        pv = (match inner.g, inner.pv with
              | Some g, Some (mk, p) -> Some (mk + m * dim + m, p_model zero add mul w b g p)
              | _ -> None); e = EModel (w, b, inner.e) }
    | s -> failwith ("kernel " ^ s)
  and wsum dim ws ks =
    { k = k_wsum zero add mul div (List.combine ws (List.map (fun b -> b.k) ks));
      bk = b_wsum zero add mul div (List.combine ws (List.map (fun b -> b.bk) ks));
      normalized = false;
      g = (match all_some (fun b -> b.g) ks with
           | Some gs -> Some (g_wsum zero add mul div (nat_of_int dim) (List.combine ws gs))
           | None -> None);
      p1 = None;
      pv = (match all_some (fun b -> b.pv) ks with
            | Some ps -> Some (List.length ks - 1 + List.fold_left (fun s (m, _) -> s + m) 0 ps,
                               p_wsum zero add mul sub div (List.combine ws (List.combine (List.map (fun b -> b.k) ks) (List.map snd ps))))
            | None -> None);
      e = EWsum (ws, List.map (fun b -> b.e) ks) }

  let mstr m = String.concat "," (List.map A.show (List.concat m))
  let field k v = k ^ "=" ^ v

  let points dim l = let n = int_of_string (List.hd l) in
    let v = List.map A.parse (take (n * dim) (List.tl l)) in if n = 0 then [] else chunks dim v

  (* everything that is generic in the input type *)
  let common k bk normalized x1 x2 parts reg =
    let d = split_sizes parts x1 in
    [ field "S" (mstr (mk k x1 x2));
      field "B" (mstr (bk x1 x2));
      field "SD" (mstr (mk (single_via_batch zero bk) x1 x2));
      field "D1" (mstr [List.map (fun x -> k x x) x1]);
      field "FD" (mstr (mk (feat_dist one add mul sub normalized k) x1 x2));
      field "G" (mstr (gram_reg add bk reg d));
      field "MX" (mstr (gram_mixed bk d (chunks2 x2))) ]

  let handle line =
    let g = split_groups (List.filter (fun x -> x <> "") (String.split_on_char ' ' line)) in
    match g with
    | ("V" :: _ :: dims :: _) :: spec :: p1 :: p2 :: cs :: parts :: [reg] :: _ ->
      let dim = int_of_string dims in
      toks := spec; let nd = parse dim in
      let x1 = points dim p1 and x2 = points dim p2 in
      let c = chunks (List.length x2) (List.map A.parse cs) in
      let parts = List.map int_of_string parts in
      let base = common nd.k nd.bk nd.normalized x1 x2 parts (A.parse reg) in
      let wi = match nd.g with Some g -> [field "WI" (mstr (wid zero add mul (nat_of_int dim) g c x1 x2))] | None -> [] in
      let wp = match nd.pv with Some (m, p) -> [field "WP" (mstr [wpdv zero add mul (nat_of_int m) p c x1 x2])] | None -> [] in
      let wp1 = match nd.p1 with Some p -> [field "WP1" (A.show (wpd zero add mul p c x1 x2))] | None -> [] in
      (* the same kernel through the expression data type of C05Expr.v *)
      let kd = match nd.pv with
        | Some (m, p) when x2 <> [] ->
          let n1 = List.length x1 and n2 = List.length x2 in
          let ce i j = List.nth (List.nth c i) (j mod n2) in
          let cs = List.init n1 (fun i -> List.init n1 (fun j -> add (ce i j) (ce j i))) in
          [field "KD" (mstr [kmpd zero one add mul (wpdv zero add mul (nat_of_int m) p) cs (nat_of_int m) (split_sizes parts x1)])]
        | _ -> [] in
      let ex = kd @ [field "SE" (mstr (mk (den zero one add mul sub div opp sqrt exp nd.e) x1 x2));
                field "BE" (mstr (bden zero one add mul sub div opp sqrt exp nd.e x1 x2))] in
      String.concat " " (A.tag :: base @ wi @ wp @ wp1 @ ex)
    | ("W" :: _ :: dims :: es :: _) :: spec :: p1 :: p2 :: cs :: parts :: [reg] :: _ ->
      let dim = int_of_string dims and e = int_of_string es in
      toks := spec; let nd = parse dim in
      let sc = List.map (List.map (A.scale2 e)) in
      let x1 = sc (points dim p1) and x2 = sc (points dim p2) in
      let c = chunks (List.length x2) (List.map A.parse cs) in
      let parts = List.map int_of_string parts in
      let base = common nd.k nd.bk nd.normalized x1 x2 parts (A.parse reg) in
      let wi = match nd.g with Some g -> [field "WI" (mstr (wid zero add mul (nat_of_int dim) g c x1 x2))] | None -> [] in
      let ex = [field "SE" (mstr (mk (den zero one add mul sub div opp sqrt exp nd.e) x1 x2));
                field "BE" (mstr (bden zero one add mul sub div opp sqrt exp nd.e x1 x2))] in
      (* NormalizedKernel at the root: the same kernel through the operation orders of C05Norm *)
      let nk = match spec with
        | "NORM" :: rest ->
          toks := rest; let b = parse dim in
          [field "NK" (mstr (mk (k_norm_coded div sqrt b.k) x1 x2));
           field "NBK" (mstr (b_norm_nostate mul div sqrt b.k b.bk x1 x2));
           field "NBSK" (mstr (b_norm_state zero mul div sqrt b.bk x1 x2))]
        | _ -> [] in
      String.concat " " (A.tag :: base @ wi @ ex @ nk)
    | ("N" :: n1s :: n2s :: _) :: kb :: kx :: kz :: bb :: bbs :: kx1 :: kz1 :: _ ->
      let n2 = int_of_string n2s in
      let v l = List.map A.parse l in
      let m l = if n2 = 0 then [] else chunks n2 (v l) in
      String.concat " " [A.tag; field "NS" (mstr (norm_single_mat div sqrt (m kb) (v kx) (v kz)));
                         field "NB" (mstr (norm_rowdiv mul div sqrt (m bb) (v kx) (v kz)));
                         field "NBS" (mstr (norm_outer mul div sqrt (m bbs) (v kx1) (v kz1)));
                         field "ND" (mstr (norm_doc_mat mul div sqrt (m kb) (v kx) (v kz)))]
    | ("D" :: ns :: _) :: tab :: p1 :: p2 :: parts :: [reg] :: _ ->
      let n = int_of_string ns in
      let t = chunks n (List.map A.parse tab) in
      let idx l = List.map (fun s -> nat_of_int (int_of_string s)) (List.tl l) in
      let parts = List.map int_of_string parts in
      String.concat " " (A.tag :: common (k_disc zero t) (b_disc zero t) false (idx p1) (idx p2) parts (A.parse reg))
    | ("P" :: dims :: _) :: spec :: p1 :: p2 :: _ ->
      let dim = int_of_string dims in
      toks := spec; let nd = parse dim in
      let sets l = let n = int_of_string (List.hd l) in
        let rec go n l = if n = 0 then [] else
          let s = int_of_string (List.hd l) in
          let v = List.map A.parse (take (s * dim) (List.tl l)) in
          chunks dim v :: go (n - 1) (drop (s * dim) (List.tl l)) in go n (List.tl l) in
      let x1 = sets p1 and x2 = sets p2 in
      let k = k_pset zero one add mul div nd.k in
      String.concat " " [A.tag; field "S" (mstr (mk k x1 x2)); field "B" (mstr (mk k x1 x2))]
    | ("M" :: d1s :: d3s :: nts :: _) :: tab :: [gm; lw2; lw3] :: p1 :: p2 :: parts :: _ ->
      let d1 = int_of_string d1s and d3 = int_of_string d3s and nt = int_of_string nts in
      let t = chunks nt (List.map A.parse tab) in
      let gm = A.parse gm in
      let ws = [one; A.exp (A.parse lw2); A.exp (A.parse lw3)] in
      let rd l = let n = int_of_string (List.hd l) in
        let rec go n l = if n = 0 then [] else
          let v1 = List.map A.parse (take d1 l) in let l = drop d1 l in
          let i = nat_of_int (int_of_string (List.hd l)) in let l = List.tl l in
          let v3 = List.map A.parse (take d3 l) in
          (v1, i, v3) :: go (n - 1) (drop d3 l) in go n (List.tl l) in
      let x1 = rd p1 and x2 = rd p2 in
      let f1 (a, _, _) = a and f2 (_, b, _) = b and f3 (_, _, c) = c in
      let ks = [k_pull f1 (k_gauss zero add mul sub opp exp gm); k_pull f2 (k_disc zero t); k_pull f3 (k_lin zero add mul)] in
      let bs = [b_pull f1 (b_gauss zero add mul sub opp exp gm); b_pull f2 (b_disc zero t); b_pull f3 (b_lin zero add mul)] in
      let k = k_wsum zero add mul div (List.combine ws ks) and bk = b_wsum zero add mul div (List.combine ws bs) in
      let parts = List.map int_of_string parts in
      String.concat " " (A.tag :: common k bk false x1 x2 parts zero)
    | ("T" :: dims :: nts :: _) :: spec :: [gm] :: pts :: _ ->
      (* GaussianTaskKernel table (C05Task.gt_matrix) and MultiTaskKernel (C05Task.k_mtask) over the multi-task data *)
      let dim = int_of_string dims and nt = int_of_string nts in
      toks := spec; let nd = parse dim in
      let n = int_of_string (List.hd pts) in
      let rec rd n l = if n = 0 then [] else
        let v = List.map A.parse (take dim l) in let l = drop dim l in
        (v, nat_of_int (int_of_string (List.hd l))) :: rd (n - 1) (List.tl l) in
      let data = rd n (List.tl pts) in
      let tbl = gt_matrix zero one add mul sub div opp exp nd.k (A.parse gm) data (nat_of_int nt) in
      String.concat " " [A.tag; field "TK" (mstr tbl); field "KI" (mstr (mk nd.k (List.map fst data) (List.map fst data)));
                         field "MT" (mstr (mk (k_mtask zero one mul nd.k tbl) data data))]
    | _ -> "?"
end

module MQ = Make (QA)
module MF = Make (FA)

let () =
  let ic = open_in Sys.argv.(1) in
  (try while true do
      let l = input_line ic in
      (* N lines carry doubles (hex): float run only *)
      let r = if String.length l > 1 && l.[0] = 'N' && l.[1] = ' ' then (try MF.handle l with Failure m -> "ERR " ^ m)
        else try MQ.handle l with Inexact -> (try MF.handle l with Failure m -> "ERR " ^ m) | Failure m -> "ERR " ^ m | Not_found -> "ERR notfound" in
      print_endline r
    done with End_of_file -> ())
