(* Driver for the C02 model (C02Model.v over Qc).  Same case file as harness/c02_solve.cpp; one output line
   per input line.  Lines the model does not cover print "<letter> -".
   Numbers: integers or dyadic fractions p/q (hex floats only occur in lines the model does not cover).
   The square root handed to the model is exact on perfect squares of rationals and raises otherwise. *)
open C02_model
let rec nat_of_int n = if n <= 0 then O else S (nat_of_int (n - 1))
let rec int_of_nat = function O -> 0 | S n -> 1 + int_of_nat n
let rec pos_of_int n = if n = 1 then XH else if n land 1 = 0 then XO (pos_of_int (n / 2)) else XI (pos_of_int (n / 2))
let z_of_int n = if n = 0 then Z0 else if n > 0 then Zpos (pos_of_int n) else Zneg (pos_of_int (-n))
let rec int_of_pos = function XH -> 1 | XO p -> 2 * int_of_pos p | XI p -> 2 * int_of_pos p + 1
let int_of_z = function Z0 -> 0 | Zpos p -> int_of_pos p | Zneg p -> - (int_of_pos p)
(* big numbers are printed without conversion to int *)
let rec pos_digits p = (* little-endian list of bits *) match p with XH -> [1] | XO q -> 0 :: pos_digits q | XI q -> 1 :: pos_digits q
let pos_to_string p =
  (* decimal string of an arbitrary positive: repeated doubling on a decimal digit array *)
  let bits = List.rev (pos_digits p) in
  let digits = ref [0] in
  let double_add b =
    let carry = ref b in
    digits := List.map (fun d -> let v = 2 * d + !carry in carry := v / 10; v mod 10) !digits;
    if !carry > 0 then digits := !digits @ [!carry] in
  List.iter double_add bits;
  String.concat "" (List.rev_map string_of_int !digits)
let z_to_string = function Z0 -> "0" | Zpos p -> pos_to_string p | Zneg p -> "-" ^ pos_to_string p
let q_to_string x = let d = qc_den x in if d = XH then z_to_string (qc_num x) else z_to_string (qc_num x) ^ "/" ^ pos_to_string d

exception No_sqrt
let isqrt n = let r = ref (int_of_float (sqrt (float_of_int n))) in
  while !r * !r > n do decr r done; while (!r + 1) * (!r + 1) <= n do incr r done; !r
let sq x =
  let n = int_of_z (qc_num x) and d = int_of_pos (qc_den x) in
  if n < 0 then raise No_sqrt;
  let rn = isqrt n and rd = isqrt d in
  if rn * rn = n && rd * rd = d then qc_make (z_of_int rn) (pos_of_int rd) else raise No_sqrt
let f = qc_ops sq
let zero = f.fzero

let parse_num s =
  match String.index_opt s '/' with
  | Some k -> qc_make (z_of_int (int_of_string (String.sub s 0 k))) (pos_of_int (int_of_string (String.sub s (k + 1) (String.length s - k - 1))))
  | None -> qc_make (z_of_int (int_of_string s)) XH

let split_groups toks =
  let rec go acc cur = function
    | [] -> List.rev (List.rev cur :: acc)
    | "|" :: r -> go (List.rev cur :: acc) [] r
    | t :: r -> go acc (t :: cur) r in
  go [] [] toks

let mat_of n m l = let a = Array.of_list (List.map parse_num l) in
  if Array.length a <> n * m then failwith "size"; Array.init n (fun i -> Array.sub a (i * m) m)
let fmat a : qc mat = fun i j -> let i = int_of_nat i and j = int_of_nat j in
  if i < Array.length a && j < Array.length a.(i) then a.(i).(j) else zero
let fvec a : qc vec = fun i -> let i = int_of_nat i in if i < Array.length a then a.(i) else zero
let col a c : qc vec = fun i -> let i = int_of_nat i in if i < Array.length a then a.(i).(c) else zero
let row a r : qc vec = fvec a.(r)
let vstr n (x : qc vec) = String.concat " " (List.map q_to_string (tab (nat_of_int n) x))
let orient_of s = if s = "r" then RowMajor else ColMajor
let tri_of = function "lower" -> Some (false, false) | "unit_lower" -> Some (false, true)
  | "upper" -> Some (true, false) | "unit_upper" -> Some (true, true) | _ -> None
let bs = nat_of_int 32

(* print a result given as list of columns (n x m) row by row *)
let cols_str n (cols : qc vec list) =
  let m = List.length cols in
  let t = List.map (fun x -> Array.of_list (tab (nat_of_int n) x)) cols |> Array.of_list in
  String.concat " " (List.concat (List.init n (fun i -> List.init m (fun c -> q_to_string t.(c).(i)))))
let rows_str n (rows : qc vec list) = String.concat " " (List.map (vstr n) rows)

(* solve with matrix rhs: left -> b is n x m (columns), right -> b is m x n (rows); returns string or None *)
let solve_m tag ao left n (a : qc array array) (b : qc array array) =
  let nn = nat_of_int n and t = fmat a in
  let vecs = if left then List.init (Array.length b.(0)) (fun c -> col b c) else List.init (Array.length b) (fun r -> row b r) in
  let out r = match r with None -> None | Some xs -> Some (if left then cols_str n xs else rows_str n xs) in
  match tri_of tag with
  | Some (upper, unit) -> out (trsm f bs upper unit left t nn vecs)
  | None ->
    if tag = "spd" then
      (match potrf f false (orient_of ao) nn t with
       | POk l -> out (chol_solve_m f bs left l nn vecs)
       | _ -> None)
    else raise Not_found

let solve_v tag ao left n a (b : qc array) =
  let nn = nat_of_int n and t = fmat a in
  match tri_of tag with
  | Some (upper, unit) -> (match trsv f upper unit (orient_of ao) left t nn (fvec b) with None -> None | Some x -> Some (vstr n x))
  | None ->
    if tag = "spd" then
      (match potrf f false (orient_of ao) nn t with
       | POk l -> (match chol_solve_with f (orient_of ao) l nn (fvec b) with None -> None | Some x -> Some (vstr n x))
       | _ -> None)
    else raise Not_found

let mstr n (m : qc mat) = String.concat " " (List.concat (List.init n (fun i -> List.init n (fun j -> q_to_string (m (nat_of_int i) (nat_of_int j))))))

let handle line =
  let toks = List.filter (fun x -> x <> "") (String.split_on_char ' ' line) in
  match toks with
  | [] -> "?"
  | cmd :: rest ->
    (try
      let g = split_groups rest in
      match cmd, g with
      | "S", [[tag; side; ao; rhs; _bo; ns; ms]; al; bl] ->
        let n = int_of_string ns and m = int_of_string ms in
        let a = mat_of n n al and left = (side = "L") in
        let r = if rhs = "v" then solve_v tag ao left n a (Array.of_list (List.map parse_num bl))
          else solve_m tag ao left n a (if left then mat_of n m bl else mat_of m n bl) in
        (match r with Some s -> "S OK " ^ s | None -> "S EXC")
      | "I", [[tag; ao; _bo; ns; ms]; al; bl; cl] ->
        let n = int_of_string ns and m = int_of_string ms in
        let a = mat_of n n al in
        let id = Array.init n (fun i -> Array.init n (fun j -> if i = j then f.fone else zero)) in
        let g12 = solve_m tag ao true n a (mat_of n m bl) and g34 = solve_m tag ao false n a (mat_of m n cl)
        and g5 = solve_m tag ao true n a id in
        (match g12, g34, g5 with
         | Some x, Some y, Some z -> Printf.sprintf "I OK %s ; %s ; %s ; %s ; %s" x x y y z
         | _ -> "I EXC")
      | "C", [[ao; ns]; al] ->
        let n = int_of_string ns in
        (match potrf f false (orient_of ao) (nat_of_int n) (fmat (mat_of n n al)) with
         | POk l -> "C OK " ^ mstr n l
         | PFail (k, l) -> Printf.sprintf "C FAIL %d" (int_of_nat k)
         | PZeroDiv k -> Printf.sprintf "C ZERODIV %d" (int_of_nat k))
      | "K", [[tri; ao; ns]; al] ->
        let n = int_of_string ns in
        (match potrf f (tri = "upper") (orient_of ao) (nat_of_int n) (fmat (mat_of n n al)) with
         | POk l -> "K OK 0 ; " ^ mstr n l
         | PFail (k, l) -> Printf.sprintf "K OK %d ; %s" (int_of_nat k) (mstr n l)
         | PZeroDiv k -> Printf.sprintf "K ZERODIV %d" (int_of_nat k))
      | _ -> cmd ^ " -"
    with Not_found -> cmd ^ " -" | No_sqrt -> cmd ^ " NOSQRT" | Failure _ -> cmd ^ " -")

let () =
  let ic = open_in Sys.argv.(1) in
  (try while true do print_endline (handle (input_line ic)) done with End_of_file -> ())
