(* Driver for the C02 model (C02Model.v over Qc).  Same case file as harness/c02_solve.cpp; one output line
   per input line.  Lines the model does not cover print "<letter> -".
   Numbers: integers, dyadic fractions p/q, or C hex floats (converted to the exact rational they denote).
   A line "N" (case not meant for the model) prints "N -".
   The square root handed to the model is exact on perfect squares of rationals and raises otherwise.
   A line "F <case>" runs the SAME extracted functions over IEEE doubles (the record of operations is a parameter of
   the model): used for the operations whose square roots are not rational (pstrf, semi-definite solve, rank-one
   update); results are printed as hex floats and compared with a tolerance by tools/c02.py. *)
open C02_model
let rec nat_of_int n = if n <= 0 then O else S (nat_of_int (n - 1))
let rec int_of_nat = function O -> 0 | S n -> 1 + int_of_nat n
let rec pos_of_int n = if n = 1 then XH else if n land 1 = 0 then XO (pos_of_int (n / 2)) else XI (pos_of_int (n / 2))
let z_of_int n = if n = 0 then Z0 else if n > 0 then Zpos (pos_of_int n) else Zneg (pos_of_int (-n))
let rec int_of_pos = function XH -> 1 | XO p -> 2 * int_of_pos p | XI p -> 2 * int_of_pos p + 1
let int_of_z = function Z0 -> 0 | Zpos p -> int_of_pos p | Zneg p -> - (int_of_pos p)
(* big numbers are printed without conversion to int *)
let rec pos_digits p = (* little-endian list of bits *) match p with XH -> [1] | XO q -> 0 :: pos_digits q | XI q -> 1 :: pos_digits q
let pos_to_string p =
  (* decimal string of an arbitrary positive: repeated doubling on a decimal digit array *)
  let bits = List.rev (pos_digits p) in
  let digits = ref [0] in
  let double_add b =
    let carry = ref b in
    digits := List.map (fun d -> let v = 2 * d + !carry in carry := v / 10; v mod 10) !digits;
    if !carry > 0 then digits := !digits @ [!carry] in
  List.iter double_add bits;
  String.concat "" (List.rev_map string_of_int !digits)
let z_to_string = function Z0 -> "0" | Zpos p -> pos_to_string p | Zneg p -> "-" ^ pos_to_string p
let q_to_string x = let d = qc_den x in if d = XH then z_to_string (qc_num x) else z_to_string (qc_num x) ^ "/" ^ pos_to_string d

exception No_sqrt
let isqrt n = let r = ref (int_of_float (sqrt (float_of_int n))) in
  while !r * !r > n do decr r done; while (!r + 1) * (!r + 1) <= n do incr r done; !r
let sq x =
  let n = int_of_z (qc_num x) and d = int_of_pos (qc_den x) in
  if n < 0 then raise No_sqrt;
  let rn = isqrt n and rd = isqrt d in
  if rn * rn = n && rd * rd = d then qc_make (z_of_int rn) (pos_of_int rd) else raise No_sqrt
let f = qc_ops sq
let zero = f.fzero

let rec shift_pos p k = if k <= 0 then p else shift_pos (XO p) (k - 1)
(* [-]0x1.hhhhhhhhhhhhhp[+-]e  (Python float.hex) -> exact rational *)
let parse_hex s =
  let neg = String.length s > 0 && s.[0] = '-' in
  let s = if neg || (String.length s > 0 && s.[0] = '+') then String.sub s 1 (String.length s - 1) else s in
  if String.length s < 3 || String.sub s 0 2 <> "0x" then failwith "hex";
  let pi = String.index s 'p' in
  let mant = String.sub s 2 (pi - 2) and ex = int_of_string (let e = String.sub s (pi + 1) (String.length s - pi - 1) in
                                                            if e.[0] = '+' then String.sub e 1 (String.length e - 1) else e) in
  let ip, fp = match String.index_opt mant '.' with
    | Some k -> String.sub mant 0 k, String.sub mant (k + 1) (String.length mant - k - 1)
    | None -> mant, "" in
  let m = int_of_string ("0x" ^ ip ^ fp) and e2 = ex - 4 * String.length fp in
  if m = 0 then qc_make Z0 XH
  else
    let mp = pos_of_int m in
    let num, den = if e2 >= 0 then shift_pos mp e2, XH else mp, shift_pos XH (- e2) in
    qc_make (if neg then Zneg num else Zpos num) den
let parse_num s =
  if String.length s > 2 && (String.sub s 0 2 = "0x" || (String.length s > 3 && String.sub s 1 2 = "0x")) then parse_hex s else
  match String.index_opt s '/' with
  | Some k -> qc_make (z_of_int (int_of_string (String.sub s 0 k))) (pos_of_int (int_of_string (String.sub s (k + 1) (String.length s - k - 1))))
  | None -> qc_make (z_of_int (int_of_string s)) XH

let split_groups toks =
  let rec go acc cur = function
    | [] -> List.rev (List.rev cur :: acc)
    | "|" :: r -> go (List.rev cur :: acc) [] r
    | t :: r -> go acc (t :: cur) r in
  go [] [] toks

let mat_of n m l = let a = Array.of_list (List.map parse_num l) in
  if Array.length a <> n * m then failwith "size"; Array.init n (fun i -> Array.sub a (i * m) m)
let fmat a : qc mat = fun i j -> let i = int_of_nat i and j = int_of_nat j in
  if i < Array.length a && j < Array.length a.(i) then a.(i).(j) else zero
let fvec a : qc vec = fun i -> let i = int_of_nat i in if i < Array.length a then a.(i) else zero
let col a c : qc vec = fun i -> let i = int_of_nat i in if i < Array.length a then a.(i).(c) else zero
let row a r : qc vec = fvec a.(r)
let vstr n (x : qc vec) = String.concat " " (List.map q_to_string (tab (nat_of_int n) x))
let orient_of s = if s = "r" then RowMajor else ColMajor
let tri_of = function "lower" -> Some (false, false) | "unit_lower" -> Some (false, true)
  | "upper" -> Some (true, false) | "unit_upper" -> Some (true, true) | _ -> None
let bs = nat_of_int 32
let lubs = nat_of_int 4
let potrf_b upper o nn t = potrf_blocked2 f bs bs upper o nn t
let pstr n (p : pvec) = String.concat " " (List.map (fun k -> string_of_int (int_of_nat k)) (tabp (nat_of_int n) p))

(* print a result given as list of columns (n x m) row by row *)
let cols_str n (cols : qc vec list) =
  let m = List.length cols in
  let t = List.map (fun x -> Array.of_list (tab (nat_of_int n) x)) cols |> Array.of_list in
  String.concat " " (List.concat (List.init n (fun i -> List.init m (fun c -> q_to_string t.(c).(i)))))
let rows_str n (rows : qc vec list) = String.concat " " (List.map (vstr n) rows)

(* solve with matrix rhs: left -> b is n x m (columns), right -> b is m x n (rows); returns string or None *)
let solve_m tag ao left n (a : qc array array) (b : qc array array) =
  let nn = nat_of_int n and t = fmat a in
  let vecs = if left then List.init (Array.length b.(0)) (fun c -> col b c) else List.init (Array.length b) (fun r -> row b r) in
  let out r = match r with None -> None | Some xs -> Some (if left then cols_str n xs else rows_str n xs) in
  match tri_of tag with
  | Some (upper, unit) -> out (trsm f bs upper unit left t nn vecs)
  | None ->
    if tag = "spd" then
      (match potrf_b false (orient_of ao) nn t with
       | BOk l -> out (chol_solve_m f bs left l nn vecs)
       | _ -> None)
    else if tag = "indef" then
      (* pivoting_lu_decomposition::solve(B, side): swap, two blocked trsm (C02LUMatModel.lu_solve_m) *)
      (match getrf f qc_abs lubs bs nn t with
       | LUOk (lu, p) -> out (lu_solve_m f bs left lu p nn vecs)
       | _ -> None)
    else raise Not_found

let solve_v tag ao left n a (b : qc array) =
  let nn = nat_of_int n and t = fmat a in
  match tri_of tag with
  | Some (upper, unit) -> (match trsv f upper unit (orient_of ao) left t nn (fvec b) with None -> None | Some x -> Some (vstr n x))
  | None ->
    if tag = "spd" then
      (match potrf_b false (orient_of ao) nn t with
       | BOk l -> (match chol_solve_with f (orient_of ao) l nn (fvec b) with None -> None | Some x -> Some (vstr n x))
       | _ -> None)
    else if tag = "indef" then
      (if left then (match lu_solve_full f qc_abs lubs bs (orient_of ao) t nn (fvec b) with None -> None | Some x -> Some (vstr n x))
       else
         match getrf f qc_abs lubs bs nn t with
         | LUOk (lu, p) -> (match lu_solve_right f (orient_of ao) lu p nn (fvec b) with None -> None | Some x -> Some (vstr n x))
         | _ -> None)
    else raise Not_found

let mstr n (m : qc mat) = String.concat " " (List.concat (List.init n (fun i -> List.init n (fun j -> q_to_string (m (nat_of_int i) (nat_of_int j))))))


(* ---------- instantiations as first-class bundles: Qc (exact) and IEEE double ---------- *)
type 'a inst = { o : 'a ops; abs : 'a -> 'a; parse : string -> 'a; show : 'a -> string; epsm : 'a }
let rec pow2_pos k = if k <= 0 then XH else XO (pow2_pos (k - 1))
let iq : qc inst = { o = f; abs = qc_abs; parse = parse_num; show = q_to_string; epsm = qc_make (Zpos XH) (pow2_pos 52) }
let ffl : float ops = { fzero = 0.0; fone = 1.0; fadd = ( +. ); fmul = ( *. ); fsub = ( -. ); fopp = (fun x -> -. x);
  fdiv = ( /. ); finv = (fun x -> 1.0 /. x); feqb = (fun x y -> x = y); fleb = (fun x y -> x <= y); fltb = (fun x y -> x < y);
  fsqrt = sqrt }
let parse_float s =
  match String.index_opt s '/' with
  | Some k when not (String.contains s 'x') ->
    float_of_string (String.sub s 0 k) /. float_of_string (String.sub s (k + 1) (String.length s - k - 1))
  | _ -> float_of_string s
let ifl : float inst = { o = ffl; abs = Float.abs; parse = parse_float; show = (fun x -> Printf.sprintf "%h" x); epsm = epsilon_float }

let gmat_of (t : 'a inst) n m l = let a = Array.of_list (List.map t.parse l) in
  if Array.length a <> n * m then failwith "size"; Array.init n (fun i -> Array.sub a (i * m) m)
let gfmat (t : 'a inst) a : 'a mat = fun i j -> let i = int_of_nat i and j = int_of_nat j in
  if i < Array.length a && j < Array.length a.(i) then a.(i).(j) else t.o.fzero
let gfvec (t : 'a inst) a : 'a vec = fun i -> let i = int_of_nat i in if i < Array.length a then a.(i) else t.o.fzero
let gvstr (t : 'a inst) n (x : 'a vec) = String.concat " " (List.map t.show (tab (nat_of_int n) x))
let gmstr (t : 'a inst) n m (a : 'a mat) = String.concat " " (List.concat (List.init n (fun i -> List.init m (fun j -> t.show (a (nat_of_int i) (nat_of_int j))))))
let psbs = nat_of_int 20      (* block_size of pstrf *)

(* operations that exist for both instantiations *)
let handle_g (t : 'a inst) cmd g =
  match cmd, g with
  | "P", [[_ao; ns]; al] ->
    let n = int_of_string ns in
    let (((r, l), p), _) = pstrf_full t.o t.abs psbs (nat_of_int n) t.epsm (gfmat t (gmat_of t n n al)) in
    Some (Printf.sprintf "P OK %d ; %s ; %s" (int_of_nat r) (gmstr t n n l) (pstr n p))
  | "E", [[_ao; ns]; al] ->
    (* symm_eigenvalue_decomposition: kernels::syev as coded (tred2, implicit QL, sort, normalisation) *)
    let n = int_of_string ns in
    (match syev t.o t.abs (nat_of_int n) (gfmat t (gmat_of t n n al)) with
     | SyevOk (q, d) -> Some (Printf.sprintf "E OK %s ; %s" (gmstr t n n q) (gvstr t n d))
     | SyevExc -> Some "E EXC")
  | "J", [[_ao; ns; ms; eps; maxit]; al; bl] ->
    (* conjugate_gradient(eps,maxit): vector solve of column 0 (left = right), matrix solve left (columns), right on trans(B) (rows) *)
    let n = int_of_string ns and m = int_of_string ms and mi = int_of_string maxit in
    let nn = nat_of_int n and a = gfmat t (gmat_of t n n al) and b = gmat_of t n m bl in
    let fuel = nat_of_int (if mi > 0 then mi + 1 else 4 * n + 40) in
    let colv c = gfvec t (Array.init n (fun i -> b.(i).(c))) in
    let ov = cg_solve_v t.o t.abs fuel nn a (t.parse eps) (nat_of_int mi) (colv 0) in
    let oc = List.init m (fun c -> cg_col t.o t.abs fuel nn a (t.parse eps) (nat_of_int mi) (colv c)) in
    if ov.cg_why = StopFuel || List.exists (fun o -> o.cg_why = StopFuel) oc then Some "J FUEL"
    else
      let xs = List.map (fun o -> Array.of_list (tab nn o.cg_x)) oc |> Array.of_list in
      let xv = gvstr t n ov.cg_x in
      let xl = String.concat " " (List.concat (List.init n (fun i -> List.init m (fun c -> t.show xs.(c).(i)))))
      and yl = String.concat " " (List.concat (List.init m (fun r -> List.init n (fun i -> t.show xs.(r).(i))))) in
      Some (Printf.sprintf "J OK %s ; %s ; %s ; %s" xv xv xl yl)
  | "U", [[ao; ns; alpha; beta]; al; vl] ->
    (* cholesky_decomposition d(A); d.update(alpha, beta, v); d.lower_factor() *)
    let n = int_of_string ns in let nn = nat_of_int n in
    (match potrf_blocked2 t.o bs bs false (orient_of ao) nn (gfmat t (gmat_of t n n al)) with
     | BOk l ->
       (match chol_update t.o nn (t.parse alpha) (t.parse beta) l (gfvec t (Array.of_list (List.map t.parse vl))) with
        | UOk (l2, _) -> Some ("U OK " ^ gmstr t n n l2)
        | UExc (_, _) -> Some "U EXC")
     | _ -> Some "U -")
  | "S", [["semi"; side; ao; rhs; _bo; ns; ms]; al; bl] ->
    (* solve(A,B,symm_semi_pos_def,side): the vector model on every column (left) / row (right) of B *)
    let n = int_of_string ns and m = int_of_string ms in
    let nn = nat_of_int n and o = orient_of ao in
    (match semi_decompose t.o t.abs psbs bs bs o nn t.epsm (gfmat t (gmat_of t n n al)) with
     | None -> Some "S EXC"
     | Some d ->
       let sol v = semi_solve_with t.o o nn d.sd_rank d.sd_factor d.sd_perm d.sd_chol v in
       let out xs = Some ("S OK " ^ xs) in
       if rhs = "v" then (match sol (gfvec t (Array.of_list (List.map t.parse bl))) with None -> Some "S EXC" | Some x -> out (gvstr t n x))
       else
         let left = (side = "L") in
         let b = if left then gmat_of t n m bl else gmat_of t m n bl in
         let vecs = if left then List.init m (fun c -> gfvec t (Array.init n (fun i -> b.(i).(c)))) else List.init m (fun r -> gfvec t b.(r)) in
         let xs = List.map sol vecs in
         if List.exists (fun x -> x = None) xs then Some "S EXC"
         else
           let xs = List.map (function Some x -> Array.of_list (tab nn x) | None -> [||]) xs |> Array.of_list in
           out (String.concat " " (if left then List.concat (List.init n (fun i -> List.init m (fun c -> t.show xs.(c).(i))))
                                   else List.concat (List.init m (fun r -> List.init n (fun i -> t.show xs.(r).(i)))))))
  | "Z", [["semi"; ao; ns; ms]; al; bl] ->
    let n = int_of_string ns and m = int_of_string ms in
    let nn = nat_of_int n and o = orient_of ao in
    (match semi_decompose t.o t.abs psbs bs bs o nn t.epsm (gfmat t (gmat_of t n n al)) with
     | None -> Some "Z EXC"
     | Some d ->
       let b = gmat_of t n m bl in
       let sol c = semi_solve_with t.o o nn d.sd_rank d.sd_factor d.sd_perm d.sd_chol (gfvec t (Array.init n (fun i -> b.(i).(c)))) in
       let xs = List.init m sol in
       if List.exists (fun x -> x = None) xs then Some "Z EXC"
       else
         let xs = List.map (function Some x -> Array.of_list (tab nn x) | None -> [||]) xs |> Array.of_list in
         let xl = String.concat " " (List.concat (List.init n (fun i -> List.init m (fun c -> t.show xs.(c).(i)))))
         and yl = String.concat " " (List.concat (List.init m (fun r -> List.init n (fun i -> t.show xs.(r).(i)))))
         and x0 = String.concat " " (List.init n (fun i -> t.show xs.(0).(i))) in
         Some (Printf.sprintf "Z OK %s ; %s ; %s ; %s ; %d" xl yl x0 x0 (int_of_nat d.sd_rank)))
  | _ -> None

let handle line =
  let toks = List.filter (fun x -> x <> "") (String.split_on_char ' ' line) in
  match toks with
  | [] -> "?"
  | cmd :: rest ->
    (try
      let g = split_groups rest in
      if cmd = "F" then (match rest with
        | c2 :: r2 -> (match handle_g ifl c2 (split_groups r2) with Some s -> s | None -> c2 ^ " -")
        | [] -> "?") else
      match handle_g iq cmd g with Some s -> s | None ->
      match cmd, g with
      | "S", [[tag; side; ao; rhs; _bo; ns; ms]; al; bl] ->
        let n = int_of_string ns and m = int_of_string ms in
        let a = mat_of n n al and left = (side = "L") in
        let r = if rhs = "v" then solve_v tag ao left n a (Array.of_list (List.map parse_num bl))
          else solve_m tag ao left n a (if left then mat_of n m bl else mat_of m n bl) in
        (match r with Some s -> "S OK " ^ s | None -> "S EXC")
      | "I", [[tag; ao; _bo; ns; ms]; al; bl; cl] ->
        let n = int_of_string ns and m = int_of_string ms in
        let a = mat_of n n al in
        let id = Array.init n (fun i -> Array.init n (fun j -> if i = j then f.fone else zero)) in
        let g12 = solve_m tag ao true n a (mat_of n m bl) and g34 = solve_m tag ao false n a (mat_of m n cl)
        and g5 = solve_m tag ao true n a id in
        (match g12, g34, g5 with
         | Some x, Some y, Some z -> Printf.sprintf "I OK %s ; %s ; %s ; %s ; %s" x x y y z
         | _ -> "I EXC")
      | "C", [[ao; ns]; al] ->
        let n = int_of_string ns in
        (match potrf_b false (orient_of ao) (nat_of_int n) (fmat (mat_of n n al)) with
         | BOk l -> "C OK " ^ mstr n l
         | BFail (k, l) -> Printf.sprintf "C FAIL %d" (int_of_nat k)
         | BExc -> "C EXC")
      | "K", [[tri; ao; ns]; al] ->
        let n = int_of_string ns in
        (match potrf_b (tri = "upper") (orient_of ao) (nat_of_int n) (fmat (mat_of n n al)) with
         | BOk l -> "K OK 0 ; " ^ mstr n l
         | BFail (k, l) -> Printf.sprintf "K OK %d ; %s" (int_of_nat k) (mstr n l)
         | BExc -> "K EXC")
      | "G", [[_ao; ns]; al] ->
        let n = int_of_string ns in
        (match getrf f qc_abs lubs bs (nat_of_int n) (fmat (mat_of n n al)) with
         | LUOk (lu, p) -> Printf.sprintf "G OK %s ; %s" (mstr n lu) (pstr n p)
         | LUFail (_, _) -> "G EXC"
         | LUExc -> "G FUEL")
      | "Z", [["indef"; ao; ns; ms]; al; bl] ->
        let n = int_of_string ns and m = int_of_string ms in
        let a = mat_of n n al and b = mat_of n m bl in
        let bt = Array.init m (fun r -> Array.init n (fun i -> b.(i).(r))) in
        let b0 = Array.init n (fun i -> b.(i).(0)) in
        (match solve_m "indef" ao true n a b, solve_m "indef" ao false n a bt, solve_v "indef" ao true n a b0, solve_v "indef" ao false n a b0 with
         | Some x, Some y, Some xv, Some yv -> Printf.sprintf "Z OK %s ; %s ; %s ; %s" x y xv yv
         | _ -> "Z EXC")
      | _ -> cmd ^ " -"
    with e ->
      let c = if cmd = "F" then (match rest with c2 :: _ -> c2 | [] -> "?") else cmd in
      (match e with Not_found -> c ^ " -" | No_sqrt -> c ^ " NOSQRT" | Failure _ -> c ^ " -" | e -> raise e))

let () =
  let ic = open_in Sys.argv.(1) in
  (try while true do print_endline (handle (input_line ic)) done with End_of_file -> ())
