(* Driver for the extracted C19 model: same case file as harness/c19_import.cpp, one canonical line per case.
     CSV  <data|cls|reg> <d|f> <F|L> <nout> <sep> <comment> <maxBatch> <s|f> <hex>
     SCL  <i|u|f|d> <sep> <comment> <maxBatch> [<s|f>] <hex>
     SVM  <cls|reg> <d|f> <v|c> <highestIndex> <batchSize> <s|f> <hex>
     XCSV <data|cls|reg> <d|f> <F|L> <nout> <sep> <maxBatch> <s|f|S|F> <rows> rows: lab|tok,tok;...   S|F: crlf (C19Lines) applied to the exported text
     XINT <i|u> <sep> <maxBatch> <s|f> <rows>                                 rows: |int,int;...   export_data of integer tokens, read back by csv_import_data and csv_import_ints/uints
     XSVM <cls|reg> <v|c> <batchSize> <rows>                                   rows: lab|val,val;...  (decimal doubles)
   XSVM: the element stores every component (v, dense) or its non-zeros (c, compressed); a double becomes the token
   operator<< prints with the default precision (printf "%g"), the model exports and re-imports the tokens.
   Tokens are turned into doubles here (float_of_string = correctly rounded strtod); 'f' variants round to single.
     OBS  <numElements> <maximumBatchSize>      opt_sizes64 (detail::optimalBatchSizes in size_t arithmetic), 64-bit decimals
     OBI  <numElements> <batchSize>             init_sizes64 (SharedContainer::initializeBatches)
   Batch sizes are 64-bit unsigned decimals and are passed to the model as binary numbers (N); the model caps them at
   records + 1 after parsing (C19BigBatch.cap, proved not to change the result).  Every import runs twice through the
   *_into entry points: with an empty target and with a target that holds an earlier import (C19_import_ignores_target);
   the two lines must be equal (REUSE-DIFF otherwise), as in the harness. *)
open C19_model

let rec nat_of_int n = if n <= 0 then O else S (nat_of_int (n - 1))
let rec pos_of_int n = if n = 1 then XH else if n land 1 = 1 then XI (pos_of_int (n lsr 1)) else XO (pos_of_int (n lsr 1))
let n_of_int n = if n = 0 then N0 else Npos (pos_of_int n)
let z_of_int n = if n = 0 then Z0 else if n > 0 then Zpos (pos_of_int n) else Zneg (pos_of_int (-n))
let rec int_of_pos = function XH -> 1 | XO p -> 2 * int_of_pos p | XI p -> 2 * int_of_pos p + 1
let int_of_n = function N0 -> 0 | Npos p -> int_of_pos p
let int_of_z = function Z0 -> 0 | Zpos p -> int_of_pos p | Zneg p -> - (int_of_pos p)

(* 64-bit (any size) decimals <-> N, with the extracted arithmetic *)
let n_of_dec s =
  if s = "" then failwith "empty number";
  let ten = n_of_int 10 in
  let acc = ref N0 in
  String.iter (fun c -> if c < '0' || c > '9' then failwith ("bad number " ^ s);
                acc := N.add (N.mul !acc ten) (n_of_int (Char.code c - 48))) s;
  !acc
let bytes_of_string s = List.init (String.length s) (fun i -> n_of_int (Char.code s.[i]))
let string_of_bytes l = String.concat "" (List.map (fun b -> String.make 1 (Char.chr (int_of_n b))) l)
let unhex h = String.init (String.length h / 2) (fun i -> Char.chr (int_of_string ("0x" ^ String.sub h (2 * i) 2)))
let hex s = String.concat "" (List.init (String.length s) (fun i -> Printf.sprintf "%02x" (Char.code s.[i])))

let dec_of_n n = string_of_bytes (print_nat n)

let sgn = function Some true -> "-" | _ -> ""
let float_of_num = function
  | NDec (sg, ip, _, fp, ex) ->
    let e = match ex with Some (es, ed) -> "e" ^ sgn es ^ string_of_bytes ed | None -> "" in
    float_of_string (sgn sg ^ "0" ^ string_of_bytes ip ^ "." ^ string_of_bytes fp ^ "0" ^ e)
  | NNan _ -> nan
  | NInf sg -> if sg = Some true then neg_infinity else infinity
  | NMissing -> nan
let single x = Int32.float_of_bits (Int32.bits_of_float x)
let hexf x = if Float.is_nan x then "nan" else Printf.sprintf "%016Lx" (Int64.bits_of_float x)

let fmt_sizes d = String.concat "," (List.map (fun b -> string_of_int (List.length b)) d.ds_batches)

(* generic line: plab prints a label, pvec an input *)
let show ~dimstr ~cls plab pvec d =
  let el = ds_elems d in
  Printf.sprintf "OK n=%d b=%s dim=%s cls=%s E=%s" (List.length el) (fmt_sizes d) dimstr cls
    (String.concat ";" (List.map (fun (l, v) -> plab l ^ "|" ^ pvec v) el))

let outcome f = function Ok d -> f d | Exc -> "EXC" | Fault -> "FAULT"
let cls_of d = string_of_int (int_of_z (class_count (List.map fst (ds_elems d))))
let dim_of d = if d.ds_batches = [] then "-" else string_of_int (int_of_z d.ds_dim)

let dense rnd v = String.concat "," (List.map (fun x -> hexf (rnd (float_of_num x))) v)
let sparse rnd v =
  String.concat "," (List.filter_map (fun (i, x) -> let y = rnd (float_of_num x) in
                                       if y = 0.0 then None else Some (string_of_int (int_of_z i) ^ ":" ^ hexf y)) v)
let zlab l = string_of_int (int_of_z l)

(* targets: the empty dataset and one that holds an earlier import of other data of the same type *)
let empty () = { ds_batches = []; ds_dim = Z0 }
let filled = function Ok d when ds_elems d <> [] -> d | _ -> failwith "prefill import failed"
let comma = n_of_int 44 and hash = n_of_int 35 and two = n_of_int 2
let pre_data = lazy (filled (csv_import_data_into (empty ()) comma hash two (bytes_of_string "7,8,9\n1,2,3\n4,5,6\n")))
let pre_cls = lazy (filled (csv_import_cls_into (empty ()) true comma hash two (bytes_of_string "2,7,8\n0,1,2\n1,4,5\n")))
let pre_reg = lazy (filled (csv_import_reg_into (empty ()) true (nat_of_int 1) comma hash two (bytes_of_string "7,8,9\n1,2,3\n4,5,6\n")))
let pre_ints = lazy (filled (csv_import_ints_into (empty ()) hash two (bytes_of_string "5 6 7 8 9\n")))
let pre_uints = lazy (filled (csv_import_uints_into (empty ()) hash two (bytes_of_string "5 6 7 8 9\n")))
let pre_reals = lazy (filled (csv_import_reals_into (empty ()) hash two (bytes_of_string "5 6.5 7 8 9\n")))
let pre_scls = lazy (filled (svm_import_cls_into (empty ()) false Z0 two (bytes_of_string "1 1:5 2:6\n-1 1:7 3:1\n1 2:2\n")))
let pre_sreg = lazy (filled (svm_import_reg_into (empty ()) false Z0 two (bytes_of_string "1.5 1:5 2:6\n-1 1:7 3:1\n2 2:2\n")))
let twice pre (f : 'd -> string) =
  let a = f (empty ()) and b = f (Lazy.force pre) in
  if a = b then a else "REUSE-DIFF fresh=[" ^ a ^ "] reused=[" ^ b ^ "]"

let csv_line variant rnd first nout sep cm mb bytes =
  match variant with
  | "data" -> twice pre_data (fun t -> outcome (fun d -> show ~dimstr:(dim_of d) ~cls:"-" (fun () -> "") (dense rnd) d) (csv_import_data_into t sep cm mb bytes))
  | "cls" -> twice pre_cls (fun t -> outcome (fun d -> show ~dimstr:(dim_of d) ~cls:(cls_of d) zlab (dense rnd) d) (csv_import_cls_into t first sep cm mb bytes))
  | _ -> twice pre_reg (fun t -> outcome (fun d -> show ~dimstr:(dim_of d) ~cls:"-" (dense rnd) (dense rnd) d) (csv_import_reg_into t first nout sep cm mb bytes))

let sizes_line l = "S " ^ String.concat "," (List.map dec_of_n l)

let parse_tok t = match lex_double (bytes_of_string t) with
  | Some (v, []) -> v
  | _ -> failwith ("bad token " ^ t)
let split c s = if s = "" then [] else String.split_on_char c s

let run toks =
  match toks with
  | "CSV" :: variant :: prec :: lp :: nout :: sep :: cm :: mb :: _ :: rest ->
    let bytes = bytes_of_string (unhex (match rest with h :: _ -> h | [] -> "")) in
    let rnd = if prec = "f" then single else (fun x -> x) in
    csv_line variant rnd (lp = "F") (nat_of_int (int_of_string nout)) (n_of_int (int_of_string sep land 255))
 (n_of_int (int_of_string cm land 255)) (n_of_dec mb) bytes
  | "SCL" :: ty :: _ :: cm :: mb :: rest ->
    let rest = (match rest with ("s" | "f") :: r -> r | r -> r) in
    let bytes = bytes_of_string (unhex (match rest with h :: _ -> h | [] -> "")) in
    let cm = n_of_int (int_of_string cm land 255) and mb = n_of_dec mb in
    let sh p d = show ~dimstr:"-" ~cls:"-" (fun () -> "") p d in
    (match ty with
     | "i" -> twice pre_ints (fun t -> outcome (sh (fun z -> hexf (float_of_int (int_of_z z)))) (csv_import_ints_into t cm mb bytes))
     | "u" -> twice pre_uints (fun t -> outcome (sh (fun z -> hexf (float_of_int (int_of_z z)))) (csv_import_uints_into t cm mb bytes))
     | "f" -> twice pre_reals (fun t -> outcome (sh (fun x -> hexf (single (float_of_num x)))) (csv_import_reals_into t cm mb bytes))
     | _ -> twice pre_reals (fun t -> outcome (sh (fun x -> hexf (float_of_num x))) (csv_import_reals_into t cm mb bytes)))
  | "SVM" :: variant :: prec :: store :: hi :: bs :: _ :: rest ->
    let bytes = bytes_of_string (unhex (match rest with h :: _ -> h | [] -> "")) in
    let rnd = if prec = "f" then single else (fun x -> x) in
    let comp = (store = "c") and hi = z_of_int (int_of_string hi) and bs = n_of_dec bs in
    let cl = function Ok _ -> "OK" | Exc -> "EXC" | Fault -> "FAULT" in
    if variant = "cls" then
      twice pre_scls (fun t -> outcome (fun d -> show ~dimstr:(dim_of d) ~cls:(cls_of d) zlab (sparse rnd) d) (svm_import_cls_into t comp hi bs bytes))
      ^ " coded=" ^ cl (svm_import_cls_coded_N comp hi bs bytes)
    else
      twice pre_sreg (fun t -> outcome (fun d -> show ~dimstr:(dim_of d) ~cls:"-" (fun l -> hexf (rnd (float_of_num l))) (sparse rnd) d) (svm_import_reg_into t comp hi bs bytes))
      ^ " coded=" ^ cl (svm_import_reg_coded_N comp hi bs bytes)
  | "XINT" :: ty :: sep :: mb :: _ :: rows :: _ ->
    let sepb = n_of_int (int_of_string sep land 255) and mb = n_of_dec mb in
    let recs = List.map (fun r -> match String.split_on_char '|' r with
        | [_; v] -> List.map parse_tok (split ',' v)
        | _ -> failwith "bad row") (split ';' rows) in
    let text = export_data sepb recs in
    let sh p d = show ~dimstr:"-" ~cls:"-" (fun () -> "") p d in
    let ints = (fun z -> hexf (float_of_int (int_of_z z))) in
    "XI text=" ^ hex (string_of_bytes text) ^ " ## " ^
    csv_line "data" (fun x -> x) true O sepb hash mb text ^ " ## " ^
    (if ty = "i" then twice pre_ints (fun t -> outcome (sh ints) (csv_import_ints_into t hash mb text))
     else twice pre_uints (fun t -> outcome (sh ints) (csv_import_uints_into t hash mb text)))
  | "XCSV" :: variant :: prec :: lp :: nout :: sep :: mb :: src :: rows :: _ ->
    let rnd = if prec = "f" then single else (fun x -> x) in
    let sepb = n_of_int (int_of_string sep land 255) and first = (lp = "F") in
    let recs = List.map (fun r -> match String.split_on_char '|' r with
        | [l; v] -> (split ',' l, List.map parse_tok (split ',' v))
        | _ -> failwith "bad row") (split ';' rows) in
    let text = match variant with
      | "data" -> export_data sepb (List.map snd recs)
      | "cls" -> export_cls first sepb (List.map (fun (l, v) -> (n_of_int (int_of_string (List.hd l)), v)) recs)
      | _ -> export_reg first sepb (List.map (fun (l, v) -> (List.map parse_tok l, v)) recs) in
    let text = if src = "S" || src = "F" then crlf text else text in
    "X text=" ^ hex (string_of_bytes text) ^ " " ^
    csv_line variant rnd first (nat_of_int (int_of_string nout)) sepb (n_of_int 35) (n_of_dec mb) text
  | "XSVM" :: variant :: store :: bs :: rows :: _ ->
    let comp = (store = "c") in
    let tok_of x = parse_tok (Printf.sprintf "%g" x) in
    let recs = List.map (fun r -> match String.split_on_char '|' r with
        | [l; v] -> (l, List.map float_of_string (split ',' v))
        | _ -> failwith "bad row") (split ';' rows) in
    let entries vals = List.concat (List.mapi (fun j x -> if comp && x = 0.0 then [] else [(n_of_int j, tok_of x)]) vals) in
    let bsn = n_of_dec bs in
    let id x = x in
    if variant = "cls" then begin
      let text = export_svm_cls (List.map (fun (l, vals) -> (n_of_int (int_of_float (float_of_string l)), entries vals)) recs) in
      "X text=" ^ hex (string_of_bytes text) ^ " " ^
      twice pre_scls (fun t -> outcome (fun d -> show ~dimstr:(dim_of d) ~cls:(cls_of d) zlab (sparse id) d) (svm_import_cls_into t comp Z0 bsn text))
    end else begin
      let text = export_svm_reg (List.map (fun (l, vals) -> (tok_of (float_of_string l), entries vals)) recs) in
      "X text=" ^ hex (string_of_bytes text) ^ " " ^
      twice pre_sreg (fun t -> outcome (fun d -> show ~dimstr:(dim_of d) ~cls:"-" (fun l -> hexf (float_of_num l)) (sparse id) d) (svm_import_reg_into t comp Z0 bsn text))
    end
  | "OBS" :: n :: m :: _ ->
    (match opt_sizes64 (n_of_dec n) (n_of_dec m) with Some l -> sizes_line l | None -> "FAULT")
  | "OBI" :: n :: b :: _ -> sizes_line (init_sizes64 (n_of_dec n) (n_of_dec b))
  | _ -> "BADCASE"

let () =
  let ic = open_in Sys.argv.(1) in
  (try
     while true do
       let l = input_line ic in
       let toks = List.filter (fun x -> x <> "") (String.split_on_char ' ' l) in
       if toks = [] then print_newline () else print_endline (run toks)
     done
   with End_of_file -> ())
