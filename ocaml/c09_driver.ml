(* Driver for the extracted C09 model: reads a case file, prints canonical lines.
   C <n> <max> id0 .. id(n-1)   start a case
   R k e | F i j | M m | X | T k e | D k | Q k e *)
open C09_model

let rec nat_of_int n = if n <= 0 then O else S (nat_of_int (n - 1))
let rec int_of_nat = function O -> 0 | S n -> 1 + int_of_nat n

let pv (a, b) = string_of_int (1000 * int_of_nat a + int_of_nat b)

let dump s =
  let n = List.length s.perm in
  let b = Buffer.create 256 in
  Buffer.add_string b (Printf.sprintf "sz=%d lines=%d lru=" (int_of_nat s.csize) (List.length s.lru));
  Buffer.add_string b (String.concat "," (List.map (fun k -> string_of_int (int_of_nat k)) s.lru));
  Buffer.add_string b " len=";
  let lens = List.init n (fun k -> int_of_nat (linelen s (nat_of_int k))) in
  Buffer.add_string b (String.concat "," (List.map string_of_int lens));
  Buffer.add_string b " data=";
  List.iteri (fun k l -> if l > 0 then begin
      Buffer.add_string b (Printf.sprintf "%d:" k);
      Buffer.add_string b (String.concat "," (List.map pv (line s (nat_of_int k))));
      Buffer.add_string b ";" end) lens;
  if s.err then Buffer.add_string b " UB";
  Buffer.contents b

let () =
  let ic = open_in Sys.argv.(1) in
  let st = ref (init [] O) in
  let caseno = ref (-1) in
  (try
    while true do
      let l = input_line ic in
      let toks = List.filter (fun x -> x <> "") (String.split_on_char ' ' l) in
      match toks with
      | [] -> ()
      | "C" :: n :: mx :: ids ->
        incr caseno;
        ignore n;
        st := init (List.map (fun x -> nat_of_int (int_of_string x)) ids) (nat_of_int (int_of_string mx));
        Printf.printf "%d C %s\n" !caseno (dump !st)
      | cmd :: args ->
        let a = List.map int_of_string args in
        let g i = nat_of_int (List.nth a i) in
        let o = match cmd with
          | "R" -> ORow (g 0, g 1) | "F" -> OFlip (g 0, g 1) | "M" -> OSetMax (g 0) | "X" -> OClear
          | "T" -> OTrunc (g 0, g 1) | "D" -> OMark (g 0) | "Q" -> ORowC (g 0, g 1)
          | _ -> failwith ("bad op " ^ cmd) in
        if not (wf_op !st o) then Printf.printf "%d %s REJECT\n" !caseno l
        else begin
          let pre = !st in
          st := step pre o;
          let extra = match o with
            | ORow (k, e) ->
              let ln = line !st k in
              let rec take n l = match n, l with 0, _ -> [] | _, [] -> [] | n, x :: t -> x :: take (n - 1) t in
              " ret=" ^ String.concat "," (List.map pv (take (int_of_nat e) ln))
            | ORowC (k, e) -> " ret=" ^ String.concat "," (List.map pv (cm_row_const k e pre))
            | _ -> "" in
          Printf.printf "%d %s%s %s\n" !caseno l extra (dump !st)
        end
    done
  with End_of_file -> ())
