(* Driver for the extracted C20 models: one output line per input line.
     split <site> <route> <nb> <nt> | x0 x1 ..      ranges of the generated site on inputs x (non-empty ones, `|`-separated)
     slice <site> <route> <k> <P> <T> | x0 x1 ..    cells each thread number may write: union over p of the generated slice (p,t)
     tilesb <site> | x0 x1 ..                       verdict of the decision procedure tiles_b / tiles2_b on the generated site
     rcseq <B> | op op ..                           sequential dataset script, observation after every op
     rcpar <B> <T> <seed> | script ; script ; ..    T threads, per-thread scripts, interleaved at micro-step level
   ops (rcseq):  c:<t>:<h>   s:<t>:<h>:<i,j,..>   r:<t>:<h>
   ops (rcpar):  c:<h>  s:<h>:<i,j,..>  r:<h>  k:<h>   (h = 0 root, h >= 1 the thread's h-th own dataset; k = hand over to main) *)
open C20_model

let rec nat_of_int n = if n <= 0 then O else S (nat_of_int (n - 1))
let rec int_of_nat = function O -> 0 | S n -> 1 + int_of_nat n
let nats l = List.map nat_of_int l
let ints l = List.map int_of_nat l
let toks s = List.filter (fun x -> x <> "") (String.split_on_char ' ' s)
let split_bar l = match String.index_opt l '|' with
  | Some i -> (String.sub l 0 i, String.sub l (i + 1) (String.length l - i - 1))
  | None -> (l, "")
let csv s = if s = "" then [] else List.map int_of_string (String.split_on_char ',' s)
let find_site tbl k = try Some (List.assoc k (List.map (fun (a, b) -> (int_of_nat a, b)) tbl)) with Not_found -> None

let show_ranges rs =
  String.concat "|" (List.filter (fun s -> s <> "") (List.map (fun r -> String.concat "," (List.map string_of_int (ints r))) rs))

let obs_string b st =
  String.concat "," (List.init b (fun i -> Printf.sprintf "%d/%d" (int_of_nat (st.rc_count (nat_of_int i))) (int_of_nat (st.rc_freed (nat_of_int i)))))

let parse_seq_op s = match String.split_on_char ':' s with
  | ["c"; t; h] -> DCopy (nat_of_int (int_of_string t), nat_of_int (int_of_string h))
  | ["s"; t; h; idx] -> DSubset (nat_of_int (int_of_string t), nat_of_int (int_of_string h), nats (csv idx))
  | ["s"; t; h] -> DSubset (nat_of_int (int_of_string t), nat_of_int (int_of_string h), [])
  | ["r"; t; h] -> DRelease (nat_of_int (int_of_string t), nat_of_int (int_of_string h))
  | _ -> failwith ("bad op " ^ s)

(* ---- rcpar: threads as small interpreters over rc_step *)
type micro = MCopy of int (* source instance *) | MDec of int | MFin | MEndCopy (* close the dataset being built *)
type thr = { id : int; mutable ops : string list; mutable queue : micro list; mutable own : int list option array; mutable nown : int;
             mutable building : int list; mutable kept : int list list }

let run_par b nthreads scripts pick =
  let st = ref (rc_init (nat_of_int b)) in
  let root = List.init b (fun i -> i) in
  let th = Array.init nthreads (fun i -> { id = i + 1; ops = List.nth scripts i; queue = []; own = Array.make 64 None; nown = 0; building = []; kept = [] }) in
  let step a = match rc_step !st a with Some s -> st := s | None -> failwith "DISABLED" in
  let handle t h = if h = 0 then root else match t.own.(h) with Some l -> l | None -> failwith "DISABLED" in
  let fetch t = match t.ops with
    | [] -> ()
    | o :: rest ->
      t.ops <- rest;
      (match String.split_on_char ':' o with
       | ["c"; h] -> t.queue <- List.map (fun p -> MCopy p) (handle t (int_of_string h)) @ [MEndCopy]
       | "s" :: h :: idx -> let l = handle t (int_of_string h) in
         let idx = match idx with [] -> [] | x :: _ -> csv x in
         t.queue <- List.map (fun i -> MCopy (List.nth l i)) idx @ [MEndCopy]
       | ["r"; h] -> let hh = int_of_string h in let l = handle t hh in t.own.(hh) <- None;
         t.queue <- List.concat (List.map (fun p -> [MDec p; MFin]) l)
       | ["k"; h] -> let hh = int_of_string h in let l = handle t hh in t.own.(hh) <- None; t.kept <- t.kept @ [l]
       | _ -> failwith ("bad op " ^ o)) in
  let exec t = match t.queue with
    | [] -> fetch t
    | m :: rest ->
      t.queue <- rest;
      (match m with
       | MCopy p -> let nid = int_of_nat !st.rc_next in step (ACopy (nat_of_int t.id, nat_of_int p)); t.building <- t.building @ [nid]
       | MEndCopy -> t.nown <- t.nown + 1; t.own.(t.nown) <- Some t.building; t.building <- []
       | MDec p -> step (ADec (nat_of_int t.id, nat_of_int p))
       | MFin -> step (AFin (nat_of_int t.id))) in
  let alive () = List.filter (fun t -> t.ops <> [] || t.queue <> []) (Array.to_list th) in
  let rec loop () = match alive () with
    | [] -> ()
    | l -> exec (pick l); loop () in
  loop ();
  let o1 = obs_string b !st in
  List.iter (fun p -> step (ADec (O, nat_of_int p)); step (AFin O)) root;
  let o2 = obs_string b !st in
  Array.iter (fun t -> List.iter (fun l -> List.iter (fun p -> step (ADec (O, nat_of_int p)); step (AFin O)) l) t.kept) th;
  let o3 = obs_string b !st in
  o1 ^ " ; " ^ o2 ^ " ; " ^ o3

let () =
  let ic = open_in Sys.argv.(1) in
  (try
    while true do
      let l = input_line ic in
      let (hd, tl) = split_bar l in
      (match toks hd with
       | [] -> ()
       | "split" :: site :: _route :: _nb :: _nt :: _ ->
         (match find_site split_sites (int_of_string site) with
          | Some st -> let x = nats (List.map int_of_string (toks tl)) in
            print_string (show_ranges (site_ranges st x)); print_newline ()
          | None -> print_endline "NOSITE")
       | "slice" :: site :: _route :: _k :: p :: t :: _ ->
         (match find_site slice_sites (int_of_string site) with
          | Some st -> let x = nats (List.map int_of_string (toks tl)) in
            let pn = int_of_string p and tn = int_of_string t in
            (* cells thread ti may write in the fill region: its slice of every outer index *)
            let per_thread = List.init tn (fun ti ->
              let c = List.sort_uniq compare (List.concat (List.init pn (fun pi -> ints (slice_cells st x (nat_of_int pi) (nat_of_int ti))))) in
              Printf.sprintf "t%d:%s" ti (String.concat "," (List.map string_of_int c))) in
            print_endline (String.concat " " per_thread)
          | None -> print_endline "NOSITE")
       | "tilesb" :: site :: _ ->
         let x = nats (List.map int_of_string (toks tl)) in
         (match find_site split_sites (int_of_string site), find_site slice_sites (int_of_string site) with
          | Some st, _ -> Printf.printf "%b\n" (site_tiles_b st x)
          | None, Some st -> Printf.printf "%b\n" (slice_tiles_b st x)
          | None, None -> print_endline "NOSITE")
       | ["rcseq"; b] ->
         let bn = int_of_string b in
         let ops = List.map parse_seq_op (toks tl) in
         (match d_trace (nat_of_int bn) (d_init (nat_of_int bn)) ops with
          | Some tr -> print_endline (String.concat " ; " (List.map (fun o -> String.concat "," (List.map (fun (c, f) -> Printf.sprintf "%d/%d" (int_of_nat c) (int_of_nat f)) o)) tr))
          | None -> print_endline "DISABLED")
       | ["rcpar"; b; t; seed] ->
         let bn = int_of_string b and tn = int_of_string t in
         let scripts = List.map toks (String.split_on_char ';' tl) in
         let scripts = List.init tn (fun i -> if i < List.length scripts then List.nth scripts i else []) in
         let rs = ref (int_of_string seed * 2654435761 + 12345) in
         let rnd n = rs := (!rs * 1103515245 + 12345) land 0x3fffffff; (!rs lsr 8) mod n in
         (try
           let a = run_par bn tn scripts (fun l -> List.nth l (rnd (List.length l))) in     (* random interleaving of micro-steps *)
           let c = run_par bn tn scripts (fun l -> List.hd l) in                           (* one thread after the other *)
           let d = run_par bn tn scripts (fun l -> List.nth l (List.length l - 1)) in
           if a = c && c = d then print_endline a else print_endline ("INTERLEAVING-DEPENDENT " ^ a ^ " <> " ^ c ^ " <> " ^ d)
         with Failure m -> print_endline m)
       | _ -> print_endline "BADLINE")
    done
  with End_of_file -> ())
